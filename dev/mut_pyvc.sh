#!/bin/bash
# usage: dev/mut_pyvc.sh <seeded-id> <pyvc/run.py args...> : run the engine against one seeded change
id=$1; shift
d=/tmp/mut/one-$id; rm -rf $d; git -C /repo worktree prune
git -C /repo worktree add --detach $d HEAD >/dev/null 2>&1
git -C $d apply /verif/seeded/$id/patch.diff
PYVC_REPO=$d python3-vt /verif/pyvc/run.py "$@"
git -C /repo worktree remove --force $d
