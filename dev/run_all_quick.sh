#!/bin/bash
# run every quick check on the clean tree (regenerates evidence); log to $1
out=${1:-/tmp/all_quick.log}; : > $out
for i in $(seq -w 1 20); do
  s=$(date +%s)
  VERIF_SEED=${VERIF_SEED:-1} python3-vt /verif/check.py C$i > /tmp/all_quick_C$i.txt 2>&1; rc=$?
  e=$(date +%s)
  echo "C$i exit=$rc wall=$((e-s))s $(grep '^property=' /tmp/all_quick_C$i.txt | tail -1)" >> $out
  grep -E '^(VIOLATION|UNDECIDED|CHECKER|KNOWN)' /tmp/all_quick_C$i.txt | cut -c1-220 | head -5 >> $out
done
echo DONE >> $out
