#!/bin/bash
# confirm round-2 sub-agent changes (from /tmp/wt/R2Cxx/_out/{A,B}) independently and
# store them as /verif/seeded/R2-Cxx-{A,B}; removes the sub-agent's worktree afterwards.
# usage: dev/confirm_r2.sh C13 C10 ...
head=$(git -C /repo rev-parse HEAD)
for p in "$@"; do
  src=/tmp/wt/R4$p/_out
  for v in A B; do
    [ -f $src/$v/patch.diff ] || { echo "R4-$p-$v MISSING"; continue; }
    id=R4-$p-$v; dst=/verif/seeded/$id; mkdir -p $dst
    cp $src/$v/patch.diff $src/$v/demo.py $src/$v/notes.md $dst/ 2>/dev/null
    wt=/tmp/mut/cf-$id; rm -rf $wt; git -C /repo worktree prune
    git -C /repo worktree add --detach $wt $head >/dev/null 2>&1
    cd $wt
    /venv/bin/python $dst/demo.py >/dev/null 2>&1; clean=$?
    if git apply $dst/patch.diff; then
      /venv/bin/python $dst/demo.py >/tmp/mut/demo_$id.txt 2>&1; mut=$?
      t=$(/venv/bin/python -m pytest -q -p no:cacheprovider --timeout=900 2>&1 | tail -1)
      res="$id clean_exit=$clean mutant_exit=$mut tests=[$t]"
    else
      res="$id PATCH-DOES-NOT-APPLY"
    fi
    echo "$res"
    files=$(git diff --name-only | tr '\n' ' ')
    cd /; git -C /repo worktree remove --force $wt
    python3 - "$id" "$p" "$res" "$files" "$dst" <<'PY'
import json, sys
id, p, res, files, dst = sys.argv[1:]
notes = open(dst + "/notes.md").read() if __import__("os").path.exists(dst + "/notes.md") else ""
json.dump({
 "id": id, "breaks_property": p, "round": 4,
 "source": "independent sub-agent (round 4) given only the property record and a scratch worktree of the repaired tree; "
           "the prompt asked for changes that need something specific to manifest and mentioned that the clean tree has known quirks "
           "(so that its demo is written to pass on the clean tree); nothing from /verif was shown",
 "files_changed": files.split(),
 "needs_to_manifest": notes.strip().splitlines()[0] if notes.strip() else "",
 "confirmed_by_me": {
  "procedure": "fresh worktree of /repo HEAD under /tmp/mut: demo on clean tree; git apply patch.diff; demo; pinned pytest command; worktree removed",
  "result": res,
  "expected": "clean_exit=0, mutant_exit!=0, tests 85 passed / 2 failed (the 2 baseline always_fail test_pipe cases)"}},
 open(dst + "/meta.json", "w"), indent=1)
PY
  done
  git -C /repo worktree remove --force /tmp/wt/R4$p 2>/dev/null
done
git -C /repo worktree prune
