#!/bin/bash
out=${1:-/tmp/all_thorough.log}; : > $out
for i in 03 09 10 11 15 16 17 19 08 07 18 06 05 12 13 14 04 01 20 02; do
  s=$(date +%s)
  VERIF_SEED=${VERIF_SEED:-1} PYVC_EVIDENCE_DIR=/tmp/ev_thorough PYVC_REPLAY_DIR=/tmp/rp_thorough timeout 7200 python3-vt /verif/check.py C$i --tier thorough > /tmp/all_thorough_C$i.txt 2>&1; rc=$?
  e=$(date +%s)
  echo "C$i exit=$rc wall=$((e-s))s $(grep '^property=' /tmp/all_thorough_C$i.txt | tail -1)" >> $out
  grep -E '^(VIOLATION|UNDECIDED|CHECKER)' /tmp/all_thorough_C$i.txt | cut -c1-220 | head -5 >> $out
done
echo DONE >> $out
