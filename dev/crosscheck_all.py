"""cross-check every eligible (function, case) once per given mode, in a pool"""
import sys, os, random, multiprocessing as mp
sys.path.insert(0, "/verif")
def job(t):
    key, cname, mode, seed = t
    from pyvc.run import get_engine
    from pyvc import crosscheck as X
    E = get_engine(mode)
    c = E.contracts[key]
    case = [k for k in c.cases if k.name == cname][0]
    try:
        n, bad, skip = X.crosscheck(E, key, case, mode, per_case=2, seed=seed)
    except Exception as ex:
        return (t, 0, [], "CRASH %s: %s" % (type(ex).__name__, str(ex)[:150]))
    return (t, n, bad, skip)
if __name__ == "__main__":
    import contracts
    from pyvc import crosscheck as X
    reg = contracts.load_all()
    modes = sys.argv[1].split(",") if len(sys.argv) > 1 else ["gregorian"]
    limit = int(sys.argv[2]) if len(sys.argv) > 2 else 10**9
    only = sys.argv[3] if len(sys.argv) > 3 else ""
    tasks = []
    rnd = random.Random(int(os.environ.get("XSEED", "1")))
    for key, c in reg.items():
        if key.startswith("ghost:") or not c.cases or not X.eligible(c) or only not in key:
            continue
        cases = list(c.cases)
        rnd.shuffle(cases)
        for case in cases[:limit]:
            for m in modes:
                if getattr(case, "modes", None) and m not in case.modes:
                    continue
                tasks.append((key, case.name, m, rnd.randint(0, 10**6)))
    print("tasks", len(tasks), flush=True)
    tot, bad, skips = 0, [], {}
    with mp.get_context("fork").Pool(16) as pool:
        for (t, n, b, skip) in pool.imap_unordered(job, tasks, chunksize=4):
            tot += n
            bad += b
            if skip:
                skips[t[0]] = skips.get(t[0], 0) + 1
                if skip.startswith("CRASH"):
                    print("CRASH", t, skip, flush=True)
            for x in b[:2]:
                print("DISAGREE", x[:400], flush=True)
    print("compared", tot, "disagreements", len(bad), "skipped by function", skips)
