"""run only the bounded stand-ins of every property for several seeds (false-alarm hunt)"""
import sys, importlib, time
sys.path.insert(0, "/verif")
import props
seeds = [int(x) for x in sys.argv[2].split(",")] if len(sys.argv) > 2 else [1, 2, 3]
ids = sys.argv[1].split(",") if len(sys.argv) > 1 and sys.argv[1] != "all" else ["C%02d" % i for i in range(1, 21)]
tier = sys.argv[3] if len(sys.argv) > 3 else "quick"
for pid in ids:
    m = importlib.import_module("props." + pid)
    if not hasattr(m, "bounded"):
        continue
    for sd in seeds:
        t = time.time()
        try:
            res = m.bounded(tier, sd, "/repo")
        except Exception as e:
            print(pid, sd, "CRASH", type(e).__name__, e); continue
        for r in res:
            print(pid, "seed", sd, r["name"], "evals", r["evaluations"], "fails", len(r["failures"]),
                  "%.1fs" % (time.time() - t), flush=True)
            for f in r["failures"][:3]:
                print("    ", str(f)[:300])
