#!/bin/bash
# run the thorough tier of the given checks; log to /tmp/some_thorough.log (evidence redirected so
# that the committed quick-tier evidence is not overwritten)
out=/tmp/some_thorough.log; : > $out
for p in "$@"; do
  s=$(date +%s)
  PYVC_EVIDENCE_DIR=/tmp/thorough_evidence PYVC_REPLAY_DIR=/tmp/thorough_replays VERIF_SEED=${VERIF_SEED:-1} python3-vt /verif/check.py $p --tier thorough > /tmp/some_thorough_$p.txt 2>&1; rc=$?
  e=$(date +%s)
  echo "$p exit=$rc wall=$((e-s))s $(grep '^property=' /tmp/some_thorough_$p.txt | tail -1)" >> $out
  grep -E '^(VIOLATION|UNDECIDED|CHECKER|KNOWN)' /tmp/some_thorough_$p.txt | cut -c1-220 | head -5 >> $out
done
echo DONE >> $out
