"""dev: generate VCs of one (function, case, mode); solve those whose name matches a regex.
usage: vcs.py KEY CASE MODE [REGEX] [MAX] [TIMEOUT_MS] [portfolio]"""
import sys, time, re, os
sys.path.insert(0,'/verif')
key, casename, mode = sys.argv[1:4]
rx = sys.argv[4] if len(sys.argv) > 4 else '.'
mx = int(sys.argv[5]) if len(sys.argv) > 5 else 10
if len(sys.argv) > 6: os.environ['PYVC_Z3_FAST_MS'] = sys.argv[6]
from pyvc.run import get_engine
from pyvc.solve import solve_vc
e=get_engine(mode)
c=e.contracts[key]
case=[k for k in c.cases if k.name==casename][0]
t=time.time(); n=e.verify(key,case); print('returns',n,'gen %.1fs'%(time.time()-t), len(e.vcs), 'vcs')
sel=[vc for vc in e.vcs if re.search(rx, vc.name)]
print(len(sel),'selected')
for vc in sel[:mx]:
    t=time.time(); r=solve_vc(vc, 'portfolio' in sys.argv); print(r.verdict, r.backend, vc.name, vc.kind, '%.2f'%(time.time()-t), {k:v for k,v in (r.model or {}).items() if k.startswith(('p:','g:'))} if r.verdict=='refuted' else '')
