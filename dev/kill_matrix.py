"""Compile seeded/KILL_MATRIX.json from run_seeded.py outputs (later files override earlier)."""
import json, os, sys
V = os.path.dirname(os.path.dirname(os.path.abspath(__file__)))
mat = {}
for f in sys.argv[1:]:
    if f != "--fresh" and os.path.exists(f):
        for mid, row in json.load(open(f)).items():
            mat.setdefault(mid, {}).update(row)
out = {}
old_path = os.path.join(V, "seeded", "KILL_MATRIX.json")
if "--fresh" not in sys.argv and os.path.exists(old_path):
    out = json.load(open(old_path))      # entries of earlier rounds / runs are kept
for mid in sorted(mat):
    meta = json.load(open(os.path.join(V, "seeded", mid, "meta.json")))
    row = {}
    for p, r in sorted(mat[mid].items()):
        row[p] = {"exit": r["exit"], "detected": r["exit"] == 1,
                  "first_line": r["first"][:220], "wall_s": r["wall_s"]}
    prev = out.get(mid, {}).get("checks", {})
    prev.update(row)
    out[mid] = {"breaks_property": meta["breaks_property"], "checks": prev,
                "detected_by": sorted(p for p, r in prev.items() if r["detected"])}
json.dump(out, open(os.path.join(V, "seeded", "KILL_MATRIX.json"), "w"), indent=1)
for mid, r in out.items():
    print(mid, r["breaks_property"], "->", r["detected_by"] or "NOT DETECTED",
          {p: c["exit"] for p, c in r["checks"].items() if c["exit"] not in (0, 1)})
