import sys, time
sys.path.insert(0,'/verif')
from pyvc.run import get_engine
from pyvc.solve import solve_vc
key, casename, mode = sys.argv[1], sys.argv[2], sys.argv[3]
e=get_engine(mode)
c=e.contracts[key]
case=[k for k in c.cases if k.name==casename][0]
t=time.time(); n=e.verify(key,case); print('returns',n,'gen %.1fs'%(time.time()-t), len(e.vcs))
for vc in e.vcs:
    t=time.time(); r=solve_vc(vc,False); print(r.verdict, vc.name, vc.kind, '%.2f'%(time.time()-t), {k:v for k,v in (r.model or {}).items() if k.startswith('p:')} if r.verdict=='refuted' else '')
