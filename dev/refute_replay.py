import sys, json, subprocess
sys.path.insert(0,'/verif')
from pyvc.run import run_tasks
key, case, mode = sys.argv[1:4]
r = run_tasks([{"kind":"verify","key":key,"case":case,"mode":mode}])[0]
for x in r["results"]:
    if x["verdict"]=="refuted":
        rep={"property":"dev","obligation":x["name"],"mode":mode,"function":key,"case":case,"model":x["model"],"recipe":r["recipe"],"contract":r["contract"]}
        json.dump(rep,open('/tmp/dev_replay.json','w'),default=str)
        p=subprocess.run(["/venv/bin/python","/verif/replay.py","/tmp/dev_replay.json"],capture_output=True,text=True)
        print(x["name"], "exit", p.returncode); print(p.stdout[-2500:], p.stderr[-1500:])
        break
