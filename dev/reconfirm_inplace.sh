#!/bin/bash
# re-confirm seeded changes whose demo locates the tree from its own path (<root>/_out/X/demo.py)
head=$(git -C /repo rev-parse HEAD)
for id in "$@"; do
  dst=/verif/seeded/$id; v=${id##*-}
  wt=/tmp/mut/cf-$id; rm -rf $wt; git -C /repo worktree prune
  git -C /repo worktree add --detach $wt $head >/dev/null 2>&1
  mkdir -p $wt/_out/$v; cp $dst/demo.py $wt/_out/$v/demo.py
  cd $wt
  /venv/bin/python _out/$v/demo.py >/dev/null 2>&1; clean=$?
  git apply $dst/patch.diff
  /venv/bin/python _out/$v/demo.py >/tmp/mut/demo_$id.txt 2>&1; mut=$?
  t=$(/venv/bin/python -m pytest -q -p no:cacheprovider --timeout=900 2>&1 | tail -1)
  res="$id clean_exit=$clean mutant_exit=$mut tests=[$t]"
  echo "$res"
  cd /; git -C /repo worktree remove --force $wt
  python3 - "$dst" "$res" <<'PY'
import json, sys
dst, res = sys.argv[1:]
m = json.load(open(dst + "/meta.json"))
m["confirmed_by_me"]["result"] = res
m["confirmed_by_me"]["procedure"] += "; the demo locates the tree from its own path, so it was run as <worktree>/_out/<A|B>/demo.py"
json.dump(m, open(dst + "/meta.json", "w"), indent=1)
PY
done
