#!/bin/bash
# usage: dev/mut_run.sh <seeded-id> <prop> [extra check.py args] : run one check against one seeded change
id=$1; prop=$2; shift 2
d=/tmp/mut/one-$id; rm -rf $d; git -C /repo worktree prune
git -C /repo worktree add --detach $d HEAD >/dev/null 2>&1
git -C $d apply /verif/seeded/$id/patch.diff
PYVC_REPO=$d PYVC_EVIDENCE_DIR=/tmp/mut/evidence PYVC_REPLAY_DIR=/tmp/mut/replays python3-vt /verif/check.py $prop "$@"
echo "exit=$?"
git -C /repo worktree remove --force $d
