#!/bin/bash
# re-base every seeded patch onto /repo HEAD and re-confirm it (tests pass, demo fails)
out=/tmp/rebase_results.txt; : > $out
head=$(git -C /repo rev-parse HEAD)
for d in /verif/seeded/C* /verif/seeded/R2-*; do
  id=$(basename $d); wt=/tmp/mut/rb-$id; rm -rf $wt; git -C /repo worktree prune
  [ -f $d/patch.orig.diff ] || cp $d/patch.diff $d/patch.orig.diff
  git -C /repo worktree add --detach $wt $head >/dev/null 2>&1
  cd $wt
  ok=0
  if git apply $d/patch.diff 2>/dev/null; then ok=1
  elif git apply --3way $d/patch.diff >/dev/null 2>&1 && ! git diff --name-only --diff-filter=U | grep -q .; then ok=1
  else
     git checkout -q -f $head; git clean -qfd
     git checkout -q --detach 4c743fa && git apply $d/patch.orig.diff 2>/dev/null && git -c user.name=x -c user.email=x@x commit -qam m && m=$(git rev-parse HEAD) && git checkout -q --detach $head && git -c user.name=x -c user.email=x@x cherry-pick -n $m >/dev/null 2>&1 && ok=1
  fi
  if [ $ok = 1 ]; then
     git reset -q; git diff $head -- metomi > /tmp/new_patch_$id.diff
     /venv/bin/python $d/demo.py >/dev/null 2>&1; mut=$?
     t=$(/venv/bin/python -m pytest -q -p no:cacheprovider --timeout=900 2>&1 | tail -1)
     git checkout -q -f $head; git clean -qfd
     /venv/bin/python $d/demo.py >/dev/null 2>&1; clean=$?
     if [ -s /tmp/new_patch_$id.diff ]; then cp /tmp/new_patch_$id.diff $d/patch.diff; fi
     echo "$id clean_exit=$clean mutant_exit=$mut tests=[$t]" >> $out
  else
     echo "$id CONFLICT" >> $out
  fi
  cd /; git -C /repo worktree remove --force $wt
done
echo DONE >> $out
