#!/bin/bash
# re-base every seeded patch from the pinned commit onto /repo HEAD and re-confirm it
out=/tmp/rebase_results.txt; : > $out
head=$(git -C /repo rev-parse HEAD)
for d in /verif/seeded/C*; do
  id=$(basename $d); wt=/tmp/mut/rb-$id; rm -rf $wt
  src=$d/patch.orig.diff; [ -f $src ] || cp $d/patch.diff $src
  git -C /repo worktree add --detach $wt 4c743fa >/dev/null 2>&1
  cd $wt
  if ! git apply $src 2>/dev/null; then echo "$id ORIG-APPLY-FAIL" >> $out; cd /; git -C /repo worktree remove --force $wt; continue; fi
  git -c user.name=x -c user.email=x@x commit -qam "mutant $id"
  m=$(git rev-parse HEAD)
  git checkout -q --detach $head
  if git -c user.name=x -c user.email=x@x cherry-pick -n $m >/dev/null 2>&1; then
     git diff HEAD -- metomi > $d/patch.diff
     /venv/bin/python $d/demo.py >/dev/null 2>&1; mut=$?
     t=$(/venv/bin/python -m pytest -q -p no:cacheprovider --timeout=900 2>&1 | tail -1)
     git checkout -q -f $head; git clean -qfd
     /venv/bin/python $d/demo.py >/dev/null 2>&1; clean=$?
     echo "$id clean_exit=$clean mutant_exit=$mut tests=[$t]" >> $out
  else
     echo "$id CONFLICT" >> $out
  fi
  cd /; git -C /repo worktree remove --force $wt
done
echo DONE >> $out
