import sys, time
sys.path.insert(0,'/verif')
from pyvc.run import run_task
import contracts; contracts.load_all()
name=sys.argv[1]
for m in (sys.argv[2:] or ["gregorian","360day","365day","366day"]):
    t=time.time(); r=run_task({"kind":"lemma","lemma":name,"mode":m,"portfolio":True})
    print(m, r["status"], [(x["name"],x["verdict"]) for x in r["results"]], '%.1fs'%(time.time()-t), r.get("error"))
