import sys, time
sys.path.insert(0,'/verif')
from pyvc.run import run_tasks
key=sys.argv[1]; mode=sys.argv[2]; cases=sys.argv[3:]
t=time.time()
res=run_tasks([{"kind":"verify","key":key,"case":c,"mode":mode} for c in cases])
for r in res:
    bad=[x for x in r["results"] if x["verdict"]!="proved"]
    print(r["task"]["case"], r["status"], len(r["results"]), "bad=%d"%len(bad), "%.1fs"%r["wall_s"], r.get("error") or "")
    for x in r["results"]:
        if x["time"]>3 or x["verdict"]!="proved": print("    ", x["verdict"], x["name"], x["backend"], "%.1fs"%x["time"], x["detail"])
print("total %.1f"%(time.time()-t))
