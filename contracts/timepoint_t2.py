"""T2 — TimePoint value object (C01, C02, C04, C05, C06, C09, C20)."""
import z3
from . import contract, Case, LoopSpec
from .shapes import (mk_timepoint, mk_duration, mk_timezone, DATES, TIMES,
                     fresh_timepoint_like, fresh_duration, date_kind, time_kind)
from pyvc.values import Ref, OutOfReach

NUM_SLOTS = ["_year", "_month_of_year", "_day_of_year", "_day_of_month",
             "_day_of_week", "_week_of_year", "_hour_of_day", "_minute_of_hour",
             "_second_of_minute"]

for q in ("TimePoint._copy", "TimePoint.get_is_calendar_date",
          "TimePoint.get_is_ordinal_date", "TimePoint.get_is_week_date",
          "TimePoint.get_calendar_date", "TimePoint.get_ordinal_date",
          "TimePoint.get_week_date", "TimePoint.get_hour_minute_second",
          "TimePoint.get_second_of_day", "TimePoint.get_time_zone_utc",
          "TimePoint.get_time_zone_offset", "TimePoint.get_props",
          "TimePoint.__eq__", "TimePoint.__lt__", "TimePoint.__le__",
          "TimePoint.__gt__", "TimePoint.__ge__"):
    contract("data:" + q, inline=True)


def REGISTRY_GET(k):
    from . import REGISTRY
    return REGISTRY[k]


def havoc_self_numeric(E, st, env):
    """After _tick_over the point is normal: integral time fields are built as
    ToReal(Int) symbols (their integrality is part of the assumed ensures)."""
    from .shapes import normal_time_fields
    h = st.obj(env["self"])
    E.fresh_n += 1
    nt = normal_time_fields(E, h.slots, "tick!%d" % E.fresh_n, keep_whole=True)
    for k in NUM_SLOTS:
        if h.slots.get(k) is not None:
            h.slots[k] = nt[k] if k in nt else \
                E.fresh_like(h.slots[k], "tick!%d.%s" % (E.fresh_n, k))


def tp_case(date, time, extra=None, integral=True):
    def build(E, st):
        d = {"self": mk_timepoint(E, st, "self", date, time, integral=integral)}
        if extra:
            d.update(extra(E, st))
        return d
    return build


# ---------------------------------------------------------------- _tick_over_day_of_month
_UNCH = ["self._year == old(self._year)",
         "self._month_of_year == old(self._month_of_year)",
         "self._day_of_month == old(self._day_of_month)"]
_T = ("old(dby(self._year) + cum(self._year, self._month_of_year)"
      " + self._day_of_month)")
contract(
    "data:TimePoint._tick_over_day_of_month", opaque=["dby"],
    requires=["1 <= self._month_of_year and self._month_of_year <= 12"],
    modifies_self=True, mod_slots=["_year", "_month_of_year", "_day_of_month"],
    havoc=lambda E, st, env: [st.obj(env["self"]).slots.__setitem__(
        k, E.fresh_like(st.obj(env["self"]).slots[k], "tdm.%s" % k))
        for k in ("_year", "_month_of_year", "_day_of_month")] and None,
    ensures=[
        "valid_cal(self._year, self._month_of_year, self._day_of_month)",
        "cal_abs(self._year, self._month_of_year, self._day_of_month) == " + _T],
    loops={
        0: LoopSpec(invariant=_UNCH + [
            "num_days == 2 - i", "self._day_of_month < num_days"]),
        1: LoopSpec(peel=True, invariant=_UNCH + [
            "start_year < old(self._year)",
            "self._day_of_month <= num_days",
            "(num_days == 1 - old(cum(self._year, self._month_of_year))"
            "             - (old(dby(self._year)) - dby(start_year)))"
            " if num_days != self._day_of_month else"
            " (valid_cal(start_year, month, day)"
            "  and cal_abs(start_year, month, day) == " + _T + ")"],
            decreases="num_days - self._day_of_month"),
        2: LoopSpec(invariant=_UNCH + [
            "num_days == entry(num_days) - i", "self._day_of_month < num_days"]),
        3: LoopSpec(invariant=_UNCH + [
            "num_days == i", "num_days < self._day_of_month"]),
        4: LoopSpec(invariant=_UNCH + [
            "num_days == dby(start_year + 1) - old(dby(self._year))"
            "            - old(cum(self._year, self._month_of_year))",
            "num_days < self._day_of_month", "start_year >= old(self._year)"],
            decreases="self._day_of_month - num_days"),
        5: LoopSpec(invariant=_UNCH + [
            "num_days == entry(num_days) + i", "num_days < self._day_of_month"]),
    },
    cases=[Case("cal", tp_case("cal", "hms", integral=False))])

# ---------------------------------------------------------------- _tick_over
_ABS = "date_abs(self) == entry(date_abs(self))"
contract(
    "data:TimePoint._tick_over", opaque=["dby"],
    requires=["check_changes is False",
              "self._month_of_year is None or"
              " (1 <= self._month_of_year and self._month_of_year <= 12)"],
    modifies_self=True, mod_slots=NUM_SLOTS, havoc=havoc_self_numeric,
    ensures=[
        "valid_date(self)",
        "time_normal(self)",
        "local_instant(self) == old(local_instant(self))",
        "result is None",
        "implies(old(valid_date(self) and time_normal(self)), %s)" % " and ".join(
            "self.%s == old(self.%s)" % (k, k) for k in NUM_SLOTS),
        "implies(old(whole_seconds(self)), whole_seconds(self))",
        "use_lemma('day.floor', a=date_abs(self) - old(date_abs(self)), r=sod(self),"
        " x=old(sod(self)))",
        "date_abs(self) == old(date_abs(self)) + fdiv(old(sod(self)), 86400)",
        "sod(self) == old(sod(self)) - 86400 * fdiv(old(sod(self)), 86400)",
        "implies(old(whole_seconds(self)), hms_from_sod(self))",
        "implies(old(whole_seconds(self)), isod(self) == old(isod(self))"
        " - 86400 * (old(isod(self)) // 86400))",
        "implies(old(whole_seconds(self)), date_abs(self) == old(date_abs(self))"
        " + old(isod(self)) // 86400)"],
    loops={
        0: LoopSpec(invariant=[_ABS], decreases="1 - self._day_of_year"),
        1: LoopSpec(invariant=[_ABS, "self._day_of_year >= 1"],
                    decreases="self._day_of_year"),
        2: LoopSpec(invariant=[_ABS], decreases="1 - self._week_of_year"),
        3: LoopSpec(invariant=[_ABS, "self._week_of_year >= 1"],
                    decreases="self._week_of_year"),
        4: LoopSpec(invariant=["1 <= self._month_of_year",
                               "self._month_of_year <= 12",
                               "self._year == entry(self._year)",
                               "self._month_of_year == entry(self._month_of_year)"],
                    decreases="1 - self._month_of_year"),
        5: LoopSpec(invariant=["1 <= self._month_of_year",
                               "self._month_of_year <= 12",
                               "self._year == entry(self._year)",
                               "self._month_of_year == entry(self._month_of_year)"],
                    decreases="self._month_of_year"),
    },
    cases=[])
_TO = REGISTRY_GET("data:TimePoint._tick_over")
_WHOLE = "implies(old(whole_seconds(self)), whole_seconds(self))"
_WHOLE2 = "implies(old(whole_seconds(self)), hms_from_sod(self))"
_WHOLE3a = ("implies(old(whole_seconds(self)), isod(self) == old(isod(self))"
            " - 86400 * (old(isod(self)) // 86400))")
_WHOLE3b = ("implies(old(whole_seconds(self)), date_abs(self) == old(date_abs(self))"
            " + old(isod(self)) // 86400)")
_TO.cases = [Case("%s-%s" % (d, t), tp_case(d, t, integral=False),
                  ensures=[e for e in _TO.ensures
                           if e not in (_WHOLE, _WHOLE2, _WHOLE3a, _WHOLE3b)])
             for d in DATES for t in TIMES] + [
    # integrality: inputs satisfying whole_seconds() are exactly those of the
    # form ToReal(<Int>), which is how these cases build them
    Case("%s-%s-whole" % (d, t), lambda E, st, d=d, t=t: {
        "self": mk_timepoint(E, st, "self", d, t, integral=True, whole=True)},
        ensures=["whole_seconds(self)", "hms_from_sod(self)",
                 "86400 * date_abs(self) + isod(self) == old(86400 * date_abs(self) + isod(self))",
                 "use_lemma('day.floor.int', a=date_abs(self) - old(date_abs(self)),"
                 " r=isod(self), x=old(isod(self)))", _WHOLE3a, _WHOLE3b])
    for d in DATES for t in TIMES]


# ---------------------------------------------------------------- __add__ (Duration)
def is_duration(E, st, v):
    return isinstance(v, Ref) and st.obj(v).kind == "obj" and \
        st.obj(v).cls.is_subclass_of("Duration")


def is_full_tp(E, st, v):
    return isinstance(v, Ref) and st.obj(v).kind == "obj" and \
        st.obj(v).cls.name == "TimePoint" and st.obj(v).slots.get("_truncated") is False


def add_result(E, st, env):
    return fresh_timepoint_like(E, st, env["self"], "sum")


SAME_SHAPE = [
    "is_cal(result) == is_cal(self) and is_ord(result) == is_ord(self)"
    " and is_week(result) == is_week(self)",
    "(result._minute_of_hour is None) == (self._minute_of_hour is None)"
    " and (result._second_of_minute is None) == (self._second_of_minute is None)",
    "result._truncated is False",
    "result._num_expanded_year_digits == self._num_expanded_year_digits",
]
SAME_ZONE = [
    "result._time_zone._hours == self._time_zone._hours"
    " and result._time_zone._minutes == self._time_zone._minutes"
    " and result._time_zone._unknown == self._time_zone._unknown",
]


_ADD_WHOLE = ("implies(d_exact(other) and whole_seconds(self) and dwhole(other)"
              " and self._second_of_minute is not None, whole_seconds(result))")


def add_cases():
    out = []
    for d in DATES:
        for t in TIMES:
            for f in ("exact", "week"):
                out.append(Case("%s-%s+%s" % (d, t, f), tp_case(
                    d, t, lambda E, st, f=f: {"other": mk_duration(E, st, "other", f)}),
                    ensures="GENERAL"))
        # integrality: whole-second h:m:s point + whole-valued exact duration
        out.append(Case("%s-hms+exact-whole" % d, lambda E, st, d=d: {
            "self": mk_timepoint(E, st, "self", d, "hms", whole=True),
            "other": mk_duration(E, st, "other", "exact-whole")},
            ensures=["whole_seconds(result)"]))
    return out


def _years_dur(E, st):
    from .shapes import mk_duration as _mk
    r = _mk(E, st, "other", "unit")
    h = st.obj(r)
    for k in ("_months", "_days"):
        h.slots[k] = 0
    for k in ("_hours", "_minutes", "_seconds"):
        h.slots[k] = 0.0
    return {"other": r}


def nominal_cases():
    out = []
    for d in DATES:
        for t in TIMES:
            out.append(Case("%s-%s+years" % (d, t), tp_case(d, t, _years_dur)))
    return out


# mixed durations (C05: exact part first, then months, then years).  (gy, gm, gd) is the
# universally quantified calendar triple of the day reached by the exact part; (gy2, gn2) /
# (gy2, gw2, gd2) the ordinal / week spelling of the day reached after the month step.
_XLEN = "(sod(self) + dlen(other))"
_XDAY = "(date_abs(self) + fdiv(%s, 86400))" % _XLEN
_MI = "(12 * gy + gm - 1)"
_MS = "(1 if other._months > 0 else -1)"
_MJ = "(%s + other._months)" % _MI
_RMX = "runmin(%s, gd, abs(other._months), %s)" % (_MI, _MS)
_G1 = "valid_cal(gy, gm, gd) and cal_abs(gy, gm, gd) == %s" % _XDAY
_MDAY = "cal_abs(%s // 12, %s %% 12 + 1, %s)" % (_MJ, _MJ, _RMX)
MIXED_TIME = [
    "time_normal(result)",
    "sod(result) == %s - 86400 * fdiv(%s, 86400)" % (_XLEN, _XLEN)]
MIXED_ENS = {
    "cal": [
        "implies(%s, runmin_def(%s, gd, 0, %s) and midx(result) == %s + 12 * other._years"
        " and result._day_of_month == min(%s, dim(result._year, result._month_of_year)))"
        % (_G1, _MI, _MS, _MJ, _RMX)],
    "ord": [
        "implies(%s and valid_ord(gy2, gn2) and absday(gy2, gn2) == %s,"
        " result._year == gy2 + other._years"
        " and result._day_of_year == min(gn2, diy(gy2 + other._years)))" % (_G1, _MDAY)],
    "week": [
        "implies(%s and valid_week(gy2, gw2, gd2) and week_abs(gy2, gw2, gd2) == %s,"
        " result._year == gy2 + other._years"
        " and result._week_of_year == min(gw2, wiy(gy2 + other._years))"
        " and result._day_of_week == gd2)" % (_G1, _MDAY)],
}


_MIX_COMPS = (("s", "_seconds"), ("i", "_minutes"), ("h", "_hours"), ("d", "_days"),
              ("M", "_months"), ("Y", "_years"))
MIX_QUICK = ("MY", "sMY", "iMY", "hMY", "dMY", "sihdMY")


def _mixed_dur(present):
    """Unit-form duration whose components named in `present` are symbolic and non-zero
    (stated as a case requirement) and whose other components are the concrete 0 the
    constructor stores: the union over all subsets is every unit-form duration."""
    def build(E, st):
        r = mk_duration(E, st, "other", "unit")
        h = st.obj(r)
        for (c, k) in _MIX_COMPS:
            if c not in present:
                h.slots[k] = 0 if k in ("_days", "_months", "_years") else 0.0
        return {"other": r}
    return build


def mixed_cases():
    import itertools
    out = []
    letters = [c for (c, k) in _MIX_COMPS]
    for n in range(1, 7):
        for sub in itertools.combinations(letters, n):
            present = "".join(sub)
            if "M" not in present and "Y" not in present:
                continue        # exact durations: the `exact` / `week` cases
            for d in DATES:
                for t in TIMES:
                    if t != "hms" and present not in MIX_QUICK:
                        continue    # decimal-minute / decimal-hour points: covering subsets
                    out.append(Case(
                        "%s-%s+mixed:%s" % (d, t, present),
                        tp_case(d, t, _mixed_dur(present)),
                        requires=["time_normal(self)"] + [
                            "other.%s != 0" % k for (c, k) in _MIX_COMPS if c in present],
                        ensures="MIXED:" + d))
    return out


contract(
    "data:TimePoint.__add__",
    applicable=lambda E, st, env: is_full_tp(E, st, env["self"]) and
    is_duration(E, st, env["other"]),
    inline_fallback=True,
    requires=["normal24(self) if not self._truncated else True"],
    result=add_result, fresh_result=True,
    ensures=["fresh(result)"] + SAME_SHAPE + SAME_ZONE + [
        "valid_date(result)",
        "implies(d_exact(other), time_normal(result))",
        "implies(d_exact(other), instant(result) == instant(self) + dlen(other))",
        "implies(years_only(other), year_step_ok(result, self, d_years(other))"
        " and same_time_and_zone(result, self))",
        "implies(d_exact(other) and whole_seconds(self) and dwhole(other)"
        " and self._second_of_minute is not None, whole_seconds(result))"],
    cases=add_cases() + nominal_cases() + mixed_cases(), merge=False, opaque=["dby"],
    ghosts={"gy": "int", "gm": "int", "gd": "int", "gy2": "int", "gn2": "int",
            "gw2": "int", "gd2": "int"},
    cuts=[("if duration._days:", [
               # (mixed cases only) the exact part is done: `new` is self's instant moved by
               # the exact length, normalised; its day is date_abs(self) + whole days carried
               "(use_lemma('day.floor', a=date_abs(new) - date_abs(self), r=sod(new),"
               " x=sod(self) + dlen(other)) and (use_lemma('cal.key.order', y1=gy, m1=gm,"
               " d1=gd, y2=new._year, m2=new._month_of_year, d2=new._day_of_month)"
               " if is_cal(new) else True))"
               " if (d_months(other) != 0 or d_years(other) != 0) else True",
               "(date_abs(new) == %s)"
               " if (d_months(other) != 0 or d_years(other) != 0) and time_normal(self)"
               " else True" % _XDAY]),
          ("if duration._months:", [
               "(runmin_def(%s, gd, 0, %s) and (use_lemma('ord.key.order', y1=gy2, n1=gn2,"
               " y2=new._year, n2=new._day_of_year) if is_ord(new) else True)"
               " and (use_lemma('week.key.order', y1=gy2, w1=gw2, d1=gd2, y2=new._year,"
               " w2=new._week_of_year, d2=new._day_of_week) if is_week(new) else True))"
               " if (d_months(other) != 0 or d_years(other) != 0) else True" % (_MI, _MS),
               # staging: the month step reached the day the ghosts spell
               "implies(%s and valid_ord(gy2, gn2) and absday(gy2, gn2) == %s,"
               " new._year == gy2 and new._day_of_year == gn2)"
               " if is_ord(new) and (d_months(other) != 0 or d_years(other) != 0)"
               " and time_normal(self) else True"
               % (_G1, _MDAY),
               "implies(%s and valid_week(gy2, gw2, gd2) and week_abs(gy2, gw2, gd2) == %s,"
               " new._year == gy2 and new._week_of_year == gw2 and new._day_of_week == gd2)"
               " if is_week(new) and (d_months(other) != 0 or d_years(other) != 0)"
               " and time_normal(self) else True"
               % (_G1, _MDAY)])],
    regions=[{
        # KF-C01-1: 24:00 plus a Duration with no exact part returns a field-for-field
        # copy (hour 24 kept): the general clause 0 <= h < 24 does not hold here, and
        # callers (to_time_zone with an unchanged offset, str of a 24:00 point) rely on
        # exactly this behaviour
        "name": "24h-plus-zero", "owner": "C01",
        "when": "(self._hour_of_day == 24 and d_days(other) == 0 and d_hours(other) == 0"
                " and d_minutes(other) == 0 and d_seconds(other) == 0"
                " and d_years(other) == 0 and d_months(other) == 0)"
                " if classname(other) in ('Duration', 'TimeZone') else False",
        "cases": r".*\+(exact|week|years)",
        "ensures": ["fresh(result)", "tp_same_fields(result, self)",
                    "result._num_expanded_year_digits == self._num_expanded_year_digits",
                    "result._time_zone._unknown == self._time_zone._unknown"]}],
    note="exact durations (C01); nominal parts: C05 cases")


# ---------------------------------------------------------------- __sub__ (Duration)
def sub_cases():
    out = []
    for d in DATES:
        for t in TIMES:
            for f in ("exact", "week"):
                out.append(Case("%s-%s-%s" % (d, t, f), tp_case(
                    d, t, lambda E, st, f=f: {"other": mk_duration(E, st, "other", f)})))
    return out


SUB_TP_ENS = [
    "fresh(result)", "classname(result) == 'Duration'",
    "not in_weeks(result) and d_years(result) == 0 and d_months(result) == 0",
    "dlen(result) == instant(self) - instant(other)",
    "implies(instant(self) >= instant(other), d_days(result) >= 0)",
    "implies(instant(self) >= instant(other),"
    " 0 <= d_hours(result) and d_hours(result) < 24)",
    "implies(instant(self) >= instant(other),"
    " 0 <= d_minutes(result) and d_minutes(result) < 60)",
    "implies(instant(self) >= instant(other),"
    " 0 <= d_seconds(result) and d_seconds(result) < 60)",
    "implies(instant(self) < instant(other), d_days(result) <= 0)",
    "implies(instant(self) < instant(other),"
    " 0 >= d_hours(result) and d_hours(result) > -24)",
    "implies(instant(self) < instant(other),"
    " 0 >= d_minutes(result) and d_minutes(result) > -60)",
    "implies(instant(self) < instant(other),"
    " 0 >= d_seconds(result) and d_seconds(result) > -60)",
    "unchanged(self)", "unchanged(other)"]
SUB_DUR_ENS = ["fresh(result)"] + SAME_SHAPE + SAME_ZONE + [
    "valid_date(result)",
    "implies(d_exact(other), time_normal(result))",
    "implies(d_exact(other), instant(result) == instant(self) - dlen(other))"]


def sub_result(E, st, env):
    if is_duration(E, st, env["other"]):
        return fresh_timepoint_like(E, st, env["self"], "diff")
    return fresh_duration(E, st, "unit", "diff")


def sub_tp_cases():
    out = []
    for d1 in DATES:
        for t1 in TIMES:
            for d2 in DATES:
                for t2 in TIMES:
                    def build(E, st, d1=d1, t1=t1, d2=d2, t2=t2):
                        return {"self": mk_timepoint(E, st, "self", d1, t1),
                                "other": mk_timepoint(E, st, "other", d2, t2)}
                    out.append(Case("tp:%s-%s/%s-%s" % (d1, t1, d2, t2), build,
                                    requires=["normal24(other)"], ensures=SUB_TP_ENS))
    out.append(Case("tp:same-object", lambda E, st: (
        lambda r: {"self": r, "other": r})(mk_timepoint(E, st, "self", "cal", "hms")),
        ensures=["dlen(result) == 0", "fresh(result)"]))
    return out


contract(
    "data:TimePoint.__sub__", opaque=["dby"],
    applicable=lambda E, st, env: is_full_tp(E, st, env["self"]) and
    (is_duration(E, st, env["other"]) or is_full_tp(E, st, env["other"])),
    inline_fallback=True, recursive_ok=True,
    cuts=[("my_hour, my_minute, my_second = ", [
        "diff_day == date_abs(this) - date_abs(other)",
        "instant(this) == instant(self)",
        "local_instant(this) - local_instant(other) == old(instant(self) - instant(other))"])],
    requires=["normal24(self)",
              "normal24(other) if classname(other) == 'TimePoint' else True"],
    result=sub_result, fresh_result=True,
    ensures=["(%s) if classname(other) == 'TimePoint' else True" % e for e in SUB_TP_ENS] +
            ["(%s) if classname(other) != 'TimePoint' else True" % e for e in SUB_DUR_ENS],
    cases=[Case(c.name, c.build, ensures=SUB_DUR_ENS) for c in sub_cases()] + sub_tp_cases(),
    regions=[{
        # the same behaviour as __add__'s region, reached through p - d == p + (-1 * d)
        "name": "24h-minus-zero", "owner": "C01",
        "when": "(self._hour_of_day == 24 and d_days(other) == 0 and d_hours(other) == 0"
                " and d_minutes(other) == 0 and d_seconds(other) == 0"
                " and d_years(other) == 0 and d_months(other) == 0)"
                " if classname(other) in ('Duration', 'TimeZone') else False",
        "cases": r"(cal|ord|week)-(hms|hm|h)-(exact|week)",
        "ensures": ["fresh(result)", "tp_same_fields(result, self)",
                    "result._num_expanded_year_digits == self._num_expanded_year_digits",
                    "result._time_zone._unknown == self._time_zone._unknown"]}],
    note="TimePoint - Duration == TimePoint + (-1 * Duration) by construction; "
         "TimePoint - TimePoint: exact Duration of the signed distance (C04)")


# ---------------------------------------------------------------- zones (C06)
def tz_cases(with_dest=True):
    out = []
    for d in DATES:
        for t in TIMES:
            def build(E, st, d=d, t=t):
                r = {"self": mk_timepoint(E, st, "self", d, t)}
                if with_dest:
                    r["dest_time_zone"] = mk_timezone(E, st, "dest_time_zone")
                return r
            out.append(Case("%s-%s" % (d, t), build))
    return out


def tz_result(E, st, env):
    r = fresh_timepoint_like(E, st, env["self"], "rezoned")
    st.obj(r).slots["_time_zone"] = env["dest_time_zone"]
    return r


SAME_SHAPE_R = SAME_SHAPE
contract(
    "data:TimePoint.to_time_zone",
    applicable=lambda E, st, env: is_full_tp(E, st, env["self"]) and
    isinstance(env["dest_time_zone"], Ref) and
    st.obj(env["dest_time_zone"]).slots.get("_unknown") is False,
    inline_fallback=True,
    requires=["normal24(self)", "tz_ok(dest_time_zone)"],
    result=lambda E, st, env: tz_result(E, st, env), fresh_result=True,
    ensures=["fresh(result)"] + SAME_SHAPE + [
        "result._time_zone is dest_time_zone",
        "valid_date(result)", "time_normal24(result)",
        "instant(result) == instant(self)",
        "implies(time_normal(self), time_normal(result))",
        "implies(whole_seconds(self) and self._second_of_minute is not None,"
        " whole_seconds(result))",
        "unchanged(self)", "unchanged(dest_time_zone)",
        # re-expressing a 24:00 point in the offset it already has keeps it 24:00
        # (what str() of such a point relies on)
        "implies(dest_time_zone._hours == self._time_zone._hours"
        " and dest_time_zone._minutes == self._time_zone._minutes,"
        " tp_same_date_time(result, self))"],
    cases=tz_cases() + [
        Case("unknown-dest", lambda E, st: {
            "self": mk_timepoint(E, st, "self", "cal", "hms"),
            "dest_time_zone": mk_timezone(E, st, "dest_time_zone", unknown=True)},
            ensures=["result is self", "unchanged(self)"], fresh_result=False)],
    note="destination zone known; an unknown destination returns self (inlined)")

contract(
    "data:TimePoint.to_utc", use_at_calls=False,
    requires=["normal24(self)"],
    ensures=["fresh(result)"] + SAME_SHAPE + [
        "result._time_zone._hours == 0 and result._time_zone._minutes == 0"
        " and result._time_zone._unknown is False",
        "valid_date(result)", "time_normal24(result)",
        "instant(result) == instant(self)", "unchanged(self)"],
    cases=tz_cases(False))
REG_TO_UTC = True

_OFF = ("(-time.altzone if (time.localtime().tm_isdst == 1 and time.daylight)"
        " else -time.timezone)")
contract(
    "data:TimePoint.to_local_time_zone", use_at_calls=False,
    requires=["normal24(self)",
              "timezone.time.timezone % 60 == 0 and timezone.time.altzone % 60 == 0",
              "-86400 <= timezone.time.timezone and timezone.time.timezone <= 86400",
              "-86400 <= timezone.time.altzone and timezone.time.altzone <= 86400"],
    ensures=["fresh(result)"] + SAME_SHAPE + [
        "3600 * result._time_zone._hours + 60 * result._time_zone._minutes == "
        "(-timezone.time.altzone if (timezone.time.localtime().tm_isdst == 1"
        " and timezone.time.daylight) else -timezone.time.timezone)",
        "tz_ok(result._time_zone)",
        "valid_date(result)", "time_normal24(result)",
        "instant(result) == instant(self)", "unchanged(self)"],
    cases=tz_cases(False))


# ---------------------------------------------------------------- comparison (C02)
OPS = {"eq": "==", "lt": "<", "le": "<=", "gt": ">", "ge": ">="}


def cmp_cases():
    out = []
    for op in OPS:
        for d1 in DATES:
            for t1 in TIMES:
                for d2 in DATES:
                    for t2 in TIMES:
                        def build(E, st, d1=d1, t1=t1, d2=d2, t2=t2, op=op):
                            return {"self": mk_timepoint(E, st, "self", d1, t1),
                                    "other": mk_timepoint(E, st, "other", d2, t2),
                                    "op": op}
                        out.append(Case(
                            "%s:%s-%s/%s-%s" % (op, d1, t1, d2, t2), build,
                            ensures=["result == (instant(self) %s instant(other))" % OPS[op],
                                     "unchanged(self)", "unchanged(other)"]))
        # aliasing: a <op> a
        out.append(Case("%s:same-object" % op, lambda E, st, op=op: (
            lambda r: {"self": r, "other": r, "op": op})(
                mk_timepoint(E, st, "self", "cal", "hms")),
            ensures=["result == (%s)" % ("True" if op in ("eq", "le", "ge") else "False")]))
    return out


contract(
    "data:TimePoint._cmp", use_at_calls=False, opaque=["dby"],
    requires=["normal24(self)", "normal24(other)"],
    cases=cmp_cases(),
    note="result <=> order of instants, for each literal op and each pair of shapes")


# contract of _cmp for use at call sites (the operators inline to _cmp)
def _cmp_result(E, st, env):
    E.fresh_n += 1
    return z3.Bool("cmp!%d" % E.fresh_n)


_c = contract(
    "data:TimePoint._cmp", opaque=["dby"],
    cuts=[("this = self._end_of_day_normalised()", [
        "local_instant(this) == old(local_instant(self))",
        "local_instant(other) - local_instant(this) == old(instant(other) - instant(self))",
        "time_normal(this) and time_normal(other)",
        "valid_date(this) and valid_date(other)"]),
        ("other_datetime = [", [
         "date_key(my_date) == date_abs(this) and date_key(other_date) == date_abs(other)",
         "use_lemma('cal.key.order', y1=my_date[0], m1=my_date[1], d1=my_date[2],"
         " y2=other_date[0], m2=other_date[1], d2=other_date[2])"
         " if len(my_date) == 3 else"
         " use_lemma('ord.key.order', y1=my_date[0], n1=my_date[1],"
         " y2=other_date[0], n2=other_date[1])"])],
    applicable=lambda E, st, env: is_full_tp(E, st, env["self"]) and
    is_full_tp(E, st, env["other"]) and isinstance(env["op"], str),
    inline_fallback=True,
    requires=["normal24(self)", "normal24(other)"],
    result=_cmp_result,
    ensures=["result == ((instant(self) == instant(other)) if op == 'eq' else"
             " (instant(self) < instant(other)) if op == 'lt' else"
             " (instant(self) <= instant(other)) if op == 'le' else"
             " (instant(self) > instant(other)) if op == 'gt' else"
             " (instant(self) >= instant(other)))"],
    cases=cmp_cases(),
    note="result <=> order of instants, for each literal op and each pair of shapes")


# ---------------------------------------------------------------- __hash__
def _hash_result(E, st, env):
    from pyvc.values import HashV
    E.fresh_n += 1
    n = E.fresh_n
    return HashV((z3.Int("hy!%d" % n), z3.Int("hm!%d" % n), z3.Int("hd!%d" % n),
                  z3.Real("hh!%d" % n), z3.Real("hmi!%d" % n), z3.Real("hs!%d" % n)))


contract(
    "data:TimePoint.__hash__", opaque=["dby"],
    applicable=lambda E, st, env: is_full_tp(E, st, env["self"]),
    inline_fallback=True,
    requires=["normal24(self)"],
    result=_hash_result,
    ensures=[
        "valid_cal(hash_elems(result)[0], hash_elems(result)[1], hash_elems(result)[2])",
        "0 <= hash_elems(result)[3] and hash_elems(result)[3] < 24"
        " and isint(hash_elems(result)[3])",
        "0 <= hash_elems(result)[4] and hash_elems(result)[4] < 60"
        " and isint(hash_elems(result)[4])",
        "0 <= hash_elems(result)[5] and hash_elems(result)[5] < 60",
        "86400 * cal_abs(hash_elems(result)[0], hash_elems(result)[1],"
        " hash_elems(result)[2]) + 3600 * hash_elems(result)[3]"
        " + 60 * hash_elems(result)[4] + hash_elems(result)[5]"
        " == instant(self)",
        "unchanged(self)"],
    cases=tz_cases(False),
    note="hash of the UTC calendar date and h/m/s: a function of the instant")

contract("data:TimePoint._end_of_day_normalised", inline=True)


# ---------------------------------------------------------------- add_months (C05)
from . import ENGINE_HOOKS  # noqa
from pyvc.values import simp as _simp  # noqa
_RM = z3.Function("runmin", z3.IntSort(), z3.IntSort(), z3.IntSort(), z3.IntSort(),
                  z3.IntSort())


def _rm_hook(E):
    def zi(x):
        return x if z3.is_expr(x) else z3.IntVal(x)

    def runmin(E_, args, kws, st):
        return _RM(*[zi(a) for a in args])

    def runmin_def(E_, args, kws, st):
        """Definitional facts of runmin at (idx, d, k, sgn): always true."""
        idx, d, k, sgn = args
        from contracts.calendar_t1 import S
        sg = _simp(zi(sgn) > 0)
        step = (idx + k + 1) if sg is True else (idx - k - 1) if sg is False else \
            z3.If(zi(sgn) > 0, zi(idx + k + 1), zi(idx - k - 1))
        nxt = S(E_, "dim_idx", step)
        cur = _RM(zi(idx), zi(d), zi(k), zi(sgn))
        st.assume(_RM(zi(idx), zi(d), z3.IntVal(0), zi(sgn)) == zi(d))
        st.assume(z3.Implies(zi(k) >= 0, _RM(zi(idx), zi(d), zi(k + 1), zi(sgn))
                             == z3.If(cur <= nxt, cur, nxt)))
        return True
    E.extra_builtins["runmin"] = runmin
    E.extra_builtins["runmin_def"] = runmin_def


ENGINE_HOOKS.append(_rm_hook)


def am_result(E, st, env):
    return fresh_timepoint_like(E, st, env["self"], "am", normal=True)


_IDX0 = "entry(12 * new._year + new._month_of_year - 1)"
_D0 = "entry(new._day_of_month)"


def am_loop(sgn):
    s = "(1 if num_months > 0 else -1)"
    return LoopSpec(invariant=[
        "12 * new._year + new._month_of_year - 1 == %s + %s * i" % (_IDX0, s),
        "1 <= new._month_of_year and new._month_of_year <= 12",
        "runmin_def(%s, %s, i, %s)" % (_IDX0, _D0, s),
        "new._day_of_month == runmin(%s, %s, i, %s)" % (_IDX0, _D0, s),
        "1 <= new._day_of_month",
        "i == 0 or new._day_of_month <= dim(new._year, new._month_of_year)",
        "same_time_and_zone(new, self)"])


AM_ENS_CAL = [
    "fresh(result)", "unchanged(self)",
    "midx(result) == midx(self) + num_months",
    "result._day_of_month == runmin(midx(self), self._day_of_month,"
    " abs(num_months), 1 if num_months > 0 else -1)",
    "valid_date(result)", "same_time_and_zone(result, self)"] + SAME_SHAPE
AM_ENS_OTHER = [
    "fresh(result)", "unchanged(self)", "valid_date(result)",
    "same_time_and_zone(result, self)"] + SAME_SHAPE
# ordinal / week forms: the date is the calendar date of self moved like a calendar-form
# point, re-expressed.  (gy, gm, gd) is universally quantified: for THE calendar triple of
# self's day the result's day is (month index + n, running-minimum day).
_GIDX = "(12 * gy + gm - 1)"
AM_ENS_VIA_CAL = [
    "implies(valid_cal(gy, gm, gd) and cal_abs(gy, gm, gd) == date_abs(self),"
    " date_abs(result) == cal_abs((%s + num_months) // 12, (%s + num_months) %% 12 + 1,"
    " runmin(%s, gd, abs(num_months), 1 if num_months > 0 else -1)))" % (_GIDX, _GIDX, _GIDX)]


def am_cases():
    out = []
    for t in TIMES:
        for sg in ("pos", "neg"):
            req = ["num_months > 0"] if sg == "pos" else ["num_months < 0"]
            out.append(Case("cal-%s-%s" % (t, sg), tp_case(
                "cal", t, lambda E, st: {"num_months": E.sym_int("num_months")}),
                requires=req, ensures=AM_ENS_CAL))
            for d in ("ord", "week"):
                out.append(Case("%s-%s-%s" % (d, t, sg), tp_case(
                    d, t, lambda E, st: {"num_months": E.sym_int("num_months")}),
                    requires=req, ensures=AM_ENS_OTHER + AM_ENS_VIA_CAL))
    out.append(Case("zero", tp_case("cal", "hms", lambda E, st: {"num_months": 0}),
                    ensures=["result is self", "unchanged(self)"], fresh_result=False))
    return out


contract(
    "data:TimePoint.add_months", opaque=["dby"],
    applicable=lambda E, st, env: is_full_tp(E, st, env["self"]) and
    not (isinstance(env["num_months"], int) and env["num_months"] == 0),
    inline_fallback=True,
    requires=["valid_date(self)", "time_normal(self)", "tz_ok(self._time_zone)"],
    result=am_result, fresh_result=True,
    ensures=["(%s) if is_cal(self) else True" % e for e in AM_ENS_CAL] + AM_ENS_OTHER + [
        "(%s) if not is_cal(self) else True" % e for e in AM_ENS_VIA_CAL],
    loops={0: am_loop(1)},      # replaced per case below (direction)
    cases=am_cases(),
    ghosts={"gy": "int", "gm": "int", "gd": "int"},
    cuts=[("new = new.to_calendar_date()", [
        "use_lemma('cal.key.order', y1=gy, m1=gm, d1=gd, y2=new._year,"
        " m2=new._month_of_year, d2=new._day_of_month)"]),
          ("new._tick_over()", [
        # the week date that to_week_date() is about to produce spells the same day
        "use_lemma('week_of.valid', y=new._year, n=ord_of(new._year, new._month_of_year,"
        " new._day_of_month)) if is_week(self) else True"])],
    note="calendar form: month index exactly n away, day = running minimum of the "
         "visited month lengths (n clamped single steps); ordinal and week forms: the "
         "result is that calendar-form result of self's own calendar date, re-expressed "
         "(day number equality, for the universally quantified calendar triple of self)")


# ---------------------------------------------------------------- Unix epoch (C18)
_EPOCH = "(86400 * absday(1970, 1))"
_ENV_REQ = ["timezone.time.timezone % 60 == 0 and timezone.time.altzone % 60 == 0",
            "-86400 <= timezone.time.timezone and timezone.time.timezone <= 86400",
            "-86400 <= timezone.time.altzone and timezone.time.altzone <= 86400"]
_LOCAL = ("(-timezone.time.altzone if (timezone.time.localtime().tm_isdst == 1"
          " and timezone.time.daylight) else -timezone.time.timezone)")
contract(
    "data:get_timepoint_from_seconds_since_unix_epoch", use_at_calls=False, opaque=["dby"],
    ensures=["fresh(result)", "is_cal(result)", "valid_date(result)", "time_normal(result)",
             "instant(result) == %s + num_seconds" % _EPOCH],
    cases=[
        Case("utc-int", lambda E, st: {"num_seconds": E.sym_int("num_seconds"), "utc": True},
             ensures=["fresh(result)", "is_cal(result)", "valid_date(result)",
                      "time_normal(result)",
                      "instant(result) == %s + num_seconds" % _EPOCH,
                      "result._time_zone._hours == 0 and result._time_zone._minutes == 0"]),
        Case("utc-real", lambda E, st: {"num_seconds": E.sym_real("num_seconds"), "utc": True},
             ensures=["valid_date(result)", "time_normal(result)",
                      "instant(result) == %s + num_seconds" % _EPOCH,
                      "result._time_zone._hours == 0 and result._time_zone._minutes == 0"]),
        Case("local-real", lambda E, st: {"num_seconds": E.sym_real("num_seconds"),
                                          "utc": False},
             requires=_ENV_REQ,
             ensures=["valid_date(result)", "time_normal(result)",
                      "instant(result) == %s + num_seconds" % _EPOCH,
                      "3600 * result._time_zone._hours + 60 * result._time_zone._minutes"
                      " == " + _LOCAL, "tz_ok(result._time_zone)"]),
    ])

contract(
    "data:TimePoint.seconds_since_unix_epoch", use_at_calls=False, opaque=["dby"],
    requires=["normal24(self)", "whole_seconds(self)"],
    returns="intstr(instant(self) - %s)" % _EPOCH,
    cases=tz_cases(False),
    note="whole-second points: the text of the exact integer distance from the epoch")


# ---------------------------------------------------------------- add_truncated (C20)
_NORMW = ["valid_date(new)", "time_normal(new)", "whole_seconds(new)",
          "same_zone(new, self)"]
_L = "local_instant(new)"
_L0 = "entry(local_instant(new))"


_IL = "(86400 * date_abs(new) + isod(new))"
_IL0 = "entry(86400 * date_abs(new) + isod(new))"


def _tloop(field, unit, mod, target, keep):
    f = "int(new.%s)" % field
    f0 = "int(entry(new.%s))" % field
    return LoopSpec(
        invariant=_NORMW + ["hms_from_sod(new)"] +
        ["new.%s == entry(new.%s)" % (k, k) for k in keep] + [
            "%s == %s + %d * ((%s - %s) %% %d)" % (_IL, _IL0, unit, f, f0, mod),
            "(%s - %s) %% %d <= (%s - %s) %% %d" % (f, f0, mod, target, f0, mod)],
        decreases="(%s - %s) %% %d" % (target, f, mod))


_G_CAL = ("valid_cal(gy, gm, gd) and entry(date_abs(new)) <= cal_abs(gy, gm, gd)"
          " and cal_abs(gy, gm, gd) < date_abs(new)")
_G_ORD = ("valid_ord(gy, gn) and entry(date_abs(new)) <= absday(gy, gn)"
          " and absday(gy, gn) < date_abs(new)")
_DAYKEEP = ["valid_date(new)", "time_normal(new)", "same_zone(new, self)",
            "sod(new) == entry(sod(new))", "date_abs(new) >= entry(date_abs(new))"]
AT_LOOPS = {
    0: _tloop("_second_of_minute", 1, 60, "second_of_minute", []),
    1: _tloop("_minute_of_hour", 60, 60, "minute_of_hour", ["_second_of_minute"]),
    2: _tloop("_hour_of_day", 3600, 24, "hour_of_day",
              ["_second_of_minute", "_minute_of_hour"]),
    3: LoopSpec(invariant=_DAYKEEP + [
        "date_abs(new) == entry(date_abs(new))"
        " + (new._day_of_week - entry(new._day_of_week)) % 7",
        "(new._day_of_week - entry(new._day_of_week)) % 7"
        " <= (day_of_week - entry(new._day_of_week)) % 7"],
        decreases="(day_of_week - new._day_of_week) % 7"),
    4: LoopSpec(invariant=_DAYKEEP + [
        "use_lemma('cal.key.order', y1=gy, m1=gm, d1=gd, y2=new._year,"
        " m2=new._month_of_year, d2=new._day_of_month)",
        "implies(%s, gd != day_of_month)" % _G_CAL],
        decreases="(day_of_month - new._day_of_month) if new._day_of_month <= day_of_month"
                  " else (dim(new._year, new._month_of_year) - new._day_of_month"
                  " + day_of_month)"),
    5: LoopSpec(invariant=_DAYKEEP + [
        "use_lemma('ord.key.order', y1=gy, n1=gn, y2=new._year, n2=new._day_of_year)",
        "implies(%s, gn != day_of_year)" % _G_ORD],
        decreases="(day_of_year - new._day_of_year) if new._day_of_year <= day_of_year"
                  " else (diy(new._year) - new._day_of_year + day_of_year)"),
    6: LoopSpec(invariant=_DAYKEEP + [
        "new._day_of_week == entry(new._day_of_week)",
        "(date_abs(new) - entry(date_abs(new))) % 7 == 0",
        "implies(entry(date_abs(new)) <= week_abs(gy, gw, new._day_of_week)"
        " and week_abs(gy, gw, new._day_of_week) < date_abs(new)"
        " and 1 <= gw and gw <= wiy(gy), gw != week_of_year)"],
        decreases="(week_of_year - new._week_of_year)"
                  " if new._week_of_year <= week_of_year"
                  " else (wiy(new._year) - new._week_of_year + week_of_year)"),
}

_AT_COMMON = ["fresh(result)", "unchanged(self)", "valid_date(result)",
              "time_normal(result)", "same_zone(result, self)",
              "local_instant(result) >= local_instant(self)"]
_TIME_POST = _AT_COMMON + [
    "local_instant(result) - local_instant(self) < BOUND",
    "whole_seconds(result)",
    "result._second_of_minute is not None and result._minute_of_hour is not None"]


def at_case(name, date, time, params, requires, ensures):
    bound = "86400" if "hour_of_day" in params else (
        "3600" if "minute_of_hour" in params else "60")
    ensures = [e.replace("BOUND", bound) for e in ensures]

    def build(E, st):
        d = {"self": mk_timepoint(E, st, "self", date, time, whole=True)}
        for p in params:
            d[p] = E.sym_int(p)
        return d
    return Case(name, build, requires=["time_normal(self)"] + list(requires), ensures=ensures)


def at_cases_24():
    """p in the 24:00 end-of-day form (normalised to next-day 00:00 before stepping since
    /repo 7cabc45): the same clauses, for the families of the other cases."""
    out = []
    R_M = "0 <= minute_of_hour and minute_of_hour < 60"
    R_H = "0 <= hour_of_day and hour_of_day < 24"
    H24 = "self._hour_of_day == 24"
    fams = [
        ("hh", ["hour_of_day"], [R_H], _TIME_POST + [
            "result._hour_of_day == hour_of_day and result._minute_of_hour == 0"
            " and result._second_of_minute == 0"]),
        ("mm", ["minute_of_hour"], [R_M], _TIME_POST + [
            "result._minute_of_hour == minute_of_hour and result._second_of_minute == 0"]),
        ("dow", ["day_of_week"], ["1 <= day_of_week and day_of_week <= 7"], _AT_COMMON + [
            "is_week(result) and result._day_of_week == day_of_week",
            "sod(result) == 0", "date_abs(result) - date_abs(self) <= 7"]),
        ("dom", ["day_of_month"],
         ["1 <= day_of_month and day_of_month <= MAXDIM - 3 + (MAXDIM == 30) * 3"],
         _AT_COMMON + [
            "is_cal(result) and result._day_of_month == day_of_month", "sod(result) == 0",
            # no day from the one 24:00 denotes (the next one) up to the result has it
            "implies(valid_cal(gy, gm, gd) and date_abs(self) + 1 <= cal_abs(gy, gm, gd)"
            " and cal_abs(gy, gm, gd) < date_abs(result), gd != day_of_month)"]),
    ]
    for d in DATES:
        for (nm, params, req, ens) in fams:
            c = at_case("%s-hms-24:%s" % (d, nm), d, "hms", params, req, ens)
            c.requires = [H24] + [r for r in c.requires if r != "time_normal(self)"]
            out.append(c)
    return out


def at_cases():
    out = []
    R_S = "0 <= second_of_minute and second_of_minute < 60"
    R_M = "0 <= minute_of_hour and minute_of_hour < 60"
    R_H = "0 <= hour_of_day and hour_of_day < 24"
    for d in DATES:
        for t in TIMES:
            sh = "%s-%s" % (d, t)
            out.append(at_case(sh + ":ss", d, t, ["second_of_minute"], [R_S], _TIME_POST + [
                "result._second_of_minute == second_of_minute"]))
            out.append(at_case(sh + ":mm", d, t, ["minute_of_hour"], [R_M], _TIME_POST + [
                "result._minute_of_hour == minute_of_hour and result._second_of_minute == 0"]))
            out.append(at_case(sh + ":hh", d, t, ["hour_of_day"], [R_H], _TIME_POST + [
                "result._hour_of_day == hour_of_day and result._minute_of_hour == 0"
                " and result._second_of_minute == 0"]))
            out.append(at_case(sh + ":hhmmss", d, t,
                               ["hour_of_day", "minute_of_hour", "second_of_minute"],
                               [R_H, R_M, R_S], _TIME_POST + [
                "result._hour_of_day == hour_of_day and result._minute_of_hour == minute_of_hour"
                " and result._second_of_minute == second_of_minute"]))
        out.append(at_case("%s-hms:mmss" % d, d, "hms", ["minute_of_hour", "second_of_minute"],
                           [R_M, R_S], _TIME_POST + [
            "result._minute_of_hour == minute_of_hour"
            " and result._second_of_minute == second_of_minute"]))
        # day designators (time of day unchanged)
        out.append(at_case("%s-hms:dow" % d, d, "hms", ["day_of_week"],
                           ["1 <= day_of_week and day_of_week <= 7"], _AT_COMMON + [
            "is_week(result) and result._day_of_week == day_of_week",
            "sod(result) == sod(self)",
            "date_abs(result) - date_abs(self) < 7"]))
        out.append(at_case("%s-hms:dom" % d, d, "hms", ["day_of_month"],
                           ["1 <= day_of_month and day_of_month <= MAXDIM - 3 + (MAXDIM == 30) * 3"],
                           _AT_COMMON + [
            "is_cal(result) and result._day_of_month == day_of_month",
            "sod(result) == sod(self)",
            "implies(valid_cal(gy, gm, gd) and date_abs(self) <= cal_abs(gy, gm, gd)"
            " and cal_abs(gy, gm, gd) < date_abs(result), gd != day_of_month)"]))
        # a time of day AND a day of the month (combined designators, e.g. ---15T06): the hour
        # is matched first (< 1 day), then the day - the first day from there on with that
        # day-of-month; no date in between has it, so no earlier date-time >= p matches
        out.append(at_case("%s-hms:dom+hh" % d, d, "hms", ["hour_of_day", "day_of_month"],
                           [R_H, "1 <= day_of_month and day_of_month <= MAXDIM - 3 + (MAXDIM == 30) * 3"],
                           _AT_COMMON + [
            "is_cal(result) and result._day_of_month == day_of_month",
            "result._hour_of_day == hour_of_day and result._minute_of_hour == 0"
            " and result._second_of_minute == 0",
            # every date from the one the hour match falls on up to the result lacks the day
            "implies(valid_cal(gy, gm, gd) and cal_abs(gy, gm, gd) < date_abs(result) and"
            " 86400 * cal_abs(gy, gm, gd) + 3600 * hour_of_day >= 86400 * date_abs(self) + isod(self),"
            " gd != day_of_month)"]))
        # a time of day AND a weekday (e.g. -W-1T-30 is minute + weekday; here hour + weekday)
        out.append(at_case("%s-hms:dow+hh" % d, d, "hms", ["hour_of_day", "day_of_week"],
                           [R_H, "1 <= day_of_week and day_of_week <= 7"], _AT_COMMON + [
            "is_week(result) and result._day_of_week == day_of_week",
            "result._hour_of_day == hour_of_day and result._minute_of_hour == 0"
            " and result._second_of_minute == 0",
            "local_instant(result) - local_instant(self) < 8 * 86400",
            "implies(valid_cal(gy, gm, gd) and cal_abs(gy, gm, gd) < date_abs(result) and"
            " 86400 * cal_abs(gy, gm, gd) + 3600 * hour_of_day >= 86400 * date_abs(self) + isod(self),"
            " wd(cal_abs(gy, gm, gd)) != day_of_week)"]))
        # week plus weekday (weeks every year has: 1 .. SUM // 7)
        out.append(at_case("%s-hms:ww-dow" % d, d, "hms", ["week_of_year", "day_of_week"],
                           ["1 <= day_of_week and day_of_week <= 7",
                            "1 <= week_of_year and week_of_year <= SUM // 7"], _AT_COMMON + [
            "is_week(result) and result._day_of_week == day_of_week"
            " and result._week_of_year == week_of_year",
            "sod(result) == sod(self)",
            "implies(1 <= gw and gw <= wiy(gy) and date_abs(self) <= week_abs(gy, gw, day_of_week)"
            " and week_abs(gy, gw, day_of_week) < date_abs(result), gw != week_of_year)"]))
        c = at_case("%s-hms:ww-dow-late" % d, d, "hms", ["week_of_year", "day_of_week"],
                    ["1 <= day_of_week and day_of_week <= 7",
                     "SUM // 7 < week_of_year and week_of_year <= 53"], _AT_COMMON + [
            "is_week(result) and result._day_of_week == day_of_week"
            " and result._week_of_year == week_of_year",
            "sod(result) == sod(self)",
            "implies(1 <= gw and gw <= wiy(gy) and date_abs(self) <= week_abs(gy, gw, day_of_week)"
            " and week_abs(gy, gw, day_of_week) < date_abs(result), gw != week_of_year)"])
        c.partial = True
        out.append(c)
        # targets that not every month / year has (29-31, day 366): PARTIAL correctness
        # (valid result, fields as asked, earliest) - termination is the bounded stand-in's
        c = at_case("%s-hms:dom-late" % d, d, "hms", ["day_of_month"],
                    ["MAXDIM - 3 + (MAXDIM == 30) * 3 < day_of_month and day_of_month <= MAXDIM"],
                    _AT_COMMON + [
            "is_cal(result) and result._day_of_month == day_of_month",
            "sod(result) == sod(self)",
            "implies(valid_cal(gy, gm, gd) and date_abs(self) <= cal_abs(gy, gm, gd)"
            " and cal_abs(gy, gm, gd) < date_abs(result), gd != day_of_month)"])
        c.partial = True
        c.modes = ["gregorian", "365day", "366day"]
        out.append(c)
        c = at_case("%s-hms:doy-late" % d, d, "hms", ["day_of_year"],
                    ["SUM < day_of_year and day_of_year <= SUML"], _AT_COMMON + [
            "is_ord(result) and result._day_of_year == day_of_year",
            "sod(result) == sod(self)",
            "implies(valid_ord(gy, gn) and date_abs(self) <= absday(gy, gn)"
            " and absday(gy, gn) < date_abs(result), gn != day_of_year)"])
        c.partial = True
        c.modes = ["gregorian"]
        out.append(c)
        out.append(at_case("%s-hms:doy" % d, d, "hms", ["day_of_year"],
                           ["1 <= day_of_year and day_of_year <= SUM"], _AT_COMMON + [
            "is_ord(result) and result._day_of_year == day_of_year",
            "sod(result) == sod(self)",
            "implies(valid_ord(gy, gn) and date_abs(self) <= absday(gy, gn)"
            " and absday(gy, gn) < date_abs(result), gn != day_of_year)"]))
    return out


contract(
    "data:TimePoint.add_truncated", use_at_calls=False, opaque=["dby"],
    ghosts={"gy": "int", "gm": "int", "gd": "int", "gn": "int", "gw": "int"},
    requires=["valid_date(self)", "time_normal24(self)", "whole_seconds(self)",
              "tz_ok(self._time_zone)"],
    loops=AT_LOOPS, cases=at_cases() + at_cases_24(),
    cuts=[("if new._hour_of_day == CALENDAR.HOURS_IN_DAY:", [
        "(new._hour_of_day == 0 and new._minute_of_hour == 0 and new._second_of_minute == 0"
        " and date_abs(new) == date_abs(self) + 1 and valid_date(new))"
        " if self._hour_of_day == 24 and self._second_of_minute is not None else True"])],
    note="earliest date-time >= p whose specified fields equal the targets; termination "
         "proved for targets that exist in every month/year")


# ---------------------------------------------------------------- truncated + full (C20)
from .shapes import mk_truncated  # noqa
_TZD = "(tz_seconds(self._time_zone) - tz_seconds(other._time_zone))"
_TOD_T = "((isod(result) + %s) %% 86400)" % _TZD      # result's second of day in t's zone


def trunc_add_cases():
    out = []
    specs = {
        "hh": (["_hour_of_day"], ["0 <= self._hour_of_day and self._hour_of_day < 24"],
               "%s == 3600 * self._hour_of_day" % _TOD_T),
        "mm": (["_minute_of_hour"], ["0 <= self._minute_of_hour and self._minute_of_hour < 60"],
               "%s %% 3600 == 60 * self._minute_of_hour" % _TOD_T),
        "ss": (["_second_of_minute"],
               ["0 <= self._second_of_minute and self._second_of_minute < 60"],
               "%s %% 60 == self._second_of_minute" % _TOD_T),
        "hhmm": (["_hour_of_day", "_minute_of_hour"],
                 ["0 <= self._hour_of_day and self._hour_of_day < 24",
                  "0 <= self._minute_of_hour and self._minute_of_hour < 60"],
                 "%s == 3600 * self._hour_of_day + 60 * self._minute_of_hour" % _TOD_T),
    }
    for nm, (fields, req, match) in specs.items():
        for zk in (False, True):
            for (d, t) in ((("cal", "hms"), ("ord", "hms"), ("week", "hms")) if zk else
                           (("cal", "hms"), ("ord", "hm"), ("week", "h"))):
                def build(E, st, fields=fields, zk=zk, d=d, t=t):
                    return {"self": mk_truncated(E, st, "self", fields, zk),
                            "other": mk_timepoint(E, st, "other", d, t, whole=True)}
                out.append(Case(
                    "trunc:%s:%s+%s-%s" % (nm, "zone" if zk else "nozone", d, t), build,
                    requires=req + ["valid_date(other)", "time_normal(other)",
                                    "tz_ok(other._time_zone)", "tz_ok(self._time_zone)"],
                    ensures=["fresh(result)", "unchanged(self)", "unchanged(other)",
                             "valid_date(result)", "time_normal(result)",
                             "whole_seconds(result)", "same_zone(result, other)",
                             "instant(result) >= instant(other)",
                             "instant(result) - instant(other) < %d" % (
                                 86400 if "_hour_of_day" in fields else
                                 3600 if "_minute_of_hour" in fields else 60),
                             match if zk else match.replace(_TZD, "0")]))
    return out


_ADD = REGISTRY_GET("data:TimePoint.__add__")
for _c in _ADD.cases:
    if _c.ensures == "GENERAL":
        _c.ensures = [e for e in _ADD.ensures if e != _ADD_WHOLE]
    elif isinstance(_c.ensures, str) and _c.ensures.startswith("MIXED:"):
        _c.ensures = [e for e in _ADD.ensures if e != _ADD_WHOLE] + MIXED_TIME + \
            MIXED_ENS[_c.ensures[6:]]
_ADD.cases += trunc_add_cases()


# add_truncated as a callee (used by TimePoint.__add__ for truncated operands)
def _at_shape(st, env):
    tfields = [k for k in ("hour_of_day", "minute_of_hour", "second_of_minute")
               if env.get(k) is not None]
    dfields = [k for k in ("day_of_week", "day_of_month", "day_of_year", "week_of_year",
                           "month_of_year", "year_of_decade", "year_of_century")
               if env.get(k) is not None]
    return tfields, dfields


def at_applicable(E, st, env):
    tf, df = _at_shape(st, env)
    return is_full_tp(E, st, env["self"]) and bool(tf) and not df


def at_result(E, st, env):
    from .shapes import TP_SLOTS
    src = st.obj(env["self"])
    E.fresh_n += 1
    n = E.fresh_n
    slots = dict(src.slots)
    for k in ("_year", "_month_of_year", "_day_of_year", "_day_of_month", "_day_of_week",
              "_week_of_year"):
        if slots.get(k) is not None:
            slots[k] = z3.Int("at!%d.%s" % (n, k))
    for k in ("_hour_of_day", "_minute_of_hour", "_second_of_minute"):
        slots[k] = z3.ToReal(z3.Int("at!%d.%s" % (n, k)))
    z = st.obj(src.slots["_time_zone"])
    slots["_time_zone"] = E.new_obj(st, "TimeZone", dict(z.slots), fresh=True)
    return E.new_obj(st, "TimePoint", slots, fresh=True)


_SE = ("(second_of_minute if second_of_minute is not None else 0)")
_ME = ("(minute_of_hour if minute_of_hour is not None else 0)")
_AT = REGISTRY_GET("data:TimePoint.add_truncated")
_AT.use_at_calls = True
_AT.applicable = at_applicable
_AT.inline_fallback = True
_AT.result = at_result
_AT.fresh_result = True
_AT.ensures = _AT_COMMON + [
    "whole_seconds(result)",
    "local_instant(result) - local_instant(self) < (86400 if hour_of_day is not None else (3600 if minute_of_hour is not None else 60))",
    "result._second_of_minute == " + _SE,
    "(result._minute_of_hour == %s) if (minute_of_hour is not None or hour_of_day is not None)"
    " else True" % _ME,
    "(result._hour_of_day == hour_of_day) if hour_of_day is not None else True",
    "hms_from_sod(result)"]
_AT.requires = _AT.requires + [
    "(0 <= second_of_minute and second_of_minute < 60) if second_of_minute is not None else True",
    "(0 <= minute_of_hour and minute_of_hour < 60) if minute_of_hour is not None else True",
    "(0 <= hour_of_day and hour_of_day < 24) if hour_of_day is not None else True"]
for _c in _AT.cases:
    if _c.name.split(":")[1] in ("ss", "mm", "hh", "hhmmss", "mmss"):
        _c.ensures = list(_c.ensures) + ["hms_from_sod(result)"]
