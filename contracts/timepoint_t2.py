"""T2 — TimePoint value object (C01, C02, C04, C05, C06, C09, C20)."""
import z3
from . import contract, Case, LoopSpec
from .shapes import (mk_timepoint, mk_duration, mk_timezone, DATES, TIMES,
                     fresh_timepoint_like, fresh_duration, date_kind, time_kind)
from pyvc.values import Ref, OutOfReach

NUM_SLOTS = ["_year", "_month_of_year", "_day_of_year", "_day_of_month",
             "_day_of_week", "_week_of_year", "_hour_of_day", "_minute_of_hour",
             "_second_of_minute"]

for q in ("TimePoint._copy", "TimePoint.get_is_calendar_date",
          "TimePoint.get_is_ordinal_date", "TimePoint.get_is_week_date",
          "TimePoint.get_calendar_date", "TimePoint.get_ordinal_date",
          "TimePoint.get_week_date", "TimePoint.get_hour_minute_second",
          "TimePoint.get_second_of_day", "TimePoint.get_time_zone_utc",
          "TimePoint.get_time_zone_offset", "TimePoint.get_props",
          "TimePoint.to_utc", "TimePoint.to_local_time_zone",
          "TimePoint.__eq__", "TimePoint.__lt__", "TimePoint.__le__",
          "TimePoint.__gt__", "TimePoint.__ge__"):
    contract("data:" + q, inline=True)


def havoc_self_numeric(E, st, env):
    h = st.obj(env["self"])
    E.fresh_n += 1
    for k in NUM_SLOTS:
        if h.slots.get(k) is not None:
            h.slots[k] = E.fresh_like(h.slots[k], "tick!%d.%s" % (E.fresh_n, k))


def tp_case(date, time, extra=None):
    def build(E, st):
        d = {"self": mk_timepoint(E, st, "self", date, time)}
        if extra:
            d.update(extra(E, st))
        return d
    return build


# ---------------------------------------------------------------- _tick_over_day_of_month
_UNCH = ["self._year == old(self._year)",
         "self._month_of_year == old(self._month_of_year)",
         "self._day_of_month == old(self._day_of_month)"]
_T = ("old(dby(self._year) + cum(self._year, self._month_of_year)"
      " + self._day_of_month)")
contract(
    "data:TimePoint._tick_over_day_of_month", opaque=["dby"],
    requires=["1 <= self._month_of_year and self._month_of_year <= 12"],
    modifies_self=True, mod_slots=["_year", "_month_of_year", "_day_of_month"],
    havoc=lambda E, st, env: [st.obj(env["self"]).slots.__setitem__(
        k, E.fresh_like(st.obj(env["self"]).slots[k], "tdm.%s" % k))
        for k in ("_year", "_month_of_year", "_day_of_month")] and None,
    ensures=[
        "valid_cal(self._year, self._month_of_year, self._day_of_month)",
        "cal_abs(self._year, self._month_of_year, self._day_of_month) == " + _T],
    loops={
        0: LoopSpec(invariant=_UNCH + [
            "num_days == 2 - i", "self._day_of_month < num_days"]),
        1: LoopSpec(peel=True, invariant=_UNCH + [
            "start_year < old(self._year)",
            "self._day_of_month <= num_days",
            "(num_days == 1 - old(cum(self._year, self._month_of_year))"
            "             - (old(dby(self._year)) - dby(start_year)))"
            " if num_days != self._day_of_month else"
            " (valid_cal(start_year, month, day)"
            "  and cal_abs(start_year, month, day) == " + _T + ")"],
            decreases="num_days - self._day_of_month"),
        2: LoopSpec(invariant=_UNCH + [
            "num_days == entry(num_days) - i", "self._day_of_month < num_days"]),
        3: LoopSpec(invariant=_UNCH + [
            "num_days == i", "num_days < self._day_of_month"]),
        4: LoopSpec(invariant=_UNCH + [
            "num_days == dby(start_year + 1) - old(dby(self._year))"
            "            - old(cum(self._year, self._month_of_year))",
            "num_days < self._day_of_month", "start_year >= old(self._year)"],
            decreases="self._day_of_month - num_days"),
        5: LoopSpec(invariant=_UNCH + [
            "num_days == entry(num_days) + i", "num_days < self._day_of_month"]),
    },
    cases=[Case("cal", tp_case("cal", "hms"))])

# ---------------------------------------------------------------- _tick_over
_ABS = "date_abs(self) == entry(date_abs(self))"
contract(
    "data:TimePoint._tick_over", opaque=["dby"],
    requires=["check_changes is False",
              "self._month_of_year is None or"
              " (1 <= self._month_of_year and self._month_of_year <= 12)"],
    modifies_self=True, mod_slots=NUM_SLOTS, havoc=havoc_self_numeric,
    ensures=[
        "valid_date(self)",
        "time_normal(self)",
        "local_instant(self) == old(local_instant(self))",
        "result is None"],
    loops={
        0: LoopSpec(invariant=[_ABS], decreases="1 - self._day_of_year"),
        1: LoopSpec(invariant=[_ABS, "self._day_of_year >= 1"],
                    decreases="self._day_of_year"),
        2: LoopSpec(invariant=[_ABS], decreases="1 - self._week_of_year"),
        3: LoopSpec(invariant=[_ABS, "self._week_of_year >= 1"],
                    decreases="self._week_of_year"),
        4: LoopSpec(invariant=["1 <= self._month_of_year",
                               "self._month_of_year <= 12",
                               "self._year == entry(self._year)",
                               "self._month_of_year == entry(self._month_of_year)"],
                    decreases="1 - self._month_of_year"),
        5: LoopSpec(invariant=["1 <= self._month_of_year",
                               "self._month_of_year <= 12",
                               "self._year == entry(self._year)",
                               "self._month_of_year == entry(self._month_of_year)"],
                    decreases="self._month_of_year"),
    },
    cases=[Case("%s-%s" % (d, t), tp_case(d, t)) for d in DATES for t in TIMES])


# ---------------------------------------------------------------- __add__ (Duration)
def is_duration(E, st, v):
    return isinstance(v, Ref) and st.obj(v).kind == "obj" and \
        st.obj(v).cls.is_subclass_of("Duration")


def is_full_tp(E, st, v):
    return isinstance(v, Ref) and st.obj(v).kind == "obj" and \
        st.obj(v).cls.name == "TimePoint" and st.obj(v).slots.get("_truncated") is False


def add_result(E, st, env):
    return fresh_timepoint_like(E, st, env["self"], "sum")


SAME_SHAPE = [
    "is_cal(result) == is_cal(self) and is_ord(result) == is_ord(self)"
    " and is_week(result) == is_week(self)",
    "(result._minute_of_hour is None) == (self._minute_of_hour is None)"
    " and (result._second_of_minute is None) == (self._second_of_minute is None)",
    "result._truncated is False",
    "result._num_expanded_year_digits == self._num_expanded_year_digits",
]
SAME_ZONE = [
    "result._time_zone._hours == self._time_zone._hours"
    " and result._time_zone._minutes == self._time_zone._minutes"
    " and result._time_zone._unknown == self._time_zone._unknown",
]


def add_cases():
    out = []
    for d in DATES:
        for t in TIMES:
            for f in ("exact", "week"):
                out.append(Case("%s-%s+%s" % (d, t, f), tp_case(
                    d, t, lambda E, st, f=f: {"other": mk_duration(E, st, "other", f)})))
    return out


contract(
    "data:TimePoint.__add__",
    applicable=lambda E, st, env: is_full_tp(E, st, env["self"]) and
    is_duration(E, st, env["other"]),
    inline_fallback=True,
    requires=["normal24(self)"],
    result=add_result, fresh_result=True,
    ensures=["fresh(result)"] + SAME_SHAPE + SAME_ZONE + [
        "valid_date(result)",
        "implies(d_exact(other), time_normal(result))",
        "implies(d_exact(other), instant(result) == instant(self) + dlen(other))"],
    cases=add_cases(), merge=False, opaque=["dby"],
    note="exact durations (C01); nominal parts: C05 cases")


# ---------------------------------------------------------------- __sub__ (Duration)
def sub_cases():
    out = []
    for d in DATES:
        for t in TIMES:
            for f in ("exact", "week"):
                out.append(Case("%s-%s-%s" % (d, t, f), tp_case(
                    d, t, lambda E, st, f=f: {"other": mk_duration(E, st, "other", f)})))
    return out


contract(
    "data:TimePoint.__sub__",
    applicable=lambda E, st, env: is_full_tp(E, st, env["self"]) and
    is_duration(E, st, env["other"]),
    inline_fallback=True,
    requires=["normal24(self)"],
    result=add_result, fresh_result=True,
    ensures=["fresh(result)"] + SAME_SHAPE + SAME_ZONE + [
        "valid_date(result)",
        "implies(d_exact(other), time_normal(result))",
        "implies(d_exact(other), instant(result) == instant(self) - dlen(other))"],
    cases=sub_cases(),
    note="TimePoint - Duration == TimePoint + (-1 * Duration) by construction")
