"""timezone.py: the local UTC offset (C18) over a symbolic system configuration."""
import z3
from . import contract, Case, res_ints, ENGINE_HOOKS

OFF = ("(-time.altzone if (time.localtime().tm_isdst == 1 and time.daylight)"
       " else -time.timezone)")


def _hook(E):
    E.sym_modattrs[("time", "timezone")] = z3.Int("p:time.timezone")
    E.sym_modattrs[("time", "altzone")] = z3.Int("p:time.altzone")
    E.sym_modattrs[("time", "daylight")] = z3.Int("p:time.daylight")
    E.sym_modattrs[("time", "localtime().tm_isdst")] = z3.Int("p:time.tm_isdst")


ENGINE_HOOKS.append(_hook)

contract(
    "timezone:get_local_time_zone",
    result=res_ints(2, "ltz"),
    ensures=[
        "implies(%s %% 60 == 0, 3600 * result[0] + 60 * result[1] == %s)" % (OFF, OFF),
        "-60 < result[1] and result[1] < 60",
        "result[0] * %s >= 0 and result[1] * %s >= 0" % (OFF, OFF),
        "implies(%s == 0, result[0] == 0 and result[1] == 0)" % OFF,
        "implies(-86400 <= %s and %s <= 86400, -24 <= result[0] and result[0] <= 24)"
        % (OFF, OFF)],
    cases=[Case("symbolic-system-zone", lambda E, st: {})],
    note="time.timezone/altzone/daylight/localtime().tm_isdst are symbolic inputs")
