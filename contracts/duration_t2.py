"""T2 — Duration / TimeZone value objects (C11, and used by C01/C04/C06)."""
import z3
from . import contract, Case, LoopSpec, res_int
from .shapes import mk_duration, mk_timezone, fresh_duration
from pyvc.values import Ref, OutOfReach

# tiny accessors and pure dispatchers: transparent (inlined at call sites)
for q in ("Duration._copy", "Duration.is_exact", "Duration.get_is_in_weeks",
          "Duration._get_non_nominal_seconds", "Duration.get_seconds",
          "Duration.to_days", "Duration.__rmul__", "Duration.__sub__",
          "Duration.__init__", "Duration.__bool__"):
    contract("data:" + q, inline=True)
for q in ("_type_checker", "_int_caster"):
    contract("data:" + q, inline=True)


def is_dur(E, st, v):
    return isinstance(v, Ref) and st.obj(v).kind == "obj" and \
        st.obj(v).cls.is_subclass_of("Duration")


def form(st, v):
    return "week" if st.obj(v).slots.get("_weeks") is not None else "unit"


def both(*forms):
    def build(E, st):
        return {"self": mk_duration(E, st, "self", forms[0]),
                "other": mk_duration(E, st, "other", forms[1])}
    return build


def one(f):
    def build(E, st):
        return {"self": mk_duration(E, st, "self", f)}
    return build


PAIRS = [Case("%s-%s" % (a, b), both(a, b))
         for a in ("unit", "week") for b in ("unit", "week")]
SINGLES = [Case(f, one(f)) for f in ("unit", "week")]


# ---------------------------------------------------------------- __add__
def add_result(E, st, env):
    a, b = env["self"], env["other"]
    f = "week" if form(st, a) == "week" and form(st, b) == "week" else "unit"
    return fresh_duration(E, st, f, "add")


ADD_ENS = [
    "fresh(result)",
    "in_weeks(result) == (in_weeks(self) and in_weeks(other))",
    "d_years(result) == d_years(self) + d_years(other)",
    "d_months(result) == d_months(self) + d_months(other)",
    "d_days(result) == d_days(self) + d_days(other)",
    "d_hours(result) == d_hours(self) + d_hours(other)",
    "d_minutes(result) == d_minutes(self) + d_minutes(other)",
    "d_seconds(result) == d_seconds(self) + d_seconds(other)",
]
contract("data:Duration.__add__",
         applicable=lambda E, st, env: is_dur(E, st, env["other"]),
         inline_fallback=True,
         result=add_result, ensures=ADD_ENS, fresh_result=True, cases=PAIRS,
         note="Duration + Duration; other operand kinds are delegated (inlined)")


# ---------------------------------------------------------------- __mul__
def mul_result(E, st, env):
    return fresh_duration(E, st, form(st, env["self"]), "mul")


MUL_ENS = [
    "fresh(result)",
    "in_weeks(result) == in_weeks(self)",
    "d_years(result) == d_years(self) * other",
    "d_months(result) == d_months(self) * other",
    "d_days(result) == d_days(self) * other",
    "d_hours(result) == d_hours(self) * other",
    "d_minutes(result) == d_minutes(self) * other",
    "d_seconds(result) == d_seconds(self) * other",
]


def mul_cases():
    out = []
    for f in ("unit", "week"):
        out.append(Case(f + "-symbolic-int", lambda E, st, f=f: {
            "self": mk_duration(E, st, "self", f), "other": E.sym_int("other")}))
        out.append(Case(f + "-minus-one", lambda E, st, f=f: {
            "self": mk_duration(E, st, "self", f), "other": -1}))
    return out


contract("data:Duration.__mul__",
         applicable=lambda E, st, env: not isinstance(env["other"], Ref) and
         (isinstance(env["other"], int) or z3.is_int(env["other"])),
         inline_fallback=True,
         result=mul_result, ensures=MUL_ENS, fresh_result=True, cases=mul_cases())

contract("data:Duration.__abs__",
         result=mul_result,
         ensures=[
             "fresh(result)", "in_weeks(result) == in_weeks(self)",
             "d_years(result) == abs(d_years(self))",
             "d_months(result) == abs(d_months(self))",
             "d_days(result) == abs(d_days(self))",
             "d_hours(result) == abs(d_hours(self))",
             "d_minutes(result) == abs(d_minutes(self))",
             "d_seconds(result) == abs(d_seconds(self))"],
         fresh_result=True, cases=SINGLES)

# ---------------------------------------------------------------- queries
contract("data:Duration.get_days_and_seconds",
         returns="rough_days_seconds(self)", cases=SINGLES)

contract("data:Duration.to_weeks",
         applicable=lambda E, st, env: form(st, env["self"]) == "week",
         inline_fallback=True,
         returns="self", cases=[Case("week", one("week"))],
         note="unit form: constructs Duration(weeks=days // 7) (inlined)")

# ---------------------------------------------------------------- equality / order / hash
contract("data:Duration.__eq__",
         applicable=lambda E, st, env: is_dur(E, st, env["other"]),
         inline_fallback=True,
         returns="((dlen(self) == dlen(other)) if d_exact(other) else False)"
                 " if d_exact(self) else"
                 " (d_years(self) == d_years(other) and d_months(self) == d_months(other)"
                 "  and dlen(self) == dlen(other) and not in_weeks(other))"
                 " if not in_weeks(other) else False",
         cases=PAIRS)

for op, sym in (("__lt__", "<"), ("__le__", "<="), ("__gt__", ">"), ("__ge__", ">=")):
    contract("data:Duration." + op,
             applicable=lambda E, st, env: is_dur(E, st, env["other"]),
             inline_fallback=True,
             returns="rough_days_seconds(self) %s rough_days_seconds(other)" % sym,
             cases=PAIRS)

contract("data:Duration.__hash__",
         returns="hashkey(d_years(self), d_months(self), dlen(self))",
         cases=SINGLES)

contract("data:TimeZone.__hash__", inline=True)


# Duration + TimePoint delegates to TimePoint.__add__ with a copy of self
def _dur_plus_tp_cases():
    from .shapes import mk_timepoint, DATES, TIMES
    out = []
    for d in DATES:
        for f in ("exact", "week"):
            out.append(Case("%s+tp-%s-hms" % (f, d), lambda E, st, d=d, f=f: {
                "self": mk_duration(E, st, "self", f),
                "other": mk_timepoint(E, st, "other", d, "hms")},
                requires=["normal24(other)"],
                ensures=["fresh(result)", "valid_date(result)",
                         "time_normal(result)",
                         "instant(result) == instant(other) + dlen(self)",
                         "unchanged(self)", "unchanged(other)"]))
    return out


from . import REGISTRY  # noqa
REGISTRY["data:Duration.__add__"].cases = list(REGISTRY["data:Duration.__add__"].cases) + _dur_plus_tp_cases()

# d + p with p = 24:00 and d empty: the region of KF-C01-1 reached through Duration.__add__
REGISTRY["data:Duration.__add__"].regions = [{
    "name": "zero-plus-24h", "owner": "C01",
    "when": "(other._hour_of_day == 24 and d_days(self) == 0 and d_hours(self) == 0"
            " and d_minutes(self) == 0 and d_seconds(self) == 0"
            " and d_years(self) == 0 and d_months(self) == 0)"
            " if classname(other) == 'TimePoint' else False",
    "cases": r".*\+tp-.*",
    "ensures": ["fresh(result)", "tp_same_fields(result, other)"]}]
