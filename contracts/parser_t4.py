"""T4 — field assembly of the parser (C07 P2): _create_timepoint_from_info and
process_time_zone_info on dictionaries whose values are symbolic digit fields."""
import z3
from . import contract, Case, ENGINE_HOOKS
from pyvc.strings import DigitField
from pyvc.values import Ref


def _hook(E):
    E.extra_builtins["fld"] = lambda E_, args, kws, st: z3.Int("p:" + args[0])
    E.extra_builtins["fldr"] = lambda E_, args, kws, st: z3.Real("p:" + args[0] + ".frac")


ENGINE_HOOKS.append(_hook)


def fld(E, st, name, width):
    v = z3.Int("p:" + name)
    st.assume(z3.And(v >= 0, v < 10 ** width))
    fr = None
    if name.endswith("_decimal"):
        fr = z3.Real("p:" + name + ".frac")      # value of "0.<digits>"
        st.assume(z3.And(fr >= 0, fr < 1, fr * 10 ** width == z3.ToReal(v)))
    return DigitField(width, v, fr)


def mk_dict(E, st, d):
    r = st.alloc("dict")
    st.obj(r).d = dict(d)
    st.obj(r).fresh = False
    return r


def mk_parser(E, st, x=2, assumed=None, unknown=False):
    ci = E.db.class_by_name["TimePointParser"]
    r = st.alloc("obj", ci, fresh=False)
    st.obj(r).slots.update({
        "num_expanded_year_digits": x, "allow_truncated": False, "allow_only_basic": False,
        "assumed_time_zone": assumed, "default_to_unknown_time_zone": unknown,
        "dump_format": None})
    return r


DATE_KINDS = {
    "cal": [("century", 2), ("year_of_century", 2), ("month_of_year", 2), ("day_of_month", 2)],
    "ord": [("century", 2), ("year_of_century", 2), ("day_of_year", 3)],
    "week": [("century", 2), ("year_of_century", 2), ("week_of_year", 2), ("day_of_week", 1)],
}
YEAR4 = "(100 * fld('century') + fld('year_of_century'))"
DATE_OK = {
    "cal": "valid_cal(YEAR, fld('month_of_year'), fld('day_of_month'))",
    "ord": "valid_ord(YEAR, fld('day_of_year'))",
    "week": "valid_week(YEAR, fld('week_of_year'), fld('day_of_week'))"}
DATE_ENS = {
    "cal": "result._year == YEAR and result._month_of_year == fld('month_of_year')"
           " and result._day_of_month == fld('day_of_month') and result._day_of_year is None"
           " and result._week_of_year is None",
    "ord": "result._year == YEAR and result._day_of_year == fld('day_of_year')"
           " and result._month_of_year is None and result._week_of_year is None",
    "week": "result._year == YEAR and result._week_of_year == fld('week_of_year')"
            " and result._day_of_week == fld('day_of_week') and result._month_of_year is None"
            " and result._day_of_year is None"}
TIME_KINDS = {
    "none": ([], "True", "result._hour_of_day == 0 and result._minute_of_hour == 0"
                         " and result._second_of_minute == 0"),
    "hms": ([("hour_of_day", 2), ("minute_of_hour", 2), ("second_of_minute", 2)],
            "time_fields_ok(fld('hour_of_day'), fld('minute_of_hour'), fld('second_of_minute'))",
            "result._hour_of_day == fld('hour_of_day')"
            " and result._minute_of_hour == fld('minute_of_hour')"
            " and result._second_of_minute == fld('second_of_minute')"),
    "hm": ([("hour_of_day", 2), ("minute_of_hour", 2)],
           "time_fields_ok(fld('hour_of_day'), fld('minute_of_hour'), None)",
           "result._hour_of_day == fld('hour_of_day')"
           " and result._minute_of_hour == fld('minute_of_hour')"
           " and result._second_of_minute == 0"),
    "h": ([("hour_of_day", 2)], "time_fields_ok(fld('hour_of_day'), None, None)",
          "result._hour_of_day == fld('hour_of_day') and result._minute_of_hour == 0"
          " and result._second_of_minute == 0"),
    "hms-dec": ([("hour_of_day", 2), ("minute_of_hour", 2), ("second_of_minute", 2),
                 ("second_of_minute_decimal", 3)],
                "time_fields_ok(fld('hour_of_day'), fld('minute_of_hour'),"
                " fld('second_of_minute') + fldr('second_of_minute_decimal'))"
                " and fld('second_of_minute') < 60",
                "result._hour_of_day == fld('hour_of_day')"
                " and result._minute_of_hour == fld('minute_of_hour')"
                " and result._second_of_minute == fld('second_of_minute')"
                " + fldr('second_of_minute_decimal')"),
    "h-dec": ([("hour_of_day", 2), ("hour_of_day_decimal", 2)],
              "fld('hour_of_day') + fldr('hour_of_day_decimal') <= 24",
              "result._hour_of_day == fld('hour_of_day') + fldr('hour_of_day_decimal')"
              " and result._minute_of_hour is None and result._second_of_minute is None"),
    "hm-dec": ([("hour_of_day", 2), ("minute_of_hour", 2), ("minute_of_hour_decimal", 3)],
               "time_fields_ok(fld('hour_of_day'), fld('minute_of_hour')"
               " + fldr('minute_of_hour_decimal'), None) and fld('minute_of_hour') < 60",
               "result._hour_of_day == fld('hour_of_day') and result._minute_of_hour"
               " == fld('minute_of_hour') + fldr('minute_of_hour_decimal')"
               " and result._second_of_minute is None"),
}


def ctp_case(dkind, sign, tkind, zone):
    """zone: 'ints' (already processed offset) | 'Z' | 'none'"""
    def build(E, st):
        di = {}
        if sign:
            di["year_sign"] = sign
            di["expanded_year"] = fld(E, st, "expanded_year", 2)
        for (nm, w) in DATE_KINDS[dkind]:
            di[nm] = fld(E, st, nm, w)
        ti = {}
        for (nm, w) in TIME_KINDS[tkind][0]:
            ti[nm] = fld(E, st, nm, w)
        if zone == "ints":
            ti["time_zone_hour"] = z3.Int("p:tzh")
            ti["time_zone_minute"] = z3.Int("p:tzm")
        elif zone == "Z":
            ti["time_zone_utc"] = "Z"
        return {"self": mk_parser(E, st), "date_info": mk_dict(E, st, di),
                "time_info": mk_dict(E, st, ti)}
    year = YEAR4 if not sign else "(%s(10000 * fld('expanded_year') + %s))" % (
        "-" if sign == "-" else "", YEAR4)
    dok = DATE_OK[dkind].replace("YEAR", year)
    tok = TIME_KINDS[tkind][1]
    zok = {"ints": "zone_fields_ok(fld('tzh'), fld('tzm'))", "Z": "True", "none": "True"}[zone]
    ens = [DATE_ENS[dkind].replace("YEAR", year), TIME_KINDS[tkind][2],
           {"ints": "result._time_zone._hours == fld('tzh')"
                    " and result._time_zone._minutes == fld('tzm')",
            "Z": "result._time_zone._hours == 0 and result._time_zone._minutes == 0",
            "none": "result._time_zone._hours == 0 and result._time_zone._minutes == 0"}[zone],
           "result._truncated is False and result._time_zone._unknown is False",
           "result._num_expanded_year_digits == %d" % (2 if sign else 0)]
    raises = [("BadInputError", "not (%s and %s and %s)" % (dok, tok, zok))]
    c = Case("%s%s/%s/%s" % (dkind, sign or "", tkind, zone), build, ensures=ens, raises=raises)
    return c


CTP_CASES = []
for dk in DATE_KINDS:
    for sg in (None, "+", "-"):
        for tk, zn in (("hms", "ints"), ("hm", "Z"), ("h", "none"), ("none", "none"),
                       ("hms-dec", "ints"), ("hm-dec", "Z"), ("h-dec", "none")):
            CTP_CASES.append(ctp_case(dk, sg, tk, zn))

contract("parsers:TimePointParser._create_timepoint_from_info", use_at_calls=False,
         opaque=["dby"], check_frames=False, cases=CTP_CASES,
         note="year = +-(10000*X + 100*CC + YY); every field stored as spelled; omitted "
              "lower-order fields default to the start of the period; Z is +00:00; "
              "raises BadInputError exactly for impossible fields")


# ---------------------------------------------------------------- process_time_zone_info
def ptz_case(name, parser_kw, info, ensures, requires=None):
    def build(E, st):
        d = {}
        for k, v in info.items():
            d[k] = fld(E, st, k, 2) if v == "2d" else v
        return {"self": mk_parser(E, st, **{k: (v(E) if callable(v) else v)
                                           for k, v in parser_kw.items()}),
                "time_zone_info": mk_dict(E, st, d)}
    return Case(name, build, ensures=ensures, requires=requires or [])


_TZ = lambda E: (z3.Int("p:ah"), z3.Int("p:am"))
contract(
    "parsers:TimePointParser.process_time_zone_info", use_at_calls=False, check_frames=False,
    cases=[
        ptz_case("assumed", {"assumed": _TZ}, {},
                 ["result['time_zone_hour'] == fld('ah') and result['time_zone_minute'] == fld('am')"]),
        ptz_case("unknown", {"unknown": True}, {}, ["len(result) == 0"]),
        ptz_case("utc", {}, {"time_zone_utc": "Z"}, ["result['time_zone_utc'] == 'Z'"]),
        ptz_case("plus-hh", {}, {"time_zone_sign": "+", "time_zone_hour": "2d"},
                 ["int(result['time_zone_hour']) == fld('time_zone_hour')",
                  "'time_zone_minute' not in result and 'time_zone_sign' not in result"]),
        ptz_case("minus-hh", {}, {"time_zone_sign": "-", "time_zone_hour": "2d"},
                 ["result['time_zone_hour'] == -fld('time_zone_hour')",
                  "'time_zone_minute' not in result"]),
        ptz_case("plus-hhmm", {}, {"time_zone_sign": "+", "time_zone_hour": "2d",
                                   "time_zone_minute": "2d"},
                 ["int(result['time_zone_hour']) == fld('time_zone_hour')"
                  " and int(result['time_zone_minute']) == fld('time_zone_minute')"]),
        ptz_case("minus-hhmm", {}, {"time_zone_sign": "-", "time_zone_hour": "2d",
                                    "time_zone_minute": "2d"},
                 ["result['time_zone_hour'] == -fld('time_zone_hour')"
                  " and result['time_zone_minute'] == -fld('time_zone_minute')"]),
    ],
    note="sign applied to hours AND minutes; missing zone resolved by configuration")
