"""T4 — TimePointParser.parse on symbolic TEXTS (C07): the REAL parse / get_info /
get_date_info / get_time_info / get_time_zone_info / process_time_zone_info /
_create_timepoint_from_info executed on every complete date-time form whose
digits are symbolic digit fields.  String splitting is decided on the piece
structure (pyvc/strings.Text); each `regex.match(text)` of the real tables is
decided by the lexing lemma of pyvc/textlex.py on the real compiled patterns.
The postconditions are those of the field-assembly contract (parser_t4), now
stated over the TEXT: which digits of the text end up in which field."""
import z3
from . import contract, Case
from .parser_t4 import (fld, mk_dict, DATE_KINDS, DATE_OK, DATE_ENS, TIME_KINDS, YEAR4)
from pyvc.strings import Text
from pyvc.values import RealObj, PyList

_real_cache = {}


def _to_engine(E, st, v):
    import re
    if isinstance(v, dict):
        return mk_dict(E, st, {k: _to_engine(E, st, x) for k, x in v.items()})
    if isinstance(v, (list, tuple)):
        items = [_to_engine(E, st, x) for x in v]
        return PyList(items) if isinstance(v, list) else tuple(items)
    if isinstance(v, re.Pattern):
        return RealObj(v)
    return v


def mk_text_parser(E, st, x=2, assumed=(5, 30), only_basic=False):
    """a TimePointParser whose regex tables are those the REAL constructor builds"""
    import sys
    if E.db.repo not in sys.path:
        sys.path.insert(0, E.db.repo)
    key = (x, only_basic)
    if key not in _real_cache:
        from metomi.isodatetime.parsers import TimePointParser
        _real_cache[key] = TimePointParser(num_expanded_year_digits=x,
                                           allow_only_basic=only_basic)
    real = _real_cache[key]
    ci = E.db.class_by_name["TimePointParser"]
    r = st.alloc("obj", ci, fresh=False)
    st.obj(r).slots.update({
        "num_expanded_year_digits": x, "allow_truncated": False,
        "allow_only_basic": only_basic, "assumed_time_zone": assumed,
        "default_to_unknown_time_zone": False, "dump_format": None,
        "_date_regex_map": _to_engine(E, st, real._date_regex_map),
        "_time_regex_map": _to_engine(E, st, real._time_regex_map),
        "_time_zone_regex_map": _to_engine(E, st, real._time_zone_regex_map)})
    return r


DATE_SEPS = {   # kind -> (basic pieces, extended pieces) as templates over field names
    "cal": (["century", "year_of_century", "month_of_year", "day_of_month"],
            ["century", "year_of_century", "-", "month_of_year", "-", "day_of_month"]),
    "ord": (["century", "year_of_century", "day_of_year"],
            ["century", "year_of_century", "-", "day_of_year"]),
    "week": (["century", "year_of_century", "W", "week_of_year", "day_of_week"],
             ["century", "year_of_century", "-W", "week_of_year", "-", "day_of_week"]),
}
TIME_TEMPL = {   # time kind -> (basic template, extended template); MARK = decimal mark
    "hms": (["hour_of_day", "minute_of_hour", "second_of_minute"],
            ["hour_of_day", ":", "minute_of_hour", ":", "second_of_minute"]),
    "hm": (["hour_of_day", "minute_of_hour"], ["hour_of_day", ":", "minute_of_hour"]),
    "h": (["hour_of_day"], ["hour_of_day"]),
    "hms-dec": (["hour_of_day", "minute_of_hour", "second_of_minute", "MARK",
                 "second_of_minute_decimal"],
                ["hour_of_day", ":", "minute_of_hour", ":", "second_of_minute", "MARK",
                 "second_of_minute_decimal"]),
    "hm-dec": (["hour_of_day", "minute_of_hour", "MARK", "minute_of_hour_decimal"],
               ["hour_of_day", ":", "minute_of_hour", "MARK", "minute_of_hour_decimal"]),
    "h-dec": (["hour_of_day", "MARK", "hour_of_day_decimal"],
              ["hour_of_day", "MARK", "hour_of_day_decimal"]),
}
WIDTHS = dict(sum([v for v in DATE_KINDS.values()], []) +
              sum([v[0] for v in TIME_KINDS.values()], []))
ZONES = ["none", "Z", "+hh", "-hh", "+hhmm", "-hhmm"]


def _pieces(E, st, templ, mark=None):
    out = []
    for t in templ:
        if t == "MARK":
            out.append(mark)
        elif t in WIDTHS:
            out.append(fld(E, st, t, WIDTHS[t]))
        else:
            out.append(t)
    return out


_LOCAL_OFF = ("(-timezone.time.altzone if (timezone.time.localtime().tm_isdst == 1"
              " and timezone.time.daylight) else -timezone.time.timezone)")


def text_case(dkind, style, sign, tkind, tstyle, mark, zone, cfg=None):
    """cfg: None (2 expanded digits, assumed zone +05:30) | 'x0' | 'only-basic' | 'unknown'"""
    pkw = {"x0": dict(x=0), "only-basic": dict(only_basic=True),
           "unknown": dict(assumed=None), "local": dict(assumed=None)}.get(cfg, {})

    def build(E, st):
        ps = []
        if sign:
            ps += [sign, fld(E, st, "expanded_year", 2)]
        ps += _pieces(E, st, DATE_SEPS[dkind][0 if style == "basic" else 1])
        if tkind != "none":
            ps.append("T")
            ps += _pieces(E, st, TIME_TEMPL[tkind][0 if tstyle == "basic" else 1], mark)
            if zone == "Z":
                ps.append("Z")
            elif zone != "none":
                ps.append(zone[0])
                ps.append(fld(E, st, "time_zone_hour", 2))
                if zone.endswith("mm"):
                    if tstyle == "extended":
                        ps.append(":")
                    ps.append(fld(E, st, "time_zone_minute", 2))
        r = mk_text_parser(E, st, **pkw)
        if cfg == "unknown":
            st.obj(r).slots["default_to_unknown_time_zone"] = True
        return {"self": r, "timepoint_string": Text(ps).simplest()}
    year = YEAR4 if not sign else "(%s(10000 * fld('expanded_year') + %s))" % (
        "-" if sign == "-" else "", YEAR4)
    name = "%s:%s%s/%s%s%s/%s" % (style[0], dkind, sign or "", tkind,
                                  ":" + tstyle[0] if tkind != "none" else "",
                                  mark or "", zone)
    # hh and hh,ii / +hh are spelled alike in both notations; anything with a second
    # time field or zone minutes shows its notation
    mixed = style != tstyle and (tkind not in ("none", "h", "h-dec") or zone.endswith("mm"))
    if cfg:
        name = cfg + "|" + name
    if cfg == "only-basic" and (style == "extended" or (
            tstyle == "extended" and (tkind not in ("none", "h", "h-dec") or zone.endswith("mm")))):
        mixed = True        # a basic-only parser refuses whatever is spelled in extended notation
    if cfg == "x0" and sign:
        mixed = True        # no expanded digits agreed: a signed year is not a form of this parser
    if mixed:
        # basic date with extended time (or the reverse): refused as a whole
        return Case(name, build, ensures=["False"],
                    raises=[("ISO8601SyntaxError", "True")])
    dok = DATE_OK[dkind].replace("YEAR", year)
    tok = TIME_KINDS[tkind][1]
    sgn = "-" if zone.startswith("-") else ""
    if zone in ("none", "Z") or tkind == "none":
        zok = "True"
        zens = (("result._time_zone._hours == 5 and result._time_zone._minutes == 30"
                 if cfg not in ("unknown", "local") else
                 "tz_seconds(result._time_zone) == %s" % _LOCAL_OFF if cfg == "local" else
                 "result._time_zone._hours == 0 and result._time_zone._minutes == 0")
                if zone == "none" or tkind == "none" else
                "result._time_zone._hours == 0 and result._time_zone._minutes == 0")
    elif zone.endswith("mm"):
        zok = "zone_fields_ok(%sfld('time_zone_hour'), %sfld('time_zone_minute'))" % (sgn, sgn)
        zens = ("result._time_zone._hours == %sfld('time_zone_hour')"
                " and result._time_zone._minutes == %sfld('time_zone_minute')" % (sgn, sgn))
    else:
        zok = "zone_fields_ok(%sfld('time_zone_hour'), 0)" % sgn
        zens = ("result._time_zone._hours == %sfld('time_zone_hour')"
                " and result._time_zone._minutes == 0" % sgn)
    ens = [DATE_ENS[dkind].replace("YEAR", year), TIME_KINDS[tkind][2], zens,
           "result._truncated is False and result._time_zone._unknown is False",
           "result._num_expanded_year_digits == %d" % (2 if sign else 0)]
    raises = [("BadInputError", "not (%s and %s and %s)" % (dok, tok, zok))]
    c = Case(name, build, ensures=ens, raises=raises)
    if cfg == "local":
        # the system zone: a whole number of minutes within a day of UTC (symbolic)
        c.requires = ["(%s) %% 60 == 0" % _LOCAL_OFF,
                      "-86400 < %s and %s < 86400" % (_LOCAL_OFF, _LOCAL_OFF)]
    c.valid = "%s and %s and %s" % (dok, tok, zok)
    return c


TEXT_CASES = []
for dk in DATE_SEPS:
    for style in ("basic", "extended"):
        for sg in (None, "+", "-"):
            TEXT_CASES.append(text_case(dk, style, sg, "none", style, None, "none"))
            for tk in TIME_TEMPL:
                for tstyle in ("basic", "extended"):
                    for mark in ((",", ".") if tk.endswith("dec") else (None,)):
                        for zn in ZONES:
                            TEXT_CASES.append(text_case(dk, style, sg, tk, tstyle, mark, zn))

# reduced-precision dates (date only): CCYY-MM, CCYY, CC, CCYYWww / CCYY-Www, signed or not
def reduced_case(kind, style, sign):
    templ = {"ym": ["century", "year_of_century", "-", "month_of_year"],
             "y": ["century", "year_of_century"], "c": ["century"],
             "yw": (["century", "year_of_century", "W", "week_of_year"] if style == "basic"
                    else ["century", "year_of_century", "-W", "week_of_year"])}[kind]

    def build(E, st):
        ps = []
        if sign:
            ps += [sign, fld(E, st, "expanded_year", 2)]
        ps += _pieces(E, st, templ)
        return {"self": mk_text_parser(E, st), "timepoint_string": Text(ps).simplest()}
    y4 = YEAR4 if kind != "c" else "(100 * fld('century'))"
    year = y4 if not sign else "(%s(10000 * fld('expanded_year') + %s))" % (
        "-" if sign == "-" else "", y4)
    if kind == "yw":
        ok = "valid_week(%s, fld('week_of_year'), 1)" % year
        dens = ("result._year == %s and result._week_of_year == fld('week_of_year')"
                " and result._day_of_week == 1 and result._month_of_year is None"
                " and result._day_of_year is None" % year)
    else:
        mo = "fld('month_of_year')" if kind == "ym" else "1"
        ok = "valid_cal(%s, %s, 1)" % (year, mo)
        dens = ("result._year == %s and result._month_of_year == %s and result._day_of_month == 1"
                " and result._day_of_year is None and result._week_of_year is None" % (year, mo))
    ens = [dens, "result._hour_of_day == 0 and result._minute_of_hour == 0"
                 " and result._second_of_minute == 0",
           "result._time_zone._hours == 5 and result._time_zone._minutes == 30",
           "result._truncated is False and result._time_zone._unknown is False",
           "result._num_expanded_year_digits == %d" % (2 if sign else 0)]
    return Case("reduced|%s:%s%s" % (style[0], kind, sign or ""), build, ensures=ens,
                raises=[("BadInputError", "not (%s)" % ok)])


for kind in ("ym", "y", "c", "yw"):
    for style in (("basic", "extended") if kind == "yw" else ("basic",)):
        for sg in (None, "+", "-"):
            TEXT_CASES.append(reduced_case(kind, style, sg))

# other parser configurations (each date notation with a covering set of time/zone forms)
for cfg in ("x0", "only-basic", "unknown"):
    for dk in DATE_SEPS:
        for style in ("basic", "extended"):
            for sg in ((None, "+") if cfg == "x0" else (None, "-")):
                TEXT_CASES.append(text_case(dk, style, sg, "none", style, None, "none", cfg))
                for tk, mark in (("hms", None), ("hm", None), ("h", None), ("hms-dec", ","),
                                 ("h-dec", ".")):
                    for tstyle in ("basic", "extended"):
                        for zn in ("none", "Z", "-hhmm", "+hh"):
                            TEXT_CASES.append(text_case(dk, style, sg, tk, tstyle, mark, zn, cfg))

# the system's local zone (symbolic time module): a form without a zone gets it
for dk in DATE_SEPS:
    for style in ("basic", "extended"):
        TEXT_CASES.append(text_case(dk, style, None, "none", style, None, "none", "local"))
        TEXT_CASES.append(text_case(dk, style, None, "hms", style, None, "none", "local"))
        TEXT_CASES.append(text_case(dk, style, "-", "hm", style, None, "none", "local"))

contract("parsers:TimePointParser.parse", use_at_calls=False, opaque=["dby"],
         check_frames=False, cases=TEXT_CASES, merge=True,
         note="every complete date-time form: the digits of the text end up in the fields "
              "the notation says; BadInputError exactly for impossible values; "
              "basic/extended mixes refused")


# ---------------------------------------------------------------- dump, then parse (C08)
def mk_text_dumper(E, st, x=0):
    import sys
    if E.db.repo not in sys.path:
        sys.path.insert(0, E.db.repo)
    key = ("dumper", x)
    if key not in _real_cache:
        from metomi.isodatetime.dumpers import TimePointDumper
        _real_cache[key] = TimePointDumper(x)
    real = _real_cache[key]
    ci = E.db.class_by_name["TimePointDumper"]
    r = st.alloc("obj", ci, fresh=False)
    st.obj(r).slots.update({
        "num_expanded_year_digits": x, "_time_designator": "T",
        # get_time_zone() builds a default TimePointParser lazily; it is given one up front
        # (construction of the regex tables is the real constructor's, read via mk_text_parser)
        "_timepoint_parser": mk_text_parser(E, st, x=2, assumed=None),
        "_rec_formats": _to_engine(E, st, real._rec_formats)})
    return r


def _rt_cases():
    from .shapes import mk_timepoint, DATES
    out = []
    for d in DATES:
        for x in (0, 2):
            def build(E, st, d=d, x=x):
                p = mk_timepoint(E, st, "p", d, "hms", whole=True, ned=x)
                return {"p": p, "dumper": mk_text_dumper(E, st, x),
                        "parser": mk_text_parser(E, st, x=x, assumed=None)}
            req = ["normal24(p)", "p._dump_format is None",
                   ("0 <= p._year and p._year <= 9999") if x == 0 else
                   ("-999999 <= p._year and p._year <= 999999")]
            out.append(Case("%s-x%d" % (d, x), build, requires=req))
    return out


contract("ghost:timepoint_text_round_trip", use_at_calls=False, opaque=["dby"],
         cases=_rt_cases(), check_frames=False)


# ---------------------------------------------------------------- dump_as_parsed (C07)
def _dap_cases():
    out = []
    for dk in DATE_SEPS:
        for style in ("basic", "extended"):
            for sg in (None, "+", "-"):
                for tk in ("none", "hms", "hm", "h"):
                    for zn in (["none"] if tk == "none" else ZONES):
                        base = text_case(dk, style, sg, tk, style, None, zn)
                        if not hasattr(base, "valid"):
                            continue

                        def build(E, st, base=base, sg=sg):
                            env = base.build(E, st)
                            return {"parser": env["self"], "text": env["timepoint_string"],
                                    "dumper": mk_text_dumper(E, st, 2 if sg else 0)}
                        req = [base.valid]
                        if sg == "-":
                            # "-000000" is a second spelling of year +000000 and is dumped as that
                            req.append("fld('expanded_year') != 0 or fld('century') != 0"
                                       " or fld('year_of_century') != 0")
                        if zn.startswith("-"):
                            # "-00" / "-0000" / "-00:00" denote +00:00 and are dumped as such
                            req.append("fld('time_zone_hour') != 0" + (
                                " or fld('time_zone_minute') != 0" if zn.endswith("mm") else ""))
                        out.append(Case(base.name, build, requires=req))
    return out


contract("ghost:parse_dump_as_parsed", use_at_calls=False, opaque=["dby"],
         cases=_dap_cases(), check_frames=False)


# ---------------------------------------------------------------- strftime, then strptime (C17)
FULL_FORMATS = ["%Y-%m-%dT%H:%M:%S%z", "%Y%m%dT%H%M%S%z", "%FT%X%z", "%Y-%jT%H:%M:%S%z",
                "%d.%m.%Y %H:%M:%S %z"]


def _sfp_cases():
    from .shapes import mk_timepoint, DATES
    out = []
    for d in DATES:
        for i, fmt in enumerate(FULL_FORMATS):
            def build(E, st, d=d, fmt=fmt):
                p = mk_timepoint(E, st, "p", d, "hms", whole=True, ned=0)
                return {"p": p, "parser": mk_text_parser(E, st, x=0, assumed=None), "fmt": fmt}
            out.append(Case("%s|%s" % (d, fmt), build,
                            requires=["normal(p)", "tz_ok(p._time_zone)", "p._dump_format is None",
                                      "dby(0) < date_abs(p) and date_abs(p) <= dby(10000)"]))
    return out


contract("ghost:strftime_strptime_round_trip", use_at_calls=False, opaque=["dby"],
         cases=_sfp_cases(), check_frames=False)


# ---------------------------------------------------------------- literal zone in a dump format (C06)
LITERAL_ZONES = [("Z", 0, 0), ("+01", 1, 0), ("-0330", -3, -30), ("+05:45", 5, 45),
                 ("-00:30", 0, -30), ("+14:00", 14, 0), ("-12", -12, 0), ("+0000", 0, 0)]


def _lz_cases():
    from .shapes import mk_timepoint
    out = []
    DF = {"cal": ("CCYY-MM-DD", "CCYYMMDD"), "ord": ("CCYY-DDD", "CCYYDDD"),
          "week": ("CCYY-Www-D", "CCYYWwwD")}
    for d in ("cal", "ord", "week"):
        for (lit, zh, zm) in LITERAL_ZONES:
            ext = ":" in lit or lit in ("Z", "+01", "-12")
            basic = ":" not in lit
            for style in ([0] if ext else []) + ([1] if basic else []):
                fmt = DF[d][style] + ("Thh:mm:ss" if style == 0 else "Thhmmss") + lit

                def build(E, st, d=d, fmt=fmt, zh=zh, zm=zm):
                    p = mk_timepoint(E, st, "p", d, "hms", whole=True, ned=0)
                    return {"p": p, "dumper": mk_text_dumper(E, st, 0),
                            "parser": mk_text_parser(E, st, x=0, assumed=None),
                            "fmt": fmt, "zh": zh, "zm": zm}
                out.append(Case("%s|%s" % (d, fmt), build,
                                requires=["normal24(p)", "1 <= p._year and p._year <= 9998"]))
    return out


contract("ghost:dump_with_literal_zone", use_at_calls=False, opaque=["dby"],
         cases=_lz_cases(), check_frames=False)
from . import REGISTRY as _REG  # noqa
_REG["ghost:dump_with_literal_zone"].modes = ["gregorian"]


# ---------------------------------------------------------------- truncated date forms (C07)
TRUNC_DATE_FORMS = {
    # name: (template, notation) ; fields are spelled by digit fields, the rest is literal
    "-YYMM": (["-", "year_of_century", "month_of_year"], "basic"),
    "-YY": (["-", "year_of_century"], "basic"),
    "--MMDD": (["--", "month_of_year", "day_of_month"], "basic"),
    "--MM": (["--", "month_of_year"], "basic"),
    "---DD": (["---", "day_of_month"], "basic"),
    "YYMMDD": (["year_of_century", "month_of_year", "day_of_month"], "basic"),
    "YYDDD": (["year_of_century", "day_of_year"], "basic"),
    "-DDD": (["-", "day_of_year"], "basic"),
    "YYWwwD": (["year_of_century", "W", "week_of_year", "day_of_week"], "basic"),
    "YYWww": (["year_of_century", "W", "week_of_year"], "basic"),
    "-zWwwD": (["-", "year_of_decade", "W", "week_of_year", "day_of_week"], "basic"),
    "-zWww": (["-", "year_of_decade", "W", "week_of_year"], "basic"),
    "-WwwD": (["-W", "week_of_year", "day_of_week"], "basic"),
    "-Www": (["-W", "week_of_year"], "basic"),
    "-W-D": (["-W-", "day_of_week"], "basic"),
    "-YY-MM": (["-", "year_of_century", "-", "month_of_year"], "extended"),
    "--MM-DD": (["--", "month_of_year", "-", "day_of_month"], "extended"),
    "YY-MM-DD": (["year_of_century", "-", "month_of_year", "-", "day_of_month"], "extended"),
    "YY-DDD": (["year_of_century", "-", "day_of_year"], "extended"),
    "YY-Www-D": (["year_of_century", "-W", "week_of_year", "-", "day_of_week"], "extended"),
    "YY-Www": (["year_of_century", "-W", "week_of_year"], "extended"),
    "-z-WwwD": (["-", "year_of_decade", "-W", "week_of_year", "day_of_week"], "extended"),
    "-z-Www": (["-", "year_of_decade", "-W", "week_of_year"], "extended"),
    "-Www-D": (["-W", "week_of_year", "-", "day_of_week"], "extended"),
}
_TW = dict(WIDTHS, year_of_decade=1)
_SLOT = {"year_of_century": "_year", "year_of_decade": "_year", "month_of_year": "_month_of_year",
         "day_of_month": "_day_of_month", "day_of_year": "_day_of_year",
         "week_of_year": "_week_of_year", "day_of_week": "_day_of_week"}
_TRUNC_OK = {"year_of_century": "True", "year_of_decade": "True",
             "month_of_year": "1 <= fld('month_of_year') and fld('month_of_year') <= 12",
             "day_of_month": "1 <= fld('day_of_month') and fld('day_of_month') <= MAXDIM",
             "day_of_year": "1 <= fld('day_of_year') and fld('day_of_year') <= SUML",
             "week_of_year": "1 <= fld('week_of_year') and fld('week_of_year') <= MAXW",
             "day_of_week": "1 <= fld('day_of_week') and fld('day_of_week') <= 7"}


def trunc_date_case(name):
    templ, style = TRUNC_DATE_FORMS[name]

    def build(E, st):
        ps = [fld(E, st, t, _TW[t]) if t in _TW else t for t in templ]
        r = mk_text_parser(E, st, assumed=None)
        st.obj(r).slots["allow_truncated"] = True
        st.obj(r).slots["default_to_unknown_time_zone"] = True
        return {"self": r, "timepoint_string": Text(ps).simplest()}
    spelled = [t for t in templ if t in _TW]
    ens = ["result._truncated is True"]
    for t in spelled:
        ens.append("result.%s == fld('%s')" % (_SLOT[t], t))
    for slot in sorted(set(_SLOT.values()) - {_SLOT[t] for t in spelled}):
        ens.append("result.%s is None" % slot)
    tp = "year_of_century" if "year_of_century" in spelled else (
        "year_of_decade" if "year_of_decade" in spelled else None)
    ens.append("result._truncated_property == %r" % tp if tp else
               "result._truncated_property is None")
    # validity: with a (two- or one-digit) year spelled the library reads the other fields
    # against THAT year number; without one, against the lengths of a leap year / 53 weeks
    y = ("fld('%s')" % tp) if tp else None
    has = lambda t: t in spelled
    conds = []
    if has("month_of_year") and has("day_of_month"):
        conds.append("valid_cal(%s, fld('month_of_year'), fld('day_of_month'))" % y if y else
                     "1 <= fld('month_of_year') and fld('month_of_year') <= 12 and 1 <= "
                     "fld('day_of_month') and fld('day_of_month') <= dimL(True, fld('month_of_year'))")
    else:
        for t in ("month_of_year", "day_of_month"):
            if has(t):
                conds.append(_TRUNC_OK[t])
    if has("day_of_year"):
        conds.append("valid_ord(%s, fld('day_of_year'))" % y if y else _TRUNC_OK["day_of_year"])
    if has("week_of_year"):
        dw = "fld('day_of_week')" if has("day_of_week") else "1"
        conds.append("valid_week(%s, fld('week_of_year'), %s)" % (y, dw) if y else
                     "(%s) and 1 <= %s and %s <= 7" % (_TRUNC_OK["week_of_year"], dw, dw))
    elif has("day_of_week"):
        conds.append(_TRUNC_OK["day_of_week"])
    ok = " and ".join("(%s)" % c for c in conds) or "True"
    return Case("trunc|%s:%s" % (style[0], name), build, ensures=ens,
                raises=[("BadInputError", "not (%s)" % ok)])


_REG["parsers:TimePointParser.parse"].cases = list(_REG["parsers:TimePointParser.parse"].cases) + [
    trunc_date_case(n) for n in TRUNC_DATE_FORMS]


# ---------------------------------------------------------------- time-only truncated forms (C07)
TRUNC_TIME_FORMS = {
    # name: (basic template, extended template or None when spelled alike)
    "hhmmss": (["hour_of_day", "minute_of_hour", "second_of_minute"],
               ["hour_of_day", ":", "minute_of_hour", ":", "second_of_minute"]),
    "hhmm": (["hour_of_day", "minute_of_hour"], ["hour_of_day", ":", "minute_of_hour"]),
    "hh": (["hour_of_day"], None),
    "-mmss": (["-", "minute_of_hour", "second_of_minute"],
              ["-", "minute_of_hour", ":", "second_of_minute"]),
    "-mm": (["-", "minute_of_hour"], None),
    "--ss": (["--", "second_of_minute"], None),
}
_TSLOT = {"hour_of_day": "_hour_of_day", "minute_of_hour": "_minute_of_hour",
          "second_of_minute": "_second_of_minute"}
_TOK = {"hour_of_day": "0 <= fld('hour_of_day') and fld('hour_of_day') <= 24",
        "minute_of_hour": "0 <= fld('minute_of_hour') and fld('minute_of_hour') <= 59",
        "second_of_minute": "0 <= fld('second_of_minute') and fld('second_of_minute') <= 59"}


def trunc_time_case(name, style, zone):
    templ = TRUNC_TIME_FORMS[name][0 if style == "basic" else 1]

    def build(E, st):
        ps = ["T"] + [fld(E, st, t, 2) if t in _TSLOT else t for t in templ]
        if zone == "Z":
            ps.append("Z")
        elif zone != "none":
            ps += [zone[0], fld(E, st, "time_zone_hour", 2)]
            if zone.endswith("mm"):
                if style == "extended":
                    ps.append(":")
                ps.append(fld(E, st, "time_zone_minute", 2))
        r = mk_text_parser(E, st, assumed=None)
        st.obj(r).slots["allow_truncated"] = True
        st.obj(r).slots["default_to_unknown_time_zone"] = True
        return {"self": r, "timepoint_string": Text(ps).simplest()}
    spelled = [t for t in templ if t in _TSLOT]
    ens = ["result._truncated is True and result._truncated_property is None",
           "result._year is None and result._month_of_year is None and result._day_of_month is None"
           " and result._day_of_year is None and result._week_of_year is None"
           " and result._day_of_week is None"]
    for t in _TSLOT:
        ens.append("result.%s == fld('%s')" % (_TSLOT[t], t) if t in spelled
                   else "result.%s is None" % _TSLOT[t])
    sgn = "-" if zone.startswith("-") else ""
    if zone == "none":
        ens.append("result._time_zone._unknown is True")
        zok = "True"
    elif zone == "Z":
        ens.append("result._time_zone._unknown is False and result._time_zone._hours == 0"
                   " and result._time_zone._minutes == 0")
        zok = "True"
    else:
        mm = ("%sfld('time_zone_minute')" % sgn) if zone.endswith("mm") else "0"
        ens.append("result._time_zone._unknown is False"
                   " and result._time_zone._hours == %sfld('time_zone_hour')"
                   " and result._time_zone._minutes == %s" % (sgn, mm))
        zok = "zone_fields_ok(%sfld('time_zone_hour'), %s)" % (sgn, mm)
    ok = " and ".join("(%s)" % _TOK[t] for t in spelled)
    # 24 is the end of the day: only with zero (or absent) minutes and seconds
    if "hour_of_day" in spelled:
        rest = [t for t in spelled if t != "hour_of_day"]
        if rest:
            ok += " and (fld('hour_of_day') < 24 or (%s))" % " and ".join(
                "fld('%s') == 0" % t for t in rest)
    return Case("trunc-time|%s:%s/%s" % (style[0], name, zone), build, ensures=ens,
                raises=[("BadInputError", "not (%s and %s)" % (ok, zok))])


_tt = []
for _n, (_b, _e) in TRUNC_TIME_FORMS.items():
    for _style in (("basic", "extended") if _e is not None else ("basic",)):
        for _z in ("none", "Z", "+hh", "-hhmm"):
            _tt.append(trunc_time_case(_n, _style, _z))
_REG["parsers:TimePointParser.parse"].cases = list(_REG["parsers:TimePointParser.parse"].cases) + _tt


# ---------------------------------------------------------------- recurrence texts (C14)
def mk_rec_parser(E, st):
    from .durtext_t4 import mk_parser
    ci = E.db.class_by_name["TimeRecurrenceParser"]
    r = st.alloc("obj", ci, fresh=False)
    st.obj(r).slots.update({"timepoint_parser": mk_text_parser(E, st, x=2, assumed=(0, 0)),
                            "duration_parser": mk_parser(E, st)})
    return r


def _tp_pieces(E, st, tag, zone):
    """CCYY-MM-DDThh:mm:ss<zone> with digit fields named <tag>.<field>"""
    f = lambda n, w: fld(E, st, tag + "." + n, w)
    ps = [f("century", 2), f("year_of_century", 2), "-", f("month_of_year", 2), "-",
          f("day_of_month", 2), "T", f("hour_of_day", 2), ":", f("minute_of_hour", 2), ":",
          f("second_of_minute", 2)]
    if zone == "Z":
        ps.append("Z")
    else:
        ps += ["+", f("time_zone_hour", 2), ":", f("time_zone_minute", 2)]
    return ps


def _dur_pieces(E, st):
    from pyvc.values import IntStr
    out = ["P"]
    for nm, letter in (("days", "D"), ("hours", "H")):
        v = z3.Int("p:d." + nm)
        st.assume(v >= 1)
        if nm == "hours":
            out.append("T")
        out += [IntStr(v), letter]
    return out


def _tp_valid(tag, zone):
    y = "(100 * fld('%s.century') + fld('%s.year_of_century'))" % (tag, tag)
    s = ("valid_cal(%s, fld('%s.month_of_year'), fld('%s.day_of_month'))"
         " and time_fields_ok(fld('%s.hour_of_day'), fld('%s.minute_of_hour'),"
         " fld('%s.second_of_minute'))" % (y, tag, tag, tag, tag, tag))
    if zone != "Z":
        s += " and zone_fields_ok(fld('%s.time_zone_hour'), fld('%s.time_zone_minute'))" % (tag, tag)
    return s


def _tp_is(obj, tag, zone):
    y = "(100 * fld('%s.century') + fld('%s.year_of_century'))" % (tag, tag)
    s = ("%s._year == %s and %s._month_of_year == fld('%s.month_of_year')"
         " and %s._day_of_month == fld('%s.day_of_month')"
         " and %s._hour_of_day == fld('%s.hour_of_day')"
         " and %s._minute_of_hour == fld('%s.minute_of_hour')"
         " and %s._second_of_minute == fld('%s.second_of_minute')" % (
             obj, y, obj, tag, obj, tag, obj, tag, obj, tag, obj, tag))
    if zone == "Z":
        s += " and %s._time_zone._hours == 0 and %s._time_zone._minutes == 0" % (obj, obj)
    else:
        s += (" and %s._time_zone._hours == fld('%s.time_zone_hour')"
              " and %s._time_zone._minutes == fld('%s.time_zone_minute')" % (obj, tag, obj, tag))
    return s


def _tp_inst(tag, zone):
    y = "(100 * fld('%s.century') + fld('%s.year_of_century'))" % (tag, tag)
    tz = "0" if zone == "Z" else ("(3600 * fld('%s.time_zone_hour') + 60 * fld('%s.time_zone_minute'))"
                                  % (tag, tag))
    return ("(86400 * cal_abs(%s, fld('%s.month_of_year'), fld('%s.day_of_month'))"
            " + 3600 * fld('%s.hour_of_day') + 60 * fld('%s.minute_of_hour')"
            " + fld('%s.second_of_minute') - %s)" % (y, tag, tag, tag, tag, tag, tz))


def rec_text_case(notation, reps, zone):
    """notation 1: R[n]/start/end, 3: R[n]/start/interval, 4: R[n]/interval/end"""
    def build(E, st):
        from pyvc.values import IntStr
        ps = ["R"]
        if reps:
            n = z3.Int("p:reps")
            st.assume(n >= 2)
            ps.append(IntStr(n))
        ps.append("/")
        if notation == 1:
            ps += _tp_pieces(E, st, "a", zone) + ["/"] + _tp_pieces(E, st, "b", zone)
        elif notation == 3:
            ps += _tp_pieces(E, st, "a", zone) + ["/"] + _dur_pieces(E, st)
        else:
            ps += _dur_pieces(E, st) + ["/"] + _tp_pieces(E, st, "b", zone)
        return {"self": mk_rec_parser(E, st), "expression": Text(ps).simplest()}
    req, ens = [], ["classname(result) == 'TimeRecurrence'",
                    ("result._repetitions == fld('reps')" if reps
                     else "result._repetitions is None")]
    if notation in (1, 3):
        req.append(_tp_valid("a", zone))
        ens.append(_tp_is("result._start_point", "a", zone))
    if notation == 4:
        req.append(_tp_valid("b", zone))
        ens.append(_tp_is("result._end_point", "b", zone) if not reps else "True")
    if notation == 1:
        req.append(_tp_valid("b", zone))
        # the second point lies after the start (equal points collapse to one repetition,
        # an earlier one is refused: C12's constructor cases)
        req.append("%s > %s" % (_tp_inst("b", zone), _tp_inst("a", zone)))
        ens.append(_tp_is("result._second_point", "b", zone))
    if notation in (3, 4):
        ens.append("result._duration._days == fld('d.days') and result._duration._hours"
                   " == fld('d.hours') and result._duration._minutes == 0"
                   " and result._duration._seconds == 0 and result._duration._years == 0"
                   " and result._duration._months == 0")
    ens.append("result._format_number == %d" % notation)
    return Case("fmt%d/%s/%s" % (notation, "n" if reps else "inf", zone), build,
                requires=req, ensures=ens)


contract("parsers:TimeRecurrenceParser.parse", use_at_calls=False, opaque=["dby"],
         check_frames=False,
         cases=[rec_text_case(nt, rp, zn) for nt in (1, 3, 4) for rp in (True, False)
                for zn in ("Z", "+hh:mm")],
         note="the three recurrence notations on symbolic texts: repetitions, start / second "
              "/ end point fields and interval components exactly as spelled")
_REG["parsers:TimeRecurrenceParser.parse"].modes = ["gregorian"]


# ---------------------------------------------------------------- custom complete formats (C08)
CUSTOM_FORMATS = ["CCYY-MM-DDThh:mm:ss+hh:mm", "CCYYMMDDThhmmss+hhmm", "CCYY-DDDThh:mm:ss+hh:mm",
                  "CCYYDDDThhmmss+hhmm", "CCYY-Www-DThh:mm:ss+hh:mm", "CCYYWwwDThhmmss+hhmm",
                  "CCYY-MM-DDThh:mm:ssZ", "CCYYDDDThhmmssZ", "CCYY-Www-DThh:mm:ss+hh"]


def _cf_cases():
    from .shapes import mk_timepoint
    out = []
    for d in ("cal", "ord", "week"):
        for fmt in CUSTOM_FORMATS:
            def build(E, st, d=d, fmt=fmt):
                p = mk_timepoint(E, st, "p", d, "hms", whole=True, ned=0)
                return {"p": p, "dumper": mk_text_dumper(E, st, 0),
                        "parser": mk_text_parser(E, st, x=0, assumed=None), "fmt": fmt}
            req = ["normal24(p)", "1 <= p._year and p._year <= 9998"]
            if fmt.endswith("+hh"):
                req.append("p._time_zone._minutes == 0")   # the format prints hours only
            out.append(Case("%s|%s" % (d, fmt), build, requires=req))
    return out


contract("ghost:dump_custom_format", use_at_calls=False, opaque=["dby"],
         cases=_cf_cases(), check_frames=False)
_REG["ghost:dump_custom_format"].modes = ["gregorian"]


# ---------------------------------------------------------------- recurrence text round trip (C14)
def mk_rec_parser2(E, st):
    from .durtext_t4 import mk_parser
    ci = E.db.class_by_name["TimeRecurrenceParser"]
    r = st.alloc("obj", ci, fresh=False)
    st.obj(r).slots.update({"timepoint_parser": mk_text_parser(E, st, x=2, assumed=None),
                            "duration_parser": mk_parser(E, st)})
    return r


def _rec_text_cases():
    from .recurrence_t3 import mk_rec
    out = []
    for kind in ("fwd-bounded", "fwd-unbounded", "rev-unbounded", "single"):
        for dmask in ((0b1000,) if kind == "single" else (0b0001, 0b0010, 0b1111, 0b1100)):
            def build(E, st, kind=kind, dmask=dmask):
                r = mk_rec(E, st, "r", kind, "cal", "hms", "exact-whole", whole=True)
                d = st.obj(r).slots.get("_duration")
                if d is not None:
                    sl = st.obj(d).slots
                    for i, nm in enumerate(("_days", "_hours", "_minutes", "_seconds")):
                        if dmask >> i & 1:
                            v = z3.Int("p:r._duration." + nm)
                            st.assume(v > 0)
                            sl[nm] = v if nm == "_days" else z3.ToReal(v)
                        else:
                            sl[nm] = 0
                return {"r": r, "rparser": mk_rec_parser2(E, st)}
            req = ["rec_ok(r)", "r._min_point is None and r._max_point is None"]
            for pt in ("_start_point", "_end_point"):
                req.append("(0 <= r.%s._year and r.%s._year <= 9999 and r.%s._dump_format is None)"
                           " if r.%s is not None else True" % (pt, pt, pt, pt))
            out.append(Case("%s/%s" % (kind, "".join(
                l if dmask >> i & 1 else "-" for i, l in enumerate("DHMS"))), build,
                requires=req))
    return out


contract("ghost:rec_text_round_trip", use_at_calls=False, opaque=["dby"], merge=False,
         cases=_rec_text_cases(), check_frames=False)
_REG["ghost:rec_text_round_trip"].modes = ["gregorian"]
_REG["ghost:rec_text_round_trip"].cases = [
    c for c in _REG["ghost:rec_text_round_trip"].cases
    if not c.name.startswith("fwd-bounded") or c.name in ("fwd-bounded/D---", "fwd-bounded/-H--")]


# ---------------------------------------------------------------- TimePointParser(...) on concrete arguments
def _tpp_init_havoc(E, st, env):
    """TimePointParser.__init__ with CONCRETE arguments is evaluated natively (the real
    constructor builds the regex tables); the resulting attributes are loaded into the
    receiver.  Listed as an assumption: constructor evaluated, not verified."""
    names = ("num_expanded_year_digits", "allow_truncated", "allow_only_basic",
             "assumed_time_zone", "default_to_unknown_time_zone", "dump_format")
    kw = {}
    for n in names:
        v = env.get(n)
        if not (v is None or isinstance(v, (bool, int, str)) or (
                isinstance(v, tuple) and all(isinstance(x, int) for x in v))):
            from pyvc.values import OutOfReach
            raise OutOfReach("TimePointParser(...) with a symbolic argument %s" % n)
        kw[n] = v
    import sys
    if E.db.repo not in sys.path:
        sys.path.insert(0, E.db.repo)
    from metomi.isodatetime.parsers import TimePointParser
    real = TimePointParser(**kw)
    slots = st.obj(env["self"]).slots
    for k, v in vars(real).items():
        slots[k] = _to_engine(E, st, v) if k.endswith("_regex_map") else v


contract("parsers:TimePointParser.__init__", havoc=_tpp_init_havoc, modifies_self=True,
         applicable=lambda E, st, env: True, cases=[], ensures=[],
         note="evaluated natively on concrete arguments (assumption)")
for _q in ("parse_timepoint_expression",):
    contract("parsers:" + _q, inline=True)
