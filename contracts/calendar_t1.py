"""T1 — integer calendar core of data.py (DESIGN.md section 4, C03/C15)."""
import z3
from . import contract, Case, LoopSpec, ints, res_ints, res_int
from pyvc.values import SeqC, is_z3, simp, OutOfReach
from pyvc.state import State


def S(E, name, *args):
    """Evaluate a spec function symbolically (pure)."""
    (s, v), = E.call_spec(E.spec_funcs[name], list(args), {}, State())
    return v


def zmax0(x):
    if not is_z3(x):
        return max(x, 0)
    return simp(z3.If(x > 0, x, z3.IntVal(0)))


def imd_seq(E, L, m, d, rev):
    """The sequence iter_months_days denotes, for leap flag L (DESIGN 4 T1)."""
    if is_z3(rev):
        raise OutOfReach("iter_months_days: symbolic direction")
    diy = S(E, "diyL", L)
    if not rev:
        if m is None:
            n0 = 1
        elif d is None:
            n0 = S(E, "cumL", L, m) + 1
        else:
            n0 = S(E, "cumL", L, m) + d
        n = zmax0(diy - n0 + 1)
        return SeqC(n, lambda k: S(E, "md_ofL", L, n0 + k), "imd-forward")
    if m is None:
        start = diy
    elif d is None:
        start = S(E, "cumL", L, m + 1)
    else:
        start = S(E, "cumL", L, m) + d
    n = zmax0(start)
    return SeqC(n, lambda k: S(E, "md_ofL", L, start - k), "imd-reverse")


def imd_result(E, st, env):
    L = S(E, "leap", env["year"])
    return imd_seq(E, L, env["month_of_year"], env["day_of_month"],
                   env["in_reverse"])


def _imd_result(E, st, env):
    return imd_seq(E, env["is_leap_year"], env["month_of_year"],
                   env["day_of_month"], env["in_reverse"])


def imd_req(dimexpr):
    return [
        "month_of_year is None or (1 <= month_of_year and month_of_year <= 12)",
        "day_of_month is None or (month_of_year is not None and"
        " ((not in_reverse and 1 <= day_of_month and day_of_month <= %s + 1)"
        "  or (in_reverse and 0 <= day_of_month and day_of_month <= %s)))"
        % (dimexpr, dimexpr)]


# ---------------------------------------------------------------- leap / lengths
contract("data:get_is_leap_year",
         returns="leap(year)",
         cases=[Case("int", ints("year"))])

for w in ("get_days_in_year_range", "get_days_in_year", "get_days_in_month",
          "get_weeks_in_year", "get_calendar_date_week_date_start",
          "get_days_since_1_ad", "get_ordinal_date_week_date_start"):
    contract("data:" + w, inline=True,
             note="thin wrapper adding CALENDAR.mode as cache key: inlined")

contract(
    "data:_get_days_in_year_range",
    returns="(dby(end_year + 1) - dby(start_year))"
            " if start_year <= end_year else 0",
    loops={
        0: LoopSpec(join=(
            "days == (end_year + 1 - start_year) * CALENDAR.DAYS_IN_YEAR"
            " + (CALENDAR.DAYS_IN_YEAR_LEAP - CALENDAR.DAYS_IN_YEAR)"
            " * ((cnt(4, start_year, end_year) if i >= 1 else 0)"
            "    - (cnt(100, start_year, end_year) if i >= 2 else 0)"
            "    + (cnt(400, start_year, end_year) if i >= 3 else 0))")),
        1: LoopSpec(
            invariant=[
                "start_year + 1 <= factor_start_year",
                "factor_start_year <= max(end_year, start_year + 1)",
                "(factor_start_year - 1) // factor == start_year // factor"],
            decreases="end_year - factor_start_year"),
    },
    cases=[Case("int", lambda E, st: {
        "start_year": E.sym_int("start_year"), "end_year": E.sym_int("end_year"),
        "_": E.mode})])

contract("data:_get_days_in_year",
         returns="diy(year)",
         cases=[Case("int", lambda E, st: {"year": E.sym_int("year"), "_": E.mode})])

contract(
    "data:_get_days_in_month",
    requires=["1 <= month_of_year and month_of_year <= 12"],
    returns="dimL(True, month_of_year) if year == 'leap' else"
            " (dimL(False, month_of_year) if year is None else"
            "  dim(year, month_of_year))",
    cases=[
        Case("year-int", lambda E, st: {
            "month_of_year": E.sym_int("month_of_year"),
            "year": E.sym_int("year"), "_": E.mode}),
        Case("year-leap", lambda E, st: {
            "month_of_year": E.sym_int("month_of_year"),
            "year": "leap", "_": E.mode}),
        Case("year-none", lambda E, st: {
            "month_of_year": E.sym_int("month_of_year"),
            "year": None, "_": E.mode}),
    ])

# ---------------------------------------------------------------- month/day iteration
contract(
    "data:_iter_months_days",
    requires=imd_req("dimL(is_leap_year, month_of_year)"),
    result=_imd_result,
    cases=[],      # own body: exhaustive-finite stand-in (bounded), see props/C03
    note="result is a contract-described read-only sequence")

contract(
    "data:iter_months_days",
    requires=imd_req("dim(year, month_of_year)"),
    result=imd_result,
    ensures=[],
    cases=[
        Case("fwd-all", lambda E, st: {"year": E.sym_int("year")},
             ensures=["seq_eq(result, spec_imd(year, None, None, False))"]),
        Case("fwd-month", lambda E, st: {
            "year": E.sym_int("year"), "month_of_year": E.sym_int("month_of_year")},
            ensures=["seq_eq(result, spec_imd(year, month_of_year, None, False))"]),
        Case("fwd-month-day", lambda E, st: {
            "year": E.sym_int("year"), "month_of_year": E.sym_int("month_of_year"),
            "day_of_month": E.sym_int("day_of_month")},
            ensures=["seq_eq(result, spec_imd(year, month_of_year, day_of_month, False))"]),
        Case("rev-all", lambda E, st: {"year": E.sym_int("year"), "in_reverse": True},
             ensures=["seq_eq(result, spec_imd(year, None, None, True))"]),
        Case("rev-month-day", lambda E, st: {
            "year": E.sym_int("year"), "month_of_year": E.sym_int("month_of_year"),
            "day_of_month": E.sym_int("day_of_month"), "in_reverse": True},
            ensures=["seq_eq(result, spec_imd(year, month_of_year, day_of_month, True))"]),
    ])

# ---------------------------------------------------------------- ordinal <-> calendar
contract(
    "data:get_calendar_date_from_ordinal_date",
    raises=[("ValueError", "not valid_ord(year, day_of_year)")],
    returns="(year,) + md_of(year, day_of_year)",
    loops={0: LoopSpec(invariant=[
        "iter_num_days == i",
        "day_of_year > i or day_of_year < 1"])},
    cases=[Case("int", ints("year", "day_of_year"))])

contract(
    "data:get_ordinal_date_from_calendar_date",
    raises=[("ValueError", "not valid_cal(year, month_of_year, day_of_month)")],
    returns="(year, ord_of(year, month_of_year, day_of_month))",
    loops={0: LoopSpec(invariant=[
        "iter_num_days == i",
        "implies(valid_cal(year, month_of_year, day_of_month),"
        "        ord_of(year, month_of_year, day_of_month) > i)"])},
    cases=[Case("int", ints("year", "month_of_year", "day_of_month"))])

# ---------------------------------------------------------------- week-year starts
contract(
    "data:_get_calendar_date_week_date_start", opaque=["dby"],
    result=res_ints(3, "wds"),
    ensures=[
        "valid_cal(result[0], result[1], result[2])",
        "cal_abs(result[0], result[1], result[2]) == wstart(year)",
        "(result[0] == year and result[1] == 1 and result[2] <= 4)"
        " or (result[0] == year - 1 and result[1] == 12 and result[2] >= DIM[11] - 2)"],
    loops={0: LoopSpec(invariant=[
        "day_of_week_start_year == entry(day_of_week_start_year) - i",
        "day_of_week_start_year > 1"])},
    cases=[Case("int", lambda E, st: {"year": E.sym_int("year"), "_": E.mode})])

contract(
    "data:_get_ordinal_date_week_date_start", opaque=["dby"],
    result=res_ints(2, "wdo"),
    ensures=[
        "valid_ord(result[0], result[1])",
        "absday(result[0], result[1]) == wstart(year)",
        "(result[0] == year and result[1] <= 4)"
        " or (result[0] == year - 1 and result[1] >= SUM - 2)"],
    loops={0: LoopSpec(invariant=[
        "total_days == i",
        "ord_of(cal_year, cal_month, cal_day) > i"])},
    cases=[Case("int", lambda E, st: {"year": E.sym_int("year"), "_": E.mode})])

contract(
    "data:_get_days_since_1_ad", opaque=["dby"],
    returns="(dby(year + 1) - dby(1)) if year >= 1 else 0",
    cases=[Case("int", lambda E, st: {"year": E.sym_int("year"), "_": E.mode})])

contract(
    "data:_get_weeks_in_year", opaque=["dby"],
    returns="wiy(year)",
    loops={0: LoopSpec(invariant=[
        "diff_days == entry(diff_days) + dby(cal_year + i) - dby(cal_year)"])},
    cases=[Case("int", lambda E, st: {"year": E.sym_int("year"), "_": E.mode})])

# ---------------------------------------------------------------- week <-> calendar/ordinal
_WK_LOOP = [
    "total_iter_days == entry(total_iter_days) + i",
    "num_days_week_year > total_iter_days"]

contract(
    "data:get_calendar_date_from_week_date", opaque=["dby"],
    requires=["valid_week(year, week_of_year, day_of_week)"],
    result=res_ints(3, "cfw"),
    ensures=[
        "valid_cal(result[0], result[1], result[2])",
        "cal_abs(result[0], result[1], result[2])"
        " == week_abs(year, week_of_year, day_of_week)"],
    loops={0: LoopSpec(invariant=_WK_LOOP), 1: LoopSpec(invariant=_WK_LOOP),
           2: LoopSpec(invariant=_WK_LOOP)},
    cases=[Case("int", ints("year", "week_of_year", "day_of_week"))])

contract(
    "data:get_ordinal_date_from_week_date", opaque=["dby"],
    requires=["valid_week(year, week_of_year, day_of_week)"],
    result=res_ints(2, "ofw"),
    ensures=[
        "valid_ord(result[0], result[1])",
        "absday(result[0], result[1])"
        " == week_abs(year, week_of_year, day_of_week)"],
    cases=[Case("int", ints("year", "week_of_year", "day_of_week"))])

_T = "cal_abs(year, month_of_year, day_of_month)"
_S0 = "cal_abs(start_year, start_month, start_day)"
contract(
    "data:get_week_date_from_calendar_date", opaque=["dby"],
    requires=["valid_cal(year, month_of_year, day_of_month)"],
    returns="week_of(year, cal_abs(year, month_of_year, day_of_month))",
    loops={
        0: LoopSpec(invariant=[
            "total_iter_days == i - 1",
            _T + " >= " + _S0 + " + i"]),
        2: LoopSpec(invariant=[
            "total_iter_days == dby(iter_start_year) + i - " + _S0,
            _T + " >= dby(iter_start_year) + 1 + i"]),
    },
    cases=[Case("int", ints("year", "month_of_year", "day_of_month"))])

contract(
    "data:get_week_date_from_ordinal_date", opaque=["dby"],
    requires=["valid_ord(year, day_of_year)"],
    returns="week_of(year, absday(year, day_of_year))",
    cases=[Case("int", ints("year", "day_of_year"))])


def _hook(E):
    def spec_imd(E_, args, kws, st):
        y, m, d, rev = args
        return imd_seq(E_, S(E_, "leap", y), m, d, rev)
    E.extra_builtins["spec_imd"] = spec_imd


from . import ENGINE_HOOKS  # noqa
ENGINE_HOOKS.append(_hook)
