"""TimePoint / TimeZone constructors and bounds checking (C09, used by C07)."""
import z3
from . import contract, Case, LoopSpec

for q in ("TimePoint.__init__", "TimePoint._check_bounds"):
    contract("data:" + q, inline=True)

ALL_PARAMS = ["year", "month_of_year", "week_of_year", "day_of_year", "day_of_month",
              "day_of_week", "hour_of_day", "hour_of_day_decimal", "minute_of_hour",
              "minute_of_hour_decimal", "second_of_minute", "second_of_minute_decimal",
              "time_zone_hour", "time_zone_minute"]
REAL = ("hour_of_day_decimal", "minute_of_hour_decimal", "second_of_minute_decimal")


def ctor_case(name, given, valid, truncated=False, ensures=None, lits=None):
    """given: parameter names that are supplied (symbolic); the rest are None."""
    def build(E, st):
        ci = E.db.class_by_name["TimePoint"]
        ref = st.alloc("obj", ci, fresh=True)
        d = {"self": ref}
        for p in given:
            d[p] = E.sym_real(p) if p in REAL else E.sym_int(p)
        if truncated:
            d["truncated"] = True
        d.update(lits or {})
        return d
    return Case(name, build, raises=[("BadInputError", "not (%s)" % valid)],
                ensures=ensures or [])


def T(h="hour_of_day", m="minute_of_hour", s="second_of_minute"):
    return "time_fields_ok(%s, %s, %s)" % (h, m, s)


Z = "zone_fields_ok(time_zone_hour, time_zone_minute)"
HMS = ["hour_of_day", "minute_of_hour", "second_of_minute"]
TZ = ["time_zone_hour", "time_zone_minute"]
CASES = [
    ctor_case("cal-ymd-hms-tz", ["year", "month_of_year", "day_of_month"] + HMS + TZ,
              "valid_cal(year, month_of_year, day_of_month) and %s and %s" % (T(), Z),
              ensures=["self._year == year and self._month_of_year == month_of_year"
                       " and self._day_of_month == day_of_month"
                       " and self._hour_of_day == hour_of_day"
                       " and self._minute_of_hour == minute_of_hour"
                       " and self._second_of_minute == second_of_minute"
                       " and self._time_zone._hours == time_zone_hour"
                       " and self._time_zone._minutes == time_zone_minute"
                       " and self._time_zone._unknown is False"
                       " and self._day_of_year is None and self._week_of_year is None"
                       " and self._day_of_week is None and self._truncated is False"]),
    ctor_case("cal-ymd", ["year", "month_of_year", "day_of_month"],
              "valid_cal(year, month_of_year, day_of_month)",
              ensures=["self._hour_of_day == 0 and self._minute_of_hour == 0"
                       " and self._second_of_minute == 0"
                       " and self._time_zone._hours == 0 and self._time_zone._minutes == 0"]),
    ctor_case("cal-ym", ["year", "month_of_year"], "valid_cal(year, month_of_year, 1)",
              ensures=["self._day_of_month == 1"]),
    ctor_case("cal-y", ["year"], "True",
              ensures=["self._month_of_year == 1 and self._day_of_month == 1"]),
    ctor_case("cal-yd", ["year", "day_of_month"], "valid_cal(year, 1, day_of_month)"),
    ctor_case("ord-hms-tz", ["year", "day_of_year"] + HMS + TZ,
              "valid_ord(year, day_of_year) and %s and %s" % (T(), Z),
              ensures=["self._year == year and self._day_of_year == day_of_year"
                       " and self._month_of_year is None and self._day_of_month is None"
                       " and self._week_of_year is None"]),
    ctor_case("week-hms-tz", ["year", "week_of_year", "day_of_week"] + HMS + TZ,
              "valid_week(year, week_of_year, day_of_week) and %s and %s" % (T(), Z),
              ensures=["self._year == year and self._week_of_year == week_of_year"
                       " and self._day_of_week == day_of_week"
                       " and self._month_of_year is None and self._day_of_year is None"]),
    ctor_case("week-yw", ["year", "week_of_year"], "valid_week(year, week_of_year, 1)"),
    ctor_case("time-h", ["year", "hour_of_day"], T(m="None", s="None"),
              ensures=["self._minute_of_hour == 0 and self._second_of_minute == 0"]),
    ctor_case("time-hm", ["year", "hour_of_day", "minute_of_hour"], T(s="None")),
    ctor_case("time-h-dec", ["year", "hour_of_day", "hour_of_day_decimal"],
              "0 <= hour_of_day_decimal and hour_of_day_decimal < 1 and "
              "0 <= hour_of_day + hour_of_day_decimal and hour_of_day + hour_of_day_decimal <= 24",
              ensures=["self._hour_of_day == hour_of_day + hour_of_day_decimal"
                       " and self._minute_of_hour is None and self._second_of_minute is None"]),
    ctor_case("time-hm-dec", ["year", "hour_of_day", "minute_of_hour",
                              "minute_of_hour_decimal"],
              "0 <= minute_of_hour_decimal and minute_of_hour_decimal < 1 and "
              + T(m="minute_of_hour + minute_of_hour_decimal", s="None"),
              ensures=["self._minute_of_hour == minute_of_hour + minute_of_hour_decimal"
                       " and self._second_of_minute is None"]),
    ctor_case("time-hms-dec", ["year"] + HMS + ["second_of_minute_decimal"],
              "0 <= second_of_minute_decimal and second_of_minute_decimal < 1 and "
              + T(s="second_of_minute + second_of_minute_decimal")),
    ctor_case("zone-h-only", ["year", "time_zone_hour"], "zone_fields_ok(time_zone_hour, None)"),
    ctor_case("zone-m-only", ["year", "time_zone_minute"], "zone_fields_ok(None, time_zone_minute)"),
    ctor_case("conflict-month-week", ["year", "month_of_year", "week_of_year"],
              "(month_of_year == 0 or week_of_year == 0) and False"),
    ctor_case("conflict-ord-month", ["year", "day_of_year", "month_of_year"],
              "month_of_year == 0 and False"),
    # truncated (no year): month lengths of a leap year, day 366 and the calendar's longest week year admitted
    ctor_case("trunc-md", ["month_of_year", "day_of_month"],
              "1 <= month_of_year and month_of_year <= 12 and 1 <= day_of_month"
              " and day_of_month <= dimL(True, month_of_year)", truncated=True),
    ctor_case("trunc-doy", ["day_of_year"], "1 <= day_of_year and day_of_year <= SUML",
              truncated=True),
    ctor_case("trunc-wd", ["week_of_year", "day_of_week"],
              "1 <= week_of_year and week_of_year <= MAXW and 1 <= day_of_week and day_of_week <= 7",
              truncated=True),
    ctor_case("trunc-hms", HMS, T(), truncated=True,
              ensures=["self._time_zone._unknown is True and self._truncated is True"
                       " and self._year is None and self._month_of_year is None"]),
    ctor_case("trunc-hms-tz", HMS + TZ, "%s and %s" % (T(), Z), truncated=True,
              ensures=["self._time_zone._unknown is False"
                       " and self._time_zone._hours == time_zone_hour"
                       " and self._time_zone._minutes == time_zone_minute"]),
    ctor_case("trunc-h-tzh", ["hour_of_day", "time_zone_hour"],
              "%s and zone_fields_ok(time_zone_hour, None)" % T(m="None", s="None"),
              truncated=True,
              ensures=["self._time_zone._unknown is False"
                       " and self._time_zone._hours == time_zone_hour"
                       " and self._time_zone._minutes == 0"]),
]

contract("data:TimePoint.__init__", use_at_calls=False, opaque=["dby"], cases=CASES,
         note="raises BadInputError <=> the fields do not denote a date-time of the active "
              "calendar mode (both directions), and stores exactly the given fields")


# TimeZone(hours, minutes)
def tz_case(E, st):
    ci = E.db.class_by_name["TimeZone"]
    return {"self": st.alloc("obj", ci, fresh=True),
            "hours": E.sym_int("hours"), "minutes": E.sym_int("minutes")}


contract("data:TimeZone.__init__", use_at_calls=False,
         cases=[Case("ints", tz_case,
                     raises=[("BadInputError", "not zone_fields_ok(hours, minutes)")],
                     ensures=["self._hours == hours and self._minutes == minutes"
                              " and tz_ok(self) and self._unknown is False"])])


def bc_case(kind):
    def build(E, st):
        d = {"value": E.sym_real("value"), "name": "x", "min_val": E.sym_real("min_val")}
        if kind == "max":
            d["max_val"] = E.sym_real("max_val")
        else:
            d["upper_val"] = E.sym_real("upper_val")
        return d
    return build


contract("data:_bounds_checker", use_at_calls=False,
         cases=[Case("max", bc_case("max"),
                     raises=[("BadInputError", "value < min_val or value > max_val")]),
                Case("upper", bc_case("upper"),
                     raises=[("BadInputError", "value < min_val or value >= upper_val")]),
                Case("none", lambda E, st: {"value": None, "name": "x", "min_val": 1,
                                            "max_val": 2}, raises=[],
                     ensures=["result is None"])])
