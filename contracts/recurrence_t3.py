"""T3 — TimeRecurrence (C12, C13, C14)."""
import z3
from . import contract, Case, LoopSpec, ENGINE_HOOKS
from .shapes import mk_timepoint, mk_duration, fresh_timepoint_like
from .timepoint_t2 import is_full_tp, is_duration
from pyvc.values import Ref, SeqC, OutOfReach

REC_SLOTS = ["_repetitions", "_start_point", "_duration", "_end_point",
             "_second_point", "_format_number", "_min_point", "_max_point"]


def mk_rec(E, st, prefix, kind, date="cal", time="hms", dform="exact", whole=False):
    """kind: fwd-bounded | fwd-unbounded | rev-unbounded | single"""
    s = {k: None for k in REC_SLOTS}
    if kind in ("fwd-bounded", "fwd-unbounded", "single"):
        s["_start_point"] = mk_timepoint(E, st, prefix + "._start_point", date, time,
                                         whole=whole)
    if kind in ("fwd-bounded", "rev-unbounded"):
        s["_end_point"] = mk_timepoint(E, st, prefix + "._end_point", date, time,
                                       whole=whole)
    if kind == "single":
        s["_end_point"] = s["_start_point"]
        s["_second_point"] = s["_start_point"]
        s["_repetitions"] = 1
        s["_format_number"] = 3
    else:
        s["_duration"] = mk_duration(E, st, prefix + "._duration", dform)
        s["_format_number"] = 4 if kind == "rev-unbounded" else 3
    if kind == "fwd-bounded":
        s["_repetitions"] = z3.Int("p:" + prefix + "._repetitions")
    return E.new_obj(st, "TimeRecurrence", s)


KINDS = ("fwd-bounded", "fwd-unbounded", "rev-unbounded", "single")

for q in ("TimeRecurrence.repetitions", "TimeRecurrence.start_point",
          "TimeRecurrence.duration", "TimeRecurrence.end_point",
          "TimeRecurrence.min_point", "TimeRecurrence.max_point",
          "TimeRecurrence.format_number", "TimeRecurrence.__init__",
          "TimeRecurrence.__sub__"):
    contract("data:" + q, inline=True)


REC_WITNESS = {"p:self._repetitions": 2}


def rec_case(kind, extra=None, **kw):
    def build(E, st):
        d = {"self": mk_rec(E, st, "self", kind, **kw)}
        if extra:
            d.update(extra(E, st))
        return d
    return build


def tp_arg(name):
    return lambda E, st: {name: mk_timepoint(E, st, name, "ord", "hm")}


# ---------------------------------------------------------------- bounds / neighbours
contract(
    "data:TimeRecurrence._get_is_in_bounds",
    applicable=lambda E, st, env: env["timepoint"] is None or is_full_tp(E, st, env["timepoint"]),
    inline_fallback=True,
    requires=["rec_ok(self)", "normal24(timepoint) if timepoint is not None else True"],
    returns="rec_in_bounds(self, timepoint) if timepoint is not None else False",
    cases=[Case(k, rec_case(k, tp_arg("timepoint"))) for k in KINDS] +
          [Case("none", rec_case("fwd-bounded", lambda E, st: {"timepoint": None}))])


def step_result(E, st, env):
    return fresh_timepoint_like(E, st, env["timepoint"], "step")


def step_contract(name, sign):
    op = "+" if sign > 0 else "-"
    contract(
        "data:TimeRecurrence." + name, use_at_calls=False,
        requires=["rec_ok(self)", "normal24(timepoint)"],
        cases=[Case(k, rec_case(k, tp_arg("timepoint")), ensures=[
            "(result is None) == (self._duration is None or not rec_in_bounds_i(self,"
            " instant(timepoint) %s dlen_or0(self._duration)))" % op,
            "(instant(result) == instant(timepoint) %s"
            " dlen_or0(self._duration) and normal24(result) and fresh(result)"
            " and same_zone(result, timepoint)) if result is not None else True" % op,
            "unchanged(self)", "unchanged(timepoint)"]) for k in KINDS])


step_contract("get_next", 1)
step_contract("get_prev", -1)


# ---------------------------------------------------------------- __iter__ (C12)
def _iter_ghost_init(E, st, env):
    st.ghost["ycount"] = 0
    st.ghost["ygj"] = z3.Real("ygj0")


def _iter_on_yield(E, st, env, v):
    from .calendar_t1 import S
    (s_, inst), = E.call_spec(E.spec_funcs["instant"], [v], {}, st)
    c = st.ghost["ycount"]
    gj = E.ghost_consts["gj"]
    cz = c if z3.is_expr(c) else z3.IntVal(c)
    st.ghost["ygj"] = z3.If(cz == gj, inst, st.ghost["ygj"])
    st.ghost["ycount"] = c + 1


def _iter_havoc(E, st, env, tag):
    E.fresh_n += 1
    st.ghost["ycount"] = z3.Int("ycount!%d" % E.fresh_n)
    st.ghost["ygj"] = z3.Real("ygj!%d" % E.fresh_n)
    if isinstance(env.get("point"), Ref):
        env["point"] = fresh_timepoint_like(E, st, env["point"], "itp")
        st.obj(env["point"]).fresh = False


_ANCHOR = "(self._start_point if self._start_point is not None else self._end_point)"
ITER_INV = [
    "ycount >= 0",
    "normal24(point) and same_zone(point, %s)" % _ANCHOR,
    "instant(point) == rec_member_instant(self, ycount)",
    "implies(0 <= gj and gj < ycount, ygj == rec_member_instant(self, gj))",
    "(ycount <= self._repetitions - 1) if self._repetitions is not None else True",
]
ITER_POST_COMMON = [
    "implies(0 <= gj and gj < ycount, ygj == rec_member_instant(self, gj))",
    "unchanged(self)"]
contract(
    "data:TimeRecurrence.__iter__", use_at_calls=False,
    ghosts={"gj": "int"}, ghost_init=_iter_ghost_init, on_yield=_iter_on_yield,
    requires=["rec_ok(self)", "self._min_point is None and self._max_point is None"],
    loops={0: LoopSpec(invariant=ITER_INV, havoc=_iter_havoc)},
    cases=[
        Case("fwd-bounded", rec_case("fwd-bounded"),
             ensures=ITER_POST_COMMON + ["ycount == self._repetitions"]),
        Case("single", rec_case("single"), ensures=ITER_POST_COMMON + ["ycount == 1"]),
        Case("fwd-unbounded", rec_case("fwd-unbounded"), expect_no_exit=True),
        Case("rev-unbounded", rec_case("rev-unbounded"), expect_no_exit=True),
    ],
    note="ghost yield counter `ycount` and the instant `ygj` of the gj-th yielded point "
         "for a universally quantified index gj: the k-th point is anchor +- k*interval; a "
         "bounded series yields exactly n points; an unbounded one never stops")


# ---------------------------------------------------------------- get_first_after (C13)
def gfa_result(E, st, env):
    raise OutOfReach("get_first_after is verified, not used as a callee")


_A = "instant(self._start_point)"
_Ld = "dlen(self._duration)"
_WHOLEREQ = ["rec_ok(self)", "normal24(timepoint)",
             "self._min_point is None and self._max_point is None"]
contract(
    "data:TimeRecurrence.get_first_after", use_at_calls=False,
    requires=_WHOLEREQ,
    cases=[
        Case(k, rec_case(k, lambda E, st: {"timepoint": mk_timepoint(
            E, st, "timepoint", "ord", "hms", whole=True)}, whole=True, dform="exact-whole"),
             requires=[],
             ensures=[
                 # None exactly when no member is later than the probe
                 "(result is None) == (self._end_point is not None and"
                 " instant(timepoint) >= instant(self._end_point))",
                 # before the series: the first member
                 "implies(instant(timepoint) < %s, result is self._start_point)" % _A,
                 # otherwise: a member, strictly later, and the earliest such
                 "implies(instant(timepoint) >= %s," % _A +
                 " instant(result) > instant(timepoint)"
                 " and instant(result) - %s <= instant(timepoint)"
                 " and instant(result) == %s + (local('iterations') + 1) * %s"
                 " and rec_in_bounds(self, result))"
                 " if result is not None else True" % (_Ld, _A, _Ld),
                 "unchanged(self)", "unchanged(timepoint)"])
        for k in ("fwd-bounded", "fwd-unbounded")] + [
        Case("single", rec_case("single", tp_arg("timepoint")),
             ensures=["(result is None) == (instant(timepoint) >= %s)" % _A,
                      "implies(instant(timepoint) < %s, result is self._start_point)" % _A])],
    loops={0: LoopSpec(invariant=["current is None or True"])},
    cuts=[("next_timepoint = ", [
        "use_lemma('mul.mono', a=int(iterations) + 1, b=self._repetitions - 1,"
        " L=dlen(self._duration)) if self._repetitions is not None else True",
        "use_lemma('mul.mono', a=int(iterations), b=self._repetitions - 1,"
        " L=dlen(self._duration)) if self._repetitions is not None else True"])],
    note="recurrences with a start point, exact interval, whole-second probe, interval and "
         "anchor: earliest member strictly later than the probe, the start when the probe "
         "precedes the series, None when no later member exists")


# ---------------------------------------------------------------- __init__ per notation (C12)
def _init_case(name, given, requires, ensures, raises=None):
    def build(E, st):
        ci = E.db.class_by_name["TimeRecurrence"]
        d = {"self": st.alloc("obj", ci, fresh=True)}
        for k, v in given.items():
            if v == "int":
                d[k] = E.sym_int(k)
            elif v == "tp":
                d[k] = mk_timepoint(E, st, k, "cal", "hms")
            elif v == "tp2":
                d[k] = mk_timepoint(E, st, k, "ord", "hm")
            elif v == "dur":
                d[k] = mk_duration(E, st, k, "exact")
            elif v == "week":
                d[k] = mk_duration(E, st, k, "week")
            else:
                d[k] = v
        return d
    return Case(name, build, requires=requires, ensures=ensures, raises=raises or [],
                witness={"p:repetitions": -1 if "zero-rep" in name else 3}
                if given.get("repetitions") == "int" else {})


_NS = "normal24(start_point)"
_NE = "normal24(end_point)"
_DPOS = "dlen(duration) > 0"
INIT_CASES = [
    _init_case("fmt3-bounded", {"repetitions": "int", "start_point": "tp", "duration": "dur"},
               [_NS, _DPOS, "repetitions >= 2"],
               ["self._format_number == 3 and self._repetitions == repetitions",
                "self._start_point is start_point and self._duration is duration",
                "instant(self._end_point) == instant(start_point)"
                " + (repetitions - 1) * dlen(duration)",
                "normal24(self._end_point) and rec_ok(self)"]),
    _init_case("fmt3-unbounded", {"start_point": "tp", "duration": "dur"}, [_NS, _DPOS],
               ["self._format_number == 3 and self._repetitions is None"
                " and self._end_point is None and self._start_point is start_point"
                " and self._duration is duration and rec_ok(self)"]),
    _init_case("fmt3-one", {"repetitions": 1, "start_point": "tp", "duration": "dur"},
               [_NS, "dlen(duration) >= 0"],
               ["self._repetitions == 1 and self._duration is None"
                " and self._start_point is start_point and self._end_point is start_point"
                " and rec_ok(self)"]),
    _init_case("fmt3-zero-interval", {"start_point": "tp", "duration": "dur"},
               [_NS, "dlen(duration) == 0"],
               ["self._repetitions == 1 and self._duration is None"
                " and self._end_point is start_point and rec_ok(self)"]),
    _init_case("fmt4-bounded", {"repetitions": "int", "end_point": "tp", "duration": "dur"},
               [_NE, _DPOS, "repetitions >= 2"],
               ["self._format_number == 4 and self._repetitions == repetitions",
                "self._end_point is end_point and self._duration is duration",
                "instant(self._start_point) == instant(end_point)"
                " - (repetitions - 1) * dlen(duration)",
                "normal24(self._start_point) and rec_ok(self)"]),
    _init_case("fmt4-unbounded", {"end_point": "tp", "duration": "dur"}, [_NE, _DPOS],
               ["self._format_number == 4 and self._start_point is None"
                " and self._end_point is end_point and rec_ok(self)"]),
    _init_case("fmt4-one", {"repetitions": 1, "end_point": "tp", "duration": "dur"},
               [_NE, "dlen(duration) >= 0"],
               ["self._repetitions == 1 and self._duration is None"
                " and self._start_point is end_point and self._end_point is end_point"
                " and rec_ok(self)"]),
    _init_case("fmt1-bounded", {"repetitions": "int", "start_point": "tp", "end_point": "tp2"},
               [_NS, _NE, "instant(end_point) > instant(start_point)", "repetitions >= 2"],
               ["self._format_number == 1 and self._repetitions == repetitions",
                "self._start_point is start_point and self._second_point is end_point",
                "d_exact(self._duration) and dlen(self._duration)"
                " == instant(end_point) - instant(start_point)",
                "instant(self._end_point) == instant(start_point)"
                " + (repetitions - 1) * (instant(end_point) - instant(start_point))",
                "rec_ok(self)"]),
    _init_case("fmt1-unbounded", {"start_point": "tp", "end_point": "tp2"},
               [_NS, _NE, "instant(end_point) > instant(start_point)"],
               ["self._format_number == 1 and self._repetitions is None"
                " and self._end_point is None and self._second_point is end_point"
                " and dlen(self._duration) == instant(end_point) - instant(start_point)"
                " and rec_ok(self)"]),
    _init_case("fmt1-same-point", {"start_point": "tp", "end_point": "tp2"},
               [_NS, _NE, "instant(end_point) == instant(start_point)"],
               ["self._repetitions == 1 and self._duration is None"
                " and self._start_point is start_point and self._end_point is end_point"]),
    _init_case("bad-zero-repetitions", {"repetitions": "int", "start_point": "tp",
                                        "duration": "dur"},
               [_NS, "repetitions <= 0"], [], raises=[("BadInputError", "True")]),
    _init_case("bad-negative-interval", {"start_point": "tp", "duration": "dur"},
               [_NS, "rough_len(duration) < 0"], [], raises=[("BadInputError", "True")]),
    _init_case("bad-reversed-points", {"start_point": "tp", "end_point": "tp2"},
               [_NS, _NE, "instant(end_point) < instant(start_point)"], [],
               raises=[("BadInputError", "True")]),
    _init_case("bad-nothing", {"duration": "dur"}, [_DPOS], [],
               raises=[("BadInputError", "True")]),
]
contract("data:TimeRecurrence.__init__", use_at_calls=False, cases=INIT_CASES,
         note="per notation: the derived end/start point is the anchor +- (n-1) intervals; "
              "one repetition or a zero interval gives the single-point form; the "
              "documented bad inputs are refused")

from . import REGISTRY as _REG  # noqa
for _k, _c in _REG.items():
    if _k.startswith("data:TimeRecurrence."):
        for _case in _c.cases:
            if "fwd-bounded" in _case.name and not _case.witness:
                _case.witness = dict(REC_WITNESS)


# ---------------------------------------------------------------- iteration as a callee
def iter_sequence(E, st, env):
    """The sequence __iter__ yields, as proved above: n points (n = repetitions, or
    infinitely many), the k-th with instant rec_member_instant(self, k), normal, in
    the anchor's zone and shape."""
    r = st.obj(env["self"])
    anchor = r.slots["_start_point"] if r.slots["_start_point"] is not None \
        else r.slots["_end_point"]
    reps = r.slots["_repetitions"]
    self_ref = env["self"]

    def elem(k, s):
        p = fresh_timepoint_like(E, s, anchor, "iter")
        s.obj(p).fresh = False
        for txt in ("normal24(p)", "time_normal(p)", "same_zone(p, a)",
                    "instant(p) == rec_member_instant(r, k)",
                    "rec_in_bounds(r, p)"):
            (s_, v) = E.ev1(E.parse(txt), {"p": p, "a": anchor, "r": self_ref, "k": k,
                                           "__module__": "data"}, s)
            (s_, b), = E.truth(v, s)
            s.assume(b)
        return p
    q = SeqC(reps, elem, "TimeRecurrence.__iter__")
    q.with_state = True
    return q


_REG["data:TimeRecurrence.__iter__"].sequence = iter_sequence

# ---------------------------------------------------------------- __getitem__ / get_is_valid
contract(
    "data:TimeRecurrence.__getitem__", use_at_calls=False,
    requires=["rec_ok(self)", "self._min_point is None and self._max_point is None"],
    loops={0: LoopSpec(invariant=["index > i - 1", "index >= 0"])},
    cases=[Case(k, rec_case(k, lambda E, st: {"index": E.sym_int("index")}),
                raises=[("IndexError", "index < 0 or (self._repetitions is not None"
                                       " and index >= self._repetitions)")],
                ensures=["instant(result) == rec_member_instant(self, index)",
                         "normal24(result)", "unchanged(self)"])
           for k in KINDS])

_DELTA = "(instant(timepoint) - rec_anchor_instant(self))"
contract(
    "data:TimeRecurrence.get_is_valid", use_at_calls=False,
    ghosts={"gk": "int"},
    requires=["rec_ok(self)", "normal24(timepoint)",
              "self._min_point is None and self._max_point is None"],
    loops={0: LoopSpec(invariant=[
        # no earlier member equals the probe; the probe is not yet passed
        "implies(0 <= gk and gk < i, rec_member_instant(self, gk) != instant(timepoint))",
        "(rec_member_instant(self, i) <= instant(timepoint)) if i == 0 or rec_forward(self)"
        " else True" if False else "True"])},
    cases=[Case(k, rec_case(k, tp_arg("timepoint")),
                ensures=[
                    # completeness: a member at the probe's instant is found
                    "implies(0 <= gk and (self._repetitions is None or gk < self._repetitions)"
                    " and rec_member_instant(self, gk) == instant(timepoint), result)",
                    # soundness: True only at a member (witness: the loop index)
                    "implies(result, 0 <= local('i__loop')"
                    " and rec_member_instant(self, local('i__loop')) == instant(timepoint))",
                    "unchanged(self)", "unchanged(timepoint)"])
           for k in KINDS])


# ---------------------------------------------------------------- values (C14)
def rec_pair(k1, k2):
    def build(E, st):
        return {"self": mk_rec(E, st, "self", k1), "other": mk_rec(E, st, "other", k2,
                                                                  date="ord", time="hm")}
    return build


def _field_eq(a, b):
    return ("((%s is None) == (%s is None)) and (instant(%s) == instant(%s)"
            " if %s is not None and %s is not None else True)" % (a, b, a, b, a, b))


_REC_EQ = (
    "((self._repetitions is None) == (other._repetitions is None))"
    " and (self._repetitions == other._repetitions"
    "      if self._repetitions is not None and other._repetitions is not None else True)"
    " and " + _field_eq("self._start_point", "other._start_point") +
    " and " + _field_eq("self._end_point", "other._end_point") +
    " and ((self._duration is None) == (other._duration is None))"
    " and (dlen(self._duration) == dlen(other._duration)"
    "      if self._duration is not None and other._duration is not None else True)")
contract(
    "data:TimeRecurrence.__eq__", use_at_calls=False,
    requires=["rec_ok(self)", "rec_ok(other)",
              "self._min_point is None and self._max_point is None"
              " and other._min_point is None and other._max_point is None"],
    cases=[Case("%s/%s" % (a, b), rec_pair(a, b), ensures=["result == (%s)" % _REC_EQ])
           for a in KINDS for b in KINDS],
    note="equal <=> repetitions, start, end (by instant) and interval (by length) agree")

contract(
    "data:TimeRecurrence.__hash__", use_at_calls=False,
    requires=["rec_ok(self)"],
    cases=[Case(k, rec_case(k), ensures=["unchanged(self)"]) for k in KINDS])


def rec_add_case(kind, dform):
    def build(E, st):
        return {"self": mk_rec(E, st, "self", kind),
                "other": mk_duration(E, st, "other", dform)}
    return build


_SHIFT = [
    "classname(result) == 'TimeRecurrence' and fresh(result)",
    "(result._repetitions is None) == (self._repetitions is None)",
    "(result._repetitions == self._repetitions) if self._repetitions is not None else True",
    "(result._start_point is None) == (self._start_point is None)",
    "(instant(result._start_point) == instant(self._start_point) + dlen(other))"
    " if self._start_point is not None else True",
    "(result._end_point is None) == (self._end_point is None)",
    "(instant(result._end_point) == instant(self._end_point) + dlen(other))"
    " if self._end_point is not None else True",
    "(result._duration is None) == (self._duration is None)",
    "(dlen(result._duration) == dlen(self._duration) and d_exact(result._duration))"
    " if self._duration is not None else True",
    "unchanged(self)", "unchanged(other)"]
contract(
    "data:TimeRecurrence.__add__", use_at_calls=False,
    requires=["rec_ok(self)", "self._min_point is None and self._max_point is None",
              "not (dlen(other) == 0)"],
    cases=[Case("%s+%s" % (k, f), rec_add_case(k, f), ensures=_SHIFT)
           for k in KINDS for f in ("exact", "week")],
    note="same repetitions and interval, every anchor moved by the exact duration - for "
         "every notation incl. single-point recurrences")
