"""T5 - DateTimeOperator plumbing (C19): which library operations the command-line
operations are COMPOSED of, in which order.

The building blocks (date_parse, date_shift, date_diff, date_format, strftime, ...) are
taken as UNINTERPRETED functions here: each returns a term ("name", args...) built from
its arguments - what each one computes is the business of C01/C04/C05/C07/C08/C17.  What
is proved is the composition: process_time_point_str = format(fmt, shift(... shift(
parse(s), o1) ..., ok)) with the offsets applied ONE AT A TIME IN THE ORDER GIVEN and the
notation the argument was written in kept unless a print format is given;
diff_time_point_strs = diff(first shifted by its offsets, second shifted by its offsets),
formatted, --as-total taken of that same text.  Argument texts are distinct opaque string
constants; the offset list has a concrete length per case (0..3)."""
from . import contract, Case


def _op(E, st):
    ci = E.db.class_by_name["DateTimeOperator"]
    return st.alloc("obj", ci, fresh=False)


for (name, ret) in (
        ("date_parse", "(('point', time_point_str), ('notation', time_point_str))"),
        ("date_shift", "('shift', time_point, offset) if offset else time_point"),
        ("date_format", "('format', print_format, time_point)"),
        ("date_diff", "(('diff', time_point_1, time_point_2),"
                      " ('sign', time_point_1, time_point_2))"),
        ("date_diff_format", "('diff_format', print_format, duration, sign)"),
        ("format_duration_str", "('total', duration_str, duration_print_format)")):
    contract("datetimeoper:DateTimeOperator.abstract." + name, returns=ret,
             note="uninterpreted stand-in for DateTimeOperator.%s while the composition of "
                  "the operations is verified" % name)

_ABSTRACT = ["date_parse", "date_shift", "date_format", "date_diff", "date_diff_format",
             "format_duration_str"]


def _shifted(base, offs):
    t = base
    for o in offs:
        t = "('shift', %s, %r)" % (t, o)
    return t


def _ptp_cases():
    out = []
    for k in range(4):
        offs = ["<offset-%d>" % (i + 1) for i in range(k)]
        for pf in (None, "<print-format>"):
            for offarg in ([offs] if k else [None, []]):
                def build(E, st, offarg=offarg, pf=pf):
                    return {"self": _op(E, st), "time_point_str": "<date-time>",
                            "offsets": None if offarg is None else tuple(offarg),
                            "print_format": pf}
                want = "('format', %s, %s)" % (
                    repr(pf) if pf else "('notation', '<date-time>')",
                    _shifted("('point', '<date-time>')", offs))
                out.append(Case("%d-offsets%s%s" % (k, "+format" if pf else "",
                                                    "" if k or offarg is None else "-empty"),
                                build, ensures=["result == %s" % want]))
    return out


contract("datetimeoper:DateTimeOperator.process_time_point_str", use_at_calls=False,
         abstract_calls=_ABSTRACT, cases=_ptp_cases(),
         note="one date-time argument: parsed once, every offset applied by its own "
              "date_shift in the order given, printed in the notation it was written in "
              "unless a print format is given")


def _diff_cases():
    out = []
    for (k1, k2) in ((0, 0), (1, 0), (0, 2), (2, 1)):
        o1 = ["<offset1-%d>" % (i + 1) for i in range(k1)]
        o2 = ["<offset2-%d>" % (i + 1) for i in range(k2)]
        for (pf, total) in ((None, None), ("<print-format>", None), (None, "<unit>")):
            def build(E, st, o1=o1, o2=o2, pf=pf, total=total):
                return {"self": _op(E, st), "time_point_str1": "<first>",
                        "time_point_str2": "<second>", "offsets1": tuple(o1) or None,
                        "offsets2": tuple(o2) or None, "print_format": pf,
                        "duration_print_format": total}
            a = _shifted("('point', '<first>')", o1)
            b = _shifted("('point', '<second>')", o2)
            txt = "('diff_format', %r, ('diff', %s, %s), ('sign', %s, %s))" % (pf, a, b, a, b)
            want = "('total', %s, %r)" % (txt, total) if total else txt
            out.append(Case("%d/%d-offsets%s%s" % (k1, k2, "+format" if pf else "",
                                                   "+total" if total else ""),
                            build, ensures=["result == %s" % want]))
    return out


contract("datetimeoper:DateTimeOperator.diff_time_point_strs", use_at_calls=False,
         abstract_calls=_ABSTRACT, cases=_diff_cases(),
         note="two date-time arguments: each parsed and shifted by its own offsets in "
              "order, ONE date_diff of (first, second) in that order, its duration and "
              "sign formatted together; --as-total is taken of that same text")


# ---------------------------------------------------------------- TimePoint.strftime (C17)
# TimePoint.strftime(fmt) / str(p, strftime_format=fmt) DELEGATE to TimePointDumper.strftime
# of the dumper for p's expanded-year digits - the function whose behaviour C17 proves - and
# not to dump(), whose template syntax and ValueError fallback would silently mis-render
# unsupported directives.  The two dumper methods are uninterpreted here.
for (name, ret) in (("strftime", "('dumper.strftime', timepoint, formatting_string)"),
                    ("dump", "('dumper.dump', timepoint, formatting_string)")):
    contract("dumpers:TimePointDumper.abstract." + name, returns=ret,
             note="uninterpreted stand-in while the delegation of TimePoint.strftime is verified")


def _sf_case(d, ned):
    def build(E, st):
        from .shapes import mk_timepoint
        return {"self": mk_timepoint(E, st, "self", d, "hms", ned=ned),
                "strftime_format": "<strftime-format>"}
    return build


contract("data:TimePoint.strftime", use_at_calls=False, abstract_calls=["strftime", "dump"],
         cases=[Case("%s-x%d" % (d, ned), _sf_case(d, ned), ensures=[
             "result[0] == 'dumper.strftime' and result[1] is self"
             " and result[2] == '<strftime-format>'"])
             for d in ("cal", "ord", "week") for ned in (0, 2)],
         note="TimePoint.strftime hands the point and the format, unchanged, to "
              "TimePointDumper.strftime (never to dump)")
