"""Sidecar contracts for metomi/isodatetime (repository files untouched).

Each module registers Contract objects into REGISTRY, keyed
"module:qualname".  Clauses are Python expression texts evaluated by the same
evaluator that executes the code under verification, over the parameters,
`result`, `old(...)`, `entry(...)` and the spec functions of /verif/spec.
"""
from pyvc.engine import Contract, Case, LoopSpec
import z3

REGISTRY = {}


def contract(key, **kw):
    c = Contract(key, **kw)
    REGISTRY[key] = c
    return c


def ints(*names):
    """Case builder: the named parameters are unconstrained integers."""
    def build(E, st):
        return {n: E.sym_int(n) for n in names}
    return build


def res_ints(k, tag):
    """Result builder: a tuple of k fresh integers."""
    def mk(E, st, env):
        E.fresh_n += 1
        return tuple(z3.Int("%s%d!%d" % (tag, i, E.fresh_n)) for i in range(k))
    return mk


def res_int(tag):
    def mk(E, st, env):
        E.fresh_n += 1
        return z3.Int("%s!%d" % (tag, E.fresh_n))
    return mk


ENGINE_HOOKS = []


def load_all():
    from . import calendar_t1   # noqa
    from . import lemmas_cal    # noqa
    import importlib
    for m in ("timezone_t1", "duration_t2", "timepoint_t2", "recurrence_t3",
              "ctor_t2", "parser_t4", "dumper_t4", "durtext_t4", "parsetext_t4", "ghost",
              "cli_t5"):
        try:
            importlib.import_module("contracts." + m)
        except ModuleNotFoundError as e:
            if ("contracts." + m) not in str(e):
                raise
    return REGISTRY


LEMMAS = {}


def lemma(name, vars, goal, assumes=None, modes=None, note=""):
    from pyvc.lemmas import Lemma
    LEMMAS[name] = Lemma(name, vars, goal, assumes, modes, note)
    return LEMMAS[name]
