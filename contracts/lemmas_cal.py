"""Lemmas about the spec vocabulary itself (DESIGN 2.5, 3.1).

Those named `opaque.*` justify the lemma instances the engine assumes when a
contract declares `opaque=["dby"]` (pyvc/engine.py attach_opaque_facts)."""
from . import lemma

lemma("opaque.dby.step", {"t": "int"},
      "dby(t + 1) == dby(t) + diy(t)",
      note="instantiated for every argument of an opaque dby")
lemma("opaque.dby.range", {"a": "int", "b": "int"},
      "SUM * (b - a) <= dby(b) - dby(a) and dby(b) - dby(a) <= SUML * (b - a)",
      assumes=["a < b"],
      note="instantiated for every pair of arguments of an opaque dby")
lemma("leap.period400", {"y": "int"}, "leap(y + 400) == leap(y)")
lemma("dby.period400", {"y": "int"},
      "dby(y + 400) == dby(y) + 400 * SUM + 97 * (SUML - SUM)")
lemma("ord_md.inverse", {"y": "int", "n": "int"},
      "ord_of(y, md_of(y, n)[0], md_of(y, n)[1]) == n"
      " and valid_cal(y, md_of(y, n)[0], md_of(y, n)[1])",
      assumes=["valid_ord(y, n)"])
lemma("md_ord.inverse", {"y": "int", "m": "int", "d": "int"},
      "md_of(y, ord_of(y, m, d)) == (m, d) and valid_ord(y, ord_of(y, m, d))",
      assumes=["valid_cal(y, m, d)"])
lemma("diy.is.sum.of.months", {"y": "int"}, "cum(y, 13) == diy(y)")
lemma("wstart.is.monday.near.jan4", {"y": "int"},
      "wd(wstart(y)) == 1 and absday(y, 4) - 6 <= wstart(y)"
      " and wstart(y) <= absday(y, 4)")
lemma("wiy.range", {"y": "int"},
      "wiy(y) * 7 == wstart(y + 1) - wstart(y)"
      " and (wiy(y) == 52 or wiy(y) == 53 if MODE != '360day'"
      "      else wiy(y) == 51 or wiy(y) == 52)")
lemma("week.roundtrip", {"y": "int", "w": "int", "d": "int"},
      "week_of(y, week_abs(y, w, d)) == (y, w, d)"
      " or week_of(y - 1, week_abs(y, w, d)) == (y, w, d)"
      " or week_of(y + 1, week_abs(y, w, d)) == (y, w, d)",
      assumes=["valid_week(y, w, d)"],
      note="the calendar year of a week date lies in {wy-1, wy, wy+1}")
lemma("week_of.valid", {"y": "int", "n": "int"},
      "valid_week(week_of(y, absday(y, n))[0], week_of(y, absday(y, n))[1],"
      "           week_of(y, absday(y, n))[2])"
      " and week_abs(week_of(y, absday(y, n))[0], week_of(y, absday(y, n))[1],"
      "              week_of(y, absday(y, n))[2]) == absday(y, n)",
      assumes=["valid_ord(y, n)"],
      note="week_of is total on valid dates and inverse to week_abs")
lemma("weekday.continuity", {"a": "int"},
      "wd(a + 1) == (1 if wd(a) == 7 else wd(a) + 1)",
      note="weekdays run continuously through every day number incl. year 0")

# canaries: deliberately FALSE statements that the pipeline must refute
lemma("canary.dby.step.wrong", {"t": "int"}, "dby(t + 1) == dby(t) + SUM",
      modes=["gregorian"], note="false in gregorian: must be refuted")
lemma("canary.week52", {"y": "int"}, "wiy(y) == 52",
      modes=["gregorian"], note="false: some years have 53 weeks")

lemma("cal.key.order", {"y1": "int", "m1": "int", "d1": "int",
                        "y2": "int", "m2": "int", "d2": "int"},
      "(((y1, m1, d1) == (y2, m2, d2)) == (cal_abs(y1, m1, d1) == cal_abs(y2, m2, d2)))"
      " and (((y1, m1, d1) < (y2, m2, d2)) == (cal_abs(y1, m1, d1) < cal_abs(y2, m2, d2)))",
      assumes=["valid_cal(y1, m1, d1)", "valid_cal(y2, m2, d2)"],
      note="lexicographic order of valid calendar dates is the order of day numbers")
lemma("ord.key.order", {"y1": "int", "n1": "int", "y2": "int", "n2": "int"},
      "(((y1, n1) == (y2, n2)) == (absday(y1, n1) == absday(y2, n2)))"
      " and (((y1, n1) < (y2, n2)) == (absday(y1, n1) < absday(y2, n2)))",
      assumes=["valid_ord(y1, n1)", "valid_ord(y2, n2)"],
      note="lexicographic order of valid ordinal dates is the order of day numbers")

lemma("week.key.order", {"y1": "int", "w1": "int", "d1": "int",
                         "y2": "int", "w2": "int", "d2": "int"},
      "(((y1, w1, d1) == (y2, w2, d2)) == (week_abs(y1, w1, d1) == week_abs(y2, w2, d2)))"
      " and (((y1, w1, d1) < (y2, w2, d2)) == (week_abs(y1, w1, d1) < week_abs(y2, w2, d2)))",
      assumes=["valid_week(y1, w1, d1)", "valid_week(y2, w2, d2)"],
      note="lexicographic order of valid ISO week dates is the order of day numbers")

lemma("day.split.unique", {"a1": "int", "r1": "real", "a2": "int", "r2": "real"},
      "a1 == a2 and r1 == r2",
      assumes=["0 <= r1 and r1 < 86400", "0 <= r2 and r2 < 86400",
               "86400 * a1 + r1 == 86400 * a2 + r2"],
      note="day number and second-of-day are determined by the instant")
lemma("hms.split.unique", {"h1": "int", "i1": "int", "s1": "real",
                           "h2": "int", "i2": "int", "s2": "real"},
      "h1 == h2 and i1 == i2 and s1 == s2",
      assumes=["0 <= i1 and i1 < 60 and 0 <= s1 and s1 < 60",
               "0 <= i2 and i2 < 60 and 0 <= s2 and s2 < 60",
               "3600 * h1 + 60 * i1 + s1 == 3600 * h2 + 60 * i2 + s2"],
      note="h, m, s are determined by the second of day")

lemma("day.floor", {"a": "int", "r": "real", "x": "real"},
      "a == fdiv(x, 86400)",
      assumes=["0 <= r and r < 86400", "86400 * a + r == x"],
      note="whole days carried = floor(seconds / 86400)")

lemma("day.floor.int", {"a": "int", "r": "int", "x": "int"},
      "a == x // 86400 and r == x - 86400 * (x // 86400)",
      assumes=["0 <= r and r < 86400", "86400 * a + r == x"])

lemma("mul.mono", {"a": "int", "b": "int", "L": "real"},
      "((a * L > b * L) == (a > b)) and ((a * L == b * L) == (a == b))",
      assumes=["L > 0"], modes=["gregorian"],
      note="multiplication by a positive interval length is strictly monotone")
