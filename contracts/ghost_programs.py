"""Ghost programs: lemmas over CONTRACTS (DESIGN 2.5).

Each function below is symbolically executed by the engine like code under
verification, but every call into the library goes through the callee's
contract (never its body), so an `assert` here is an obligation that follows
from the contracts alone.  `assume(...)` restricts the inputs.  These functions
are never run natively; they are parsed from this file.
"""
# flake8: noqa


def order_laws(a, b):
    lt = a < b
    eq = a == b
    gt = a > b
    assert (lt and not eq and not gt) or (not lt and eq and not gt) or \
        (not lt and not eq and gt)                      # trichotomy
    assert (b == a) == eq                               # == symmetric
    assert (a != b) == (not eq)                         # != complementary
    assert (b != a) == (not eq)
    assert (a <= b) == (lt or eq)                       # unions
    assert (a >= b) == (gt or eq)
    assert (b > a) == lt and (b < a) == gt              # converse


def order_transitive(a, b, c):
    if a <= b and b <= c:
        assert a <= c
    if a < b and b <= c:
        assert a < c
    if a == b and b == c:
        assert a == c


def hash_lemma(ha, hb):
    x = hash_elems(ha)
    y = hash_elems(hb)
    use_lemma('day.split.unique',
              a1=cal_abs(x[0], x[1], x[2]), r1=3600 * x[3] + 60 * x[4] + x[5],
              a2=cal_abs(y[0], y[1], y[2]), r2=3600 * y[3] + 60 * y[4] + y[5])
    use_lemma('cal.key.order', y1=x[0], m1=x[1], d1=x[2], y2=y[0], m2=y[1], d2=y[2])
    use_lemma('hms.split.unique', h1=int(x[3]), i1=int(x[4]), s1=x[5],
              h2=int(y[3]), i2=int(y[4]), s2=y[5])


def equal_implies_equal_hash(a, b):
    if a == b:
        ha = hash(a)
        hb = hash(b)
        hash_lemma(ha, hb)
        assert ha == hb


def difference_sign_agrees(a, b):
    d = a - b
    assert (a > b) == (dlen(d) > 0)
    assert (a == b) == (dlen(d) == 0)
    assert (a < b) == (dlen(d) < 0)


def sub_antisymmetric(a, b):
    assert (a - b) == -1 * (b - a)


def add_then_sub(p, d):
    assume(d_exact(d))
    assume(not (p._hour_of_day == 24 and dlen(d) == 0))
    q = p + d
    assert (q - p) == d


def sub_then_add(a, b):
    d = a - b
    r = b + d
    assert r == a


def rezone_preserves(p, z):
    q = p.to_time_zone(z)
    assert q == p
    assert p == q
    hq = hash(q)
    hp = hash(p)
    hash_lemma(hq, hp)
    assert hq == hp
    assert dlen(q - p) == 0
    assert q.time_zone is z


def rezone_utc_preserves(p):
    q = p.to_utc()
    hq = hash(q)
    hp = hash(p)
    hash_lemma(hq, hp)
    assert q == p and hq == hp and dlen(q - p) == 0


def single_month_step(p):
    q = p.add_months(1)
    runmin_def(midx(p), p._day_of_month, 0, 1)
    assert midx(q) == midx(p) + 1
    assert q._day_of_month == min(p._day_of_month, dim_idx(midx(p) + 1))
    r = p.add_months(-1)
    runmin_def(midx(p), p._day_of_month, 0, -1)
    assert midx(r) == midx(p) - 1
    assert r._day_of_month == min(p._day_of_month, dim_idx(midx(p) - 1))


def months_compose(p, n):
    assume(n >= 1)
    a = p.add_months(n + 1)
    b1 = p.add_months(n)
    b = b1.add_months(1)
    runmin_def(midx(p), p._day_of_month, n, 1)
    runmin_def(midx(b1), b1._day_of_month, 0, 1)
    assert midx(a) == midx(b) and a._day_of_month == b._day_of_month
    assert a == b
    c = p.add_months(-n - 1)
    e1 = p.add_months(-n)
    e = e1.add_months(-1)
    runmin_def(midx(p), p._day_of_month, n, -1)
    runmin_def(midx(e1), e1._day_of_month, 0, -1)
    assert midx(c) == midx(e) and c._day_of_month == e._day_of_month


def months_via_add(p, d):
    assume(months_only(d) and d._months != 0)
    q = p + d
    r = p.add_months(d._months)
    assert midx(q) == midx(r)


def leap_day_plus_year(p):
    assume(p._month_of_year == 2 and p._day_of_month == 29)
    q = p + Duration(years=1)
    assert q._month_of_year == 2 and q._day_of_month == dim(p._year + 1, 2)


# ---------------------------------------------------------------- Duration algebra (C11)
def dur_add_commutes(a, b):
    x = a + b
    y = b + a
    assert x == y
    assert hash(x) == hash(y)
    assert d_years(x) == d_years(y) and d_months(x) == d_months(y) and dlen(x) == dlen(y)


def dur_add_associative(a, b, c):
    x = (a + b) + c
    y = a + (b + c)
    assert x == y and dlen(x) == dlen(y) and d_years(x) == d_years(y) \
        and d_months(x) == d_months(y)


def dur_identity_and_inverse(a):
    z = Duration()
    assert (a + z) == a and (z + a) == a
    n = a + (-1 * a)
    assert dlen(n) == 0 and d_years(n) == 0 and d_months(n) == 0
    assert n == z
    assert (a - a) == z


def dur_mul_is_repeated_addition(a, n):
    assert ((n + 1) * a) == ((n * a) + a)
    assert (0 * a) == Duration()
    assert (1 * a) == a
    assert (a * n) == (n * a)


def dur_sub_is_add_negation(a, b):
    assert (a - b) == (a + (-1 * b))


def dur_exact_equal_by_length(a, b):
    assume(d_exact(a) and d_exact(b))
    assert (a == b) == (dlen(a) == dlen(b))
    if a == b:
        assert hash(a) == hash(b)
        assert not (a < b) and not (a > b) and a <= b and a >= b


def dur_equal_implies_equal_hash(a, b):
    if a == b:
        assert hash(a) == hash(b)
    assert (a == b) == (b == a)
    assert (a != b) == (not (a == b))


def dur_order_consistent(a, b):
    lt = a < b
    le = a <= b
    gt = a > b
    ge = a >= b
    assert lt == (b > a) and le == (b >= a)
    assert not (lt and gt)
    assert le == (not gt) and ge == (not lt)
    assert lt == (le and not ge)
    assert (le and ge) == (rough_len(a) == rough_len(b))
    assert lt == (rough_len(a) < rough_len(b))


def dur_order_transitive(a, b, c):
    if a <= b and b <= c:
        assert a <= c
    if a < b and b < c:
        assert a < c


def dur_unit_ratios():
    assert Duration(weeks=1) == Duration(days=7)
    assert Duration(days=1) == Duration(hours=24)
    assert Duration(hours=1) == Duration(minutes=60)
    assert Duration(minutes=1) == Duration(seconds=60)
    assert hash(Duration(weeks=2)) == hash(Duration(days=14))
    assert hash(Duration(days=1)) == hash(Duration(seconds=86400))
    assert Duration(weeks=1) != Duration(days=7, seconds=1)
    assert Duration(years=1) != Duration(days=365)
    assert Duration(years=1) >= Duration(days=CALENDAR.DAYS_IN_YEAR) \
        and Duration(years=1) <= Duration(days=CALENDAR.DAYS_IN_YEAR)
    assert Duration(months=1) >= Duration(days=30) and Duration(months=1) <= Duration(days=30)


# ---------------------------------------------------------------- truncated addition (C20)
def truncated_commutes_and_idempotent(t, p):
    r1 = t + p
    r2 = p + t
    assert instant(r1) == instant(r2) and same_zone(r1, r2)
    r3 = t + r1
    assert instant(r3) == instant(r1)


# ---------------------------------------------------------------- recurrences (C12, C14)
def rec_three_notations_equal(s, d, n):
    assume(n >= 2 and dlen(d) > 0)
    r3 = TimeRecurrence(repetitions=n, start_point=s, duration=d)
    r1 = TimeRecurrence(repetitions=n, start_point=s, end_point=s + d)
    r4 = TimeRecurrence(repetitions=n, end_point=s + d * (n - 1), duration=d)
    assert r3 == r1 and r1 == r3
    assert r3 == r4 and r4 == r3
    assert r1 == r4


def rec_shift_and_back(r, d):
    assume(not (dlen(d) == 0))
    q = (r + d) - d
    assert q == r
    w = d + r
    assert w == (r + d)


def rec_equal_implies_equal_hash(a, b):
    # hash(r) is hash((repetitions, start, end, interval, min, max)): by congruence of
    # tuple hashing it suffices that equal recurrences have component-wise equal hashes
    if a == b:
        assert (a._repetitions is None) == (b._repetitions is None)
        if a._repetitions is not None and b._repetitions is not None:
            assert a._repetitions == b._repetitions
        if a._start_point is not None and b._start_point is not None:
            h1 = hash(a._start_point)
            h2 = hash(b._start_point)
            hash_lemma(h1, h2)
            assert h1 == h2
        if a._end_point is not None and b._end_point is not None:
            h3 = hash(a._end_point)
            h4 = hash(b._end_point)
            hash_lemma(h3, h4)
            assert h3 == h4
        if a._duration is not None and b._duration is not None:
            assert hash(a._duration) == hash(b._duration)


def rec_unequal_when_one_component_differs(a, b):
    if a._repetitions is not None and b._repetitions is not None:
        if a._repetitions != b._repetitions:
            assert a != b
    if a._duration is not None and b._duration is not None:
        if dlen(a._duration) != dlen(b._duration):
            assert a != b
    if a._start_point is not None and b._start_point is not None:
        if instant(a._start_point) != instant(b._start_point):
            assert a != b
    if a._end_point is not None and b._end_point is not None:
        if instant(a._end_point) != instant(b._end_point):
            assert a != b


# ---------------------------------------------------------------- dump fields (C08, C17)
def dump_fields_recompose(p):
    y = p.year
    assert int(p.expanded_year_digits) * 10000 + p.century * 100 + p.year_of_century == abs(y)
    assert 0 <= p.century and p.century <= 99 and 0 <= p.year_of_century \
        and p.year_of_century <= 99
    if y < 0:
        assert p.year_sign == "-"
    else:
        assert p.year_sign == "+"
    s = -1 if p.time_zone_sign == "-" else 1
    assert s * p.time_zone_hour_abs == p.time_zone.hours
    assert s * p.time_zone_minute_abs == p.time_zone.minutes
    assert 0 <= p.time_zone_hour_abs and p.time_zone_hour_abs <= 99
    assert 0 <= p.time_zone_minute_abs and p.time_zone_minute_abs <= 59
    assert p.year_of_decade == abs(y) % 10
    assert p.decade_of_century * 10 + p.year_of_decade == p.year_of_century


def strftime_year_is_civil_year(p):
    # what strftime formats: the calendar form of p (dumpers.TimePointDumper.strftime)
    q = p.to_calendar_date()
    assert q.get_is_calendar_date()
    assert dby(q.year) < date_abs(p) and date_abs(p) <= dby(q.year + 1)
    assert cal_abs(q.year, q.month_of_year, q.day_of_month) == date_abs(p)
    assert q.day_of_year == date_abs(p) - dby(q.year)
    assert instant(q) == instant(p) and same_zone(q, p)


def dur_text_round_trip(d, parser):
    # C10: the REAL str and the REAL parse composed (both executed, not summarised)
    s = str(d)
    q = parser.parse(s)
    assert d_same_fields(q, d)
    assert q == d
    assert hash(q) == hash(d)
    assert str(q) == s


def timepoint_text_round_trip(p, dumper, parser):
    # C08: the REAL str (default dump format, shared dumper) and the REAL parser composed
    s = str(p)
    q = parser.parse(s)
    assert tp_same_fields(q, p)
    assert q == p
    assert str(q) == s


def parse_dump_as_parsed(parser, dumper, text):
    # C07: parsing with dump_as_parsed and converting back to text reproduces the input
    q = parser.parse(text, dump_as_parsed=True)
    assert dumper.dump(q, q._dump_format) == text


def strftime_strptime_round_trip(p, parser, fmt):
    # C17: strptime with the same format recovers an equal TimePoint (full formats)
    s = p.strftime(fmt)
    q = parser.strptime(s, fmt)
    assert q == p
    assert q._time_zone._hours == p._time_zone._hours
    assert q._time_zone._minutes == p._time_zone._minutes


def dump_with_literal_zone(p, dumper, parser, fmt, zh, zm):
    # C06: dumping with a format that spells out a literal zone re-expresses p in that zone
    s = dumper.dump(p, fmt)
    q = parser.parse(s)
    assert q == p          # equal hashes follow by C02's lemma equal_implies_equal_hash
    assert q._time_zone._hours == zh and q._time_zone._minutes == zm
    assert valid_date(q) and time_normal24(q)
    assert is_cal(q) == is_cal(p) and is_ord(q) == is_ord(p) and is_week(q) == is_week(p)


def dump_custom_format(p, dumper, parser, fmt):
    # C08: a custom format with a complete date, the time down to seconds and a zone
    # parses back to an equal instant (whatever representation the format asks for)
    s = dumper.dump(p, fmt)
    q = parser.parse(s)
    assert q == p
    assert valid_date(q) and time_normal24(q)


def rec_text_round_trip(r, rparser):
    # C14: the REAL str(recurrence) and the REAL TimeRecurrenceParser.parse composed
    s = str(r)
    q = rparser.parse(s)
    assert q == r          # equal hashes follow by the lemma rec_equal_implies_equal_hash
    assert str(q) == s
