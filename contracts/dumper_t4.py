"""T4 — strftime through the real dumper code path (C17): integer content of
each directive (what the %(name) conversions print) for symbolic TimePoints."""
import z3
from . import contract, Case
from .shapes import mk_timepoint, DATES


def mk_dumper(E, st, x=0):
    ci = E.db.class_by_name["TimePointDumper"]
    r = st.alloc("obj", ci, fresh=False)
    st.obj(r).slots.update({"num_expanded_year_digits": x, "_timepoint_parser": None,
                            "_time_designator": "T"})
    return r


CIVIL = "(100 * fmt_value(result, 'century') + fmt_value(result, 'year_of_century'))"
IN_Y = "(dby(%s) < date_abs(timepoint) and date_abs(timepoint) <= dby(%s + 1))" % (CIVIL, CIVIL)
YEAR_RAISES = [("TimePointDumperBoundsError",
                "date_abs(timepoint) <= dby(0) or date_abs(timepoint) > dby(10000)")]
SPECS = {
    "%Y": (["fmt_template(result) == '%(century)02d%(year_of_century)02d'", IN_Y,
            "0 <= fmt_value(result, 'century') and fmt_value(result, 'century') <= 99",
            "0 <= fmt_value(result, 'year_of_century')"
            " and fmt_value(result, 'year_of_century') <= 99"], YEAR_RAISES),
    "%Y-%m-%d": ([IN_Y, "fmt_template(result) == '%(century)02d%(year_of_century)02d-"
                        "%(month_of_year)02d-%(day_of_month)02d'",
                  "valid_cal(%s, fmt_value(result, 'month_of_year'),"
                  " fmt_value(result, 'day_of_month'))" % CIVIL,
                  "cal_abs(%s, fmt_value(result, 'month_of_year'),"
                  " fmt_value(result, 'day_of_month')) == date_abs(timepoint)" % CIVIL],
                 YEAR_RAISES),
    "%F": ([IN_Y, "fmt_template(result) == '%(century)02d%(year_of_century)02d-"
                  "%(month_of_year)02d-%(day_of_month)02d'",
            "cal_abs(%s, fmt_value(result, 'month_of_year'),"
            " fmt_value(result, 'day_of_month')) == date_abs(timepoint)" % CIVIL,
            "valid_cal(%s, fmt_value(result, 'month_of_year'),"
            " fmt_value(result, 'day_of_month'))" % CIVIL], YEAR_RAISES),
    "%Y %j": ([IN_Y, "fmt_value(result, 'day_of_year') == date_abs(timepoint) - dby(%s)" % CIVIL],
              YEAR_RAISES),
    "%H:%M:%S": (["fmt_template(result) == '%(hour_of_day)02d:%(minute_of_hour)02d:"
                  "%(second_of_minute)02d'",
                  "fmt_value(result, 'hour_of_day') == timepoint._hour_of_day"
                  " and fmt_value(result, 'minute_of_hour') == timepoint._minute_of_hour"
                  " and fmt_value(result, 'second_of_minute') == timepoint._second_of_minute"],
                 []),
    "%X": (["fmt_template(result) == '%(hour_of_day)02d:%(minute_of_hour)02d:"
            "%(second_of_minute)02d'",
            "fmt_value(result, 'hour_of_day') == timepoint._hour_of_day"
            " and fmt_value(result, 'minute_of_hour') == timepoint._minute_of_hour"
            " and fmt_value(result, 'second_of_minute') == timepoint._second_of_minute"], []),
    "%z": (["fmt_template(result) == '%(time_zone_sign)s%(time_zone_hour_abs)02d"
            "%(time_zone_minute_abs)02d'",
            "fmt_value(result, 'time_zone_hour_abs') == abs(timepoint._time_zone._hours)"
            " and fmt_value(result, 'time_zone_minute_abs')"
            " == abs(timepoint._time_zone._minutes)",
            "(fmt_value(result, 'time_zone_sign') == '-')"
            " == (tz_seconds(timepoint._time_zone) < 0)"], []),
    "%s": (["fmt_template(result) == '%(seconds_since_unix_epoch)s'",
            "fmt_value(result, 'seconds_since_unix_epoch')"
            " == intstr(instant(timepoint) - 86400 * absday(1970, 1))"], []),
    "day %j, %H h": (["fmt_template(result) == 'day %(day_of_year)03d, %(hour_of_day)02d h'",
                      "1 <= fmt_value(result, 'day_of_year')"
                      " and fmt_value(result, 'day_of_year') <= SUML",
                      "fmt_value(result, 'hour_of_day') == timepoint._hour_of_day"], []),
}


def sf_cases():
    out = []
    for fmt, (ens, raises) in SPECS.items():
        for d in DATES:
            def build(E, st, fmt=fmt, d=d):
                return {"self": mk_dumper(E, st),
                        "timepoint": mk_timepoint(E, st, "timepoint", d, "hms", whole=True),
                        "formatting_string": fmt}
            out.append(Case("%s|%s" % (fmt, d), build, ensures=ens + ["unchanged(timepoint)"],
                            raises=raises))
    # unsupported directives are refused with the library's ValueError-derived error
    for bad in ("%y", "%a", "%Z", "%W"):
        out.append(Case("%s|refused" % bad, lambda E, st, bad=bad: {
            "self": mk_dumper(E, st),
            "timepoint": mk_timepoint(E, st, "timepoint", "cal", "hms"),
            "formatting_string": bad}, ensures=[], raises=[("StrftimeSyntaxError", "True")]))
    return out


contract("dumpers:TimePointDumper.strftime", use_at_calls=False, opaque=["dby"],
         requires=["normal24(timepoint)", "time_normal(timepoint)"],
         cases=sf_cases(),
         note="per directive: the template and the values its conversions print are those "
              "POSIX defines over the civil date-time")


# ---------------------------------------------------------------- CLI helpers (C19)
def _dd_cases():
    from .shapes import TIMES
    out = []
    for (d1, t1, d2, t2) in (("cal", "hms", "cal", "hms"), ("ord", "hm", "week", "h"),
                             ("week", "hms", "cal", "h")):
        def build(E, st, d1=d1, t1=t1, d2=d2, t2=t2):
            return {"time_point_1": mk_timepoint(E, st, "time_point_1", d1, t1),
                    "time_point_2": mk_timepoint(E, st, "time_point_2", d2, t2)}
        out.append(Case("%s-%s/%s-%s" % (d1, t1, d2, t2), build))
    return out


contract(
    "datetimeoper:DateTimeOperator.date_diff", use_at_calls=False,
    requires=["normal24(time_point_1)", "normal24(time_point_2)"],
    ensures=[
        "dlen(result[0]) >= 0 and d_years(result[0]) == 0 and d_months(result[0]) == 0",
        "(result[1] == '-') == (instant(time_point_2) < instant(time_point_1))",
        "instant(time_point_1) + (-dlen(result[0]) if result[1] == '-' else dlen(result[0]))"
        " == instant(time_point_2)",
        "unchanged(time_point_1)", "unchanged(time_point_2)"],
    cases=_dd_cases(),
    note="the printed duration d (with its sign) satisfies first + d == second")
