"""T4 — Duration text (C10): the REAL Duration.__str__ and DurationParser.parse
executed on symbolic integer (and, for parse, decimal) component values.

str direction : for every unit subset and sign, str(d) is the designator
                spelling dur_text(d) written from the property statement.
parse direction: for every designator form (pieces = concrete letters and symbolic
                number spellings) parse returns the Duration with exactly those
                component values; regex matching on the form is replaced by the
                lexing lemma of pyvc/textlex.py, discharged on the real patterns.
"""
import z3
from . import contract, Case, ENGINE_HOOKS
from pyvc.values import IntStr, Ref, OutOfReach, is_z3
from pyvc.strings import Text, DecStr

UNITS = [("years", "Y"), ("months", "M"), ("days", "D"),
         ("hours", "H"), ("minutes", "M"), ("seconds", "S")]


def _abs(v):
    if is_z3(v):
        if z3.is_real(v):
            v = z3.ToInt(v)
        return z3.If(v >= 0, v, -v)
    return abs(int(v))


def dur_text(E, args, kws, st):
    """The designator spelling of a single-signed, integer-valued Duration,
    written from the property: [-]P nY nM nD [T nH nM nS] | [-]PnW | P0Y."""
    d = args[0]
    slots = st.obj(d).slots
    neg = args[1] if len(args) > 1 else False
    if slots.get("_weeks") is not None:
        return Text((["-"] if neg else []) + ["P", IntStr(_abs(slots["_weeks"])), "W"])
    pieces = []
    seen_t = False
    for (name, letter) in UNITS:
        v = slots["_" + name]
        if not is_z3(v) and v == 0:
            continue
        if name in ("hours", "minutes", "seconds") and not seen_t:
            pieces.append("T")
            seen_t = True
        pieces += [IntStr(_abs(v)), letter]
    if not pieces:
        return "P0Y"
    return Text((["-"] if neg else []) + ["P"] + pieces)


def _hook(E):
    E.extra_builtins["dur_text"] = dur_text


ENGINE_HOOKS.append(_hook)


def str_case(mask, neg):
    def build(E, st):
        slots = {"_weeks": None}
        for i, (name, letter) in enumerate(UNITS):
            if mask >> i & 1:
                v = z3.Int("p:self._" + name)
                st.assume(v < 0 if neg else v > 0)
                slots["_" + name] = v if i < 3 else z3.ToReal(v)
            else:
                slots["_" + name] = 0
        return {"self": E.new_obj(st, "Duration", slots)}
    return build


def week_case(neg):
    def build(E, st):
        v = z3.Int("p:self._weeks")
        st.assume(v < 0 if neg else v > 0)
        slots = {"_" + n: None for n, _ in UNITS}
        slots["_weeks"] = v
        return {"self": E.new_obj(st, "Duration", slots)}
    return build


def _name(mask):
    return "".join(l if mask >> i & 1 else "-" for i, (n, l) in enumerate(UNITS))


STR_CASES = []
for mask in range(64):
    for neg in ((False, True) if mask else (False,)):
        STR_CASES.append(Case("%s%s" % ("neg:" if neg else "pos:", _name(mask)),
                              str_case(mask, neg),
                              ensures=["result == dur_text(self, %s)" % neg]))
for neg in (False, True):
    STR_CASES.append(Case("%sweeks" % ("neg:" if neg else "pos:"), week_case(neg),
                          ensures=["result == dur_text(self, %s)" % neg]))

contract("data:Duration.__str__", cases=STR_CASES, ensures=[], recursive_ok=True,
         use_at_calls=False,
         note="integer-valued, single-signed components (decimal values: str(float) is "
              "outside the modelled subset - bounded grid)")


# ---------------------------------------------------------------- parse
def mk_parser(E, st):
    ci = E.db.class_by_name["DurationParser"]
    return st.alloc("obj", ci, fresh=False)


def parse_case(mask, neg, dec=None, week=False):
    """dec: None (integers) or ',' / '.' (the time units present are decimals)"""
    def build(E, st):
        pieces = ["-P" if neg else "P"]
        if week:
            v = z3.Int("p:weeks")
            st.assume(v >= 0)
            pieces += [IntStr(v), "W"]
        seen_t = False
        for i, (name, letter) in enumerate(UNITS):
            if week or not (mask >> i & 1):
                continue
            if i >= 3 and not seen_t:
                pieces.append("T")
                seen_t = True
            if i >= 3 and dec:
                v = z3.Real("p:" + name)
                st.assume(v >= 0)
                pieces += [DecStr(v, dec), letter]
            else:
                v = z3.Int("p:" + name)
                st.assume(v >= 0)
                pieces += [IntStr(v), letter]
        return {"self": mk_parser(E, st), "expression": Text(pieces).simplest()}
    return build


def parse_ensures(mask, neg, dec, week):
    sg = "-" if neg else ""
    if week:
        # Duration(weeks=w): week form unless w == 0
        return ["fresh(result)",
                "(result._weeks == %sfld('weeks') and result._days is None) if fld('weeks') != 0 "
                "else (result._weeks is None and result._days == 0 and result._years == 0 "
                "and result._months == 0 and result._hours == 0 and result._minutes == 0 "
                "and result._seconds == 0)" % sg]
    out = ["fresh(result)", "result._weeks is None"]
    for i, (name, letter) in enumerate(UNITS):
        if mask >> i & 1:
            src = ("fldq('%s')" if (i >= 3 and dec) else "fld('%s')") % name
            out.append("result._%s == %s%s" % (name, sg, src))
        else:
            out.append("result._%s == 0" % name)
    return out


def _phook(E):
    E.extra_builtins["fldq"] = lambda E_, args, kws, st: z3.Real("p:" + args[0])


ENGINE_HOOKS.append(_phook)

PARSE_CASES = []
for mask in range(1, 64):
    for neg in (False, True):
        PARSE_CASES.append(Case("%s%s" % ("neg:" if neg else "pos:", _name(mask)),
                                parse_case(mask, neg),
                                ensures=parse_ensures(mask, neg, None, False)))
    if mask >> 3:
        for dec in (",", "."):
            PARSE_CASES.append(Case("dec%s%s" % (dec, _name(mask)), parse_case(mask, False, dec),
                                    ensures=parse_ensures(mask, False, dec, False)))
for neg in (False, True):
    PARSE_CASES.append(Case("%sweeks" % ("neg:" if neg else "pos:"),
                            parse_case(0, neg, week=True),
                            ensures=parse_ensures(0, neg, None, True)))

contract("parsers:DurationParser.parse", cases=PARSE_CASES, ensures=[], use_at_calls=False,
         note="designator forms on symbolic number spellings; regex matching by the lexing "
              "lemma (pyvc/textlex.py) on the real DURATION_REGEXES")


# ---------------------------------------------------------------- the date-time-like spelling
def dtl_case(style, with_time):
    """P[YYYY]-[MM]-[DD]T[hh]:[mm]:[ss] (extended) / P[YYYY][MM][DD]T[hh][mm][ss] (basic)"""
    from .parser_t4 import fld

    def build(E, st):
        sep, tsep = ("-", ":") if style == "extended" else ("", "")
        ps = ["P", fld(E, st, "century", 2), fld(E, st, "year_of_century", 2), sep,
              fld(E, st, "month_of_year", 2), sep, fld(E, st, "day_of_month", 2)]
        if with_time:
            ps += ["T", fld(E, st, "hour_of_day", 2), tsep, fld(E, st, "minute_of_hour", 2),
                   tsep, fld(E, st, "second_of_minute", 2)]
        return {"self": mk_parser(E, st), "expression": Text(ps).simplest()}
    ens = ["fresh(result)", "result._weeks is None",
           "result._years == 100 * fld('century') + fld('year_of_century')",
           "result._months == fld('month_of_year')", "result._days == fld('day_of_month')"]
    if with_time:
        ens += ["result._hours == fld('hour_of_day')", "result._minutes == fld('minute_of_hour')",
                "result._seconds == fld('second_of_minute')"]
    else:
        ens += ["result._hours == 0 and result._minutes == 0 and result._seconds == 0"]
    return Case("datetime-like:%s%s" % (style[0], ":time" if with_time else ""), build,
                ensures=ens)


from . import REGISTRY as _R  # noqa
_R["parsers:DurationParser.parse"].cases = list(_R["parsers:DurationParser.parse"].cases) + [
    dtl_case(s_, t_) for s_ in ("extended", "basic") for t_ in (True, False)]
