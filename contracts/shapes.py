"""Shape-concrete, value-symbolic object builders (DESIGN 2.3)."""
import z3

TP_SLOTS = ["_num_expanded_year_digits", "_year", "_month_of_year",
            "_day_of_year", "_day_of_month", "_day_of_week", "_week_of_year",
            "_hour_of_day", "_minute_of_hour", "_second_of_minute",
            "_truncated", "_truncated_property", "_truncated_dump_format",
            "_dump_format", "_time_zone"]
DATES = ("cal", "ord", "week")
TIMES = ("hms", "hm", "h")


def mk_duration(E, st, prefix, form="unit", fresh=False, tag="p:"):
    I = lambda n: z3.Int(tag + prefix + "." + n)
    R = lambda n: z3.Real(tag + prefix + "." + n)
    if form == "week":
        slots = {"_years": None, "_months": None, "_weeks": I("_weeks"),
                 "_days": None, "_hours": None, "_minutes": None, "_seconds": None}
    else:
        slots = {"_years": I("_years"), "_months": I("_months"), "_weeks": None,
                 "_days": I("_days"), "_hours": R("_hours"),
                 "_minutes": R("_minutes"), "_seconds": R("_seconds")}
        if form in ("exact", "exact-whole"):
            slots["_years"] = 0
            slots["_months"] = 0
        if form == "exact-whole":
            for k in ("_hours", "_minutes", "_seconds"):
                slots[k] = z3.ToReal(I(k))
    return E.new_obj(st, "Duration", slots, fresh=fresh)


def mk_timezone(E, st, prefix, fresh=False, tag="p:", unknown=False):
    I = lambda n: z3.Int(tag + prefix + "." + n)
    slots = {"_years": 0, "_months": 0, "_weeks": None, "_days": 0,
             "_hours": I("_hours"), "_minutes": I("_minutes"), "_seconds": 0,
             "_unknown": unknown}
    return E.new_obj(st, "TimeZone", slots, fresh=fresh)


def mk_timepoint(E, st, prefix, date="cal", time="hms", fresh=False, tag="p:",
                 tz=True, ned=0, integral=True, whole=False):
    """integral=True: the fields a NORMAL point of this time form keeps integral
    (hour when minutes are present, minute when seconds are present) are built
    as ToReal(<Int symbol>); use integral=False for un-normalised states."""
    I = lambda n: z3.Int(tag + prefix + "." + n)
    R = lambda n: z3.Real(tag + prefix + "." + n)
    RI = (lambda n: z3.ToReal(z3.Int(tag + prefix + "." + n))) if integral else R
    slots = {k: None for k in TP_SLOTS}
    # slots the real class declares beyond the known ones (e.g. added by a
    # change under test) start as None
    for k in getattr(E.db.class_by_name["TimePoint"].real, "__slots__", ()):
        slots.setdefault(k, None)
    slots["_num_expanded_year_digits"] = ned
    slots["_truncated"] = False
    slots["_year"] = I("_year")
    if date == "cal":
        slots["_month_of_year"] = I("_month_of_year")
        slots["_day_of_month"] = I("_day_of_month")
    elif date == "ord":
        slots["_day_of_year"] = I("_day_of_year")
    else:
        slots["_week_of_year"] = I("_week_of_year")
        slots["_day_of_week"] = I("_day_of_week")
    slots["_hour_of_day"] = RI("_hour_of_day") if time in ("hms", "hm") \
        else R("_hour_of_day")
    if time in ("hms", "hm"):
        slots["_minute_of_hour"] = RI("_minute_of_hour") if time == "hms" \
            else R("_minute_of_hour")
    if time == "hms":
        slots["_second_of_minute"] = RI("_second_of_minute") if whole \
            else R("_second_of_minute")
    if whole and time == "hm":
        slots["_minute_of_hour"] = RI("_minute_of_hour")
    if whole and time == "h":
        slots["_hour_of_day"] = RI("_hour_of_day")
    slots["_time_zone"] = mk_timezone(E, st, prefix + "._time_zone", fresh=fresh,
                                      tag=tag)
    return E.new_obj(st, "TimePoint", slots, fresh=fresh)


def fresh_duration(E, st, form, tag):
    E.fresh_n += 1
    return mk_duration(E, st, "%s!%d" % (tag, E.fresh_n), form, fresh=True, tag="")


def _is_whole(v):
    from pyvc.values import simp, is_z3
    if not is_z3(v):
        return float(v) == int(v)
    return simp(z3.IsInt(v)) is True if z3.is_real(v) else True


def normal_time_fields(E, slots, name, keep_whole=False):
    """Fresh symbols for the time fields of a NORMAL point with the None-ness of
    `slots`: integral fields as ToReal(Int).  keep_whole: the last time field is
    integral too when it is (syntactically) integral in `slots` - justified by
    _tick_over's proved clause 'whole seconds stay whole'."""
    out = {}
    has_m = slots.get("_minute_of_hour") is not None
    has_s = slots.get("_second_of_minute") is not None
    if keep_whole:
        last = "_second_of_minute" if has_s else "_minute_of_hour" if has_m \
            else "_hour_of_day"
        others = [k for k in ("_hour_of_day", "_minute_of_hour", "_second_of_minute")
                  if slots.get(k) is not None]
        if all(_is_whole(slots[k]) for k in others):
            for k in others:
                out[k] = z3.ToReal(z3.Int(name + "." + k))
            return out
    out["_hour_of_day"] = z3.ToReal(z3.Int(name + "._hour_of_day")) if has_m \
        else z3.Real(name + "._hour_of_day")
    if has_m:
        out["_minute_of_hour"] = z3.ToReal(z3.Int(name + "._minute_of_hour")) \
            if has_s else z3.Real(name + "._minute_of_hour")
    if has_s:
        out["_second_of_minute"] = z3.Real(name + "._second_of_minute")
    return out


def fresh_timepoint_like(E, st, ref, tag, normal=True):
    """A fresh TimePoint with the same shape (None-ness) as `ref`."""
    E.fresh_n += 1
    h = st.obj(ref)
    slots = {}
    nt = normal_time_fields(E, h.slots, "%s!%d" % (tag, E.fresh_n)) if normal else {}
    for k, v in h.slots.items():
        if k == "_time_zone":
            z = st.obj(v)
            zs = {}
            for zk, zv in z.slots.items():
                zs[zk] = E.fresh_like(zv, "%s!%d._tz.%s" % (tag, E.fresh_n, zk)) \
                    if zk in ("_hours", "_minutes") else zv
            slots[k] = E.new_obj(st, "TimeZone", zs, fresh=True)
        elif k in nt and v is not None:
            slots[k] = nt[k]
        elif k in ("_year", "_month_of_year", "_day_of_year", "_day_of_month",
                   "_day_of_week", "_week_of_year", "_hour_of_day",
                   "_minute_of_hour", "_second_of_minute"):
            slots[k] = E.fresh_like(v, "%s!%d.%s" % (tag, E.fresh_n, k))
        else:
            slots[k] = v
    return E.new_obj(st, "TimePoint", slots, fresh=True)


def date_kind(st, ref):
    s = st.obj(ref).slots
    if s.get("_month_of_year") is not None:
        return "cal"
    if s.get("_day_of_year") is not None:
        return "ord"
    return "week"


def time_kind(st, ref):
    s = st.obj(ref).slots
    if s.get("_second_of_minute") is not None:
        return "hms"
    if s.get("_minute_of_hour") is not None:
        return "hm"
    return "h"


def mk_truncated(E, st, prefix, fields, zone_known, tag="p:"):
    """A truncated TimePoint specifying `fields` (slot names), whole values."""
    I = lambda n: z3.Int(tag + prefix + "." + n)
    slots = {k: None for k in TP_SLOTS}
    for k in getattr(E.db.class_by_name["TimePoint"].real, "__slots__", ()):
        slots.setdefault(k, None)
    slots["_num_expanded_year_digits"] = 0
    slots["_truncated"] = True
    for f in fields:
        slots[f] = I(f)
    slots["_time_zone"] = mk_timezone(E, st, prefix + "._time_zone", tag=tag,
                                      unknown=not zone_known)
    if not zone_known:
        z = st.obj(slots["_time_zone"])
        z.slots["_hours"] = 0
        z.slots["_minutes"] = 0
    return E.new_obj(st, "TimePoint", slots, fresh=False)
