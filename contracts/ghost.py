"""Registers the ghost programs as verifiable functions (key "ghost:<name>")."""
import ast
import os
from . import contract, Case, ENGINE_HOOKS
from .shapes import mk_timepoint, mk_duration, mk_timezone, DATES, TIMES
from pyvc.source import FuncInfo

PATH = os.path.join(os.path.dirname(os.path.abspath(__file__)), "ghost_programs.py")


def _hook(E):
    tree = ast.parse(open(PATH).read())
    for n in tree.body:
        if isinstance(n, ast.FunctionDef):
            fi = FuncInfo("data", "ghost." + n.name, n)
            fi.key = "ghost:" + n.name
            E.db.funcs[fi.key] = fi
            E.db.module_names["data"][n.name] = ("func", fi)


ENGINE_HOOKS.append(_hook)

PAIR_SHAPES = [("cal", "hms", "ord", "hm"), ("week", "h", "cal", "hms"),
               ("ord", "hms", "week", "hm"), ("cal", "hms", "cal", "hms")]


def tp_pairs(names=("a", "b")):
    out = []
    for (d1, t1, d2, t2) in PAIR_SHAPES:
        def build(E, st, d1=d1, t1=t1, d2=d2, t2=t2):
            return {names[0]: mk_timepoint(E, st, names[0], d1, t1),
                    names[1]: mk_timepoint(E, st, names[1], d2, t2)}
        out.append(Case("%s-%s/%s-%s" % (d1, t1, d2, t2), build))
    return out


NORMAL2 = ["normal24(a)", "normal24(b)"]
for nm in ("order_laws", "equal_implies_equal_hash", "difference_sign_agrees",
           "sub_antisymmetric", "sub_then_add"):
    contract("ghost:" + nm, use_at_calls=False, requires=NORMAL2, cases=tp_pairs())

contract("ghost:order_transitive", use_at_calls=False,
         requires=["normal24(a)", "normal24(b)", "normal24(c)"],
         cases=[Case("cal-ord-week", lambda E, st: {
             "a": mk_timepoint(E, st, "a", "cal", "hms"),
             "b": mk_timepoint(E, st, "b", "ord", "hm"),
             "c": mk_timepoint(E, st, "c", "week", "h")})])

contract("ghost:add_then_sub", use_at_calls=False, requires=["normal24(p)"],
         cases=[Case("%s-%s+%s" % (d, t, f), lambda E, st, d=d, t=t, f=f: {
             "p": mk_timepoint(E, st, "p", d, t),
             "d": mk_duration(E, st, "d", f)})
             for d in DATES for t in ("hms", "h") for f in ("exact", "week")])

contract("ghost:rezone_preserves", use_at_calls=False,
         requires=["normal24(p)", "tz_ok(z)"],
         cases=[Case("%s-%s" % (d, t), lambda E, st, d=d, t=t: {
             "p": mk_timepoint(E, st, "p", d, t), "z": mk_timezone(E, st, "z")})
             for d in DATES for t in TIMES])
contract("ghost:rezone_utc_preserves", use_at_calls=False,
         requires=["normal24(p)"],
         cases=[Case("%s-%s" % (d, t), lambda E, st, d=d, t=t: {
             "p": mk_timepoint(E, st, "p", d, t)}) for d in DATES for t in TIMES])

_NORM_P = ["valid_date(p)", "time_normal(p)", "tz_ok(p._time_zone)"]
contract("ghost:single_month_step", use_at_calls=False, requires=_NORM_P,
         cases=[Case("cal-%s" % t, lambda E, st, t=t: {
             "p": mk_timepoint(E, st, "p", "cal", t)}) for t in TIMES])
contract("ghost:months_compose", use_at_calls=False, requires=_NORM_P,
         cases=[Case("cal-hms", lambda E, st: {
             "p": mk_timepoint(E, st, "p", "cal", "hms"), "n": E.sym_int("n")})])
contract("ghost:leap_day_plus_year", use_at_calls=False, requires=_NORM_P,
         cases=[Case("cal-hms", lambda E, st: {
             "p": mk_timepoint(E, st, "p", "cal", "hms")})]).modes = ["gregorian", "366day"]


def dur_cases(names, forms=("unit", "week")):
    import itertools
    out = []
    for combo in itertools.product(forms, repeat=len(names)):
        def build(E, st, combo=combo):
            return {n: mk_duration(E, st, n, f) for n, f in zip(names, combo)}
        out.append(Case("-".join(combo), build))
    return out


for nm, names in (("dur_add_commutes", ("a", "b")), ("dur_add_associative", ("a", "b", "c")),
                  ("dur_identity_and_inverse", ("a",)), ("dur_sub_is_add_negation", ("a", "b")),
                  ("dur_exact_equal_by_length", ("a", "b")),
                  ("dur_equal_implies_equal_hash", ("a", "b")),
                  ("dur_order_consistent", ("a", "b")), ("dur_order_transitive", ("a", "b", "c"))):
    contract("ghost:" + nm, use_at_calls=False, cases=dur_cases(names))
contract("ghost:dur_mul_is_repeated_addition", use_at_calls=False,
         cases=[Case(f, lambda E, st, f=f: {"a": mk_duration(E, st, "a", f),
                                            "n": E.sym_int("n")}) for f in ("unit", "week")])
contract("ghost:dur_unit_ratios", use_at_calls=False, cases=[Case("concrete", lambda E, st: {})])

from .shapes import mk_truncated  # noqa


def _trunc_ghost_cases():
    out = []
    for nm, fields in (("hh", ["_hour_of_day"]), ("mm", ["_minute_of_hour"]),
                       ("hhmm", ["_hour_of_day", "_minute_of_hour"])):
        for zk in (False, True):
            def build(E, st, fields=fields, zk=zk):
                return {"t": mk_truncated(E, st, "t", fields, zk),
                        "p": mk_timepoint(E, st, "p", "cal", "hms", whole=True)}
            req = ["valid_date(p)", "time_normal(p)", "tz_ok(p._time_zone)",
                   "tz_ok(t._time_zone)"]
            if "_hour_of_day" in fields:
                req.append("0 <= t._hour_of_day and t._hour_of_day < 24")
            if "_minute_of_hour" in fields:
                req.append("0 <= t._minute_of_hour and t._minute_of_hour < 60")
            out.append(Case("%s-%s" % (nm, "zone" if zk else "nozone"), build, requires=req))
    return out


contract("ghost:truncated_commutes_and_idempotent", use_at_calls=False,
         cases=_trunc_ghost_cases())


def _rec_ghosts():
    from .recurrence_t3 import mk_rec, KINDS
    contract("ghost:rec_three_notations_equal", use_at_calls=False,
             requires=["normal24(s)", "time_normal(s)"],
             cases=[Case("cal-hms", lambda E, st: {
                 "s": mk_timepoint(E, st, "s", "cal", "hms"),
                 "d": mk_duration(E, st, "d", "exact"), "n": E.sym_int("n")},
                 witness={"p:n": 3})])
    contract("ghost:rec_shift_and_back", use_at_calls=False,
             requires=["rec_ok(r)", "r._min_point is None and r._max_point is None"],
             cases=[Case("%s+%s" % (k, f), lambda E, st, k=k, f=f: {
                 "r": mk_rec(E, st, "r", k), "d": mk_duration(E, st, "d", f)},
                 witness={"p:r._repetitions": 2} if k == "fwd-bounded" else {})
                 for k in KINDS for f in ("exact",)])
    pairs = [("fwd-bounded", "fwd-bounded"), ("fwd-unbounded", "fwd-unbounded"),
             ("rev-unbounded", "rev-unbounded"), ("single", "single"),
             ("fwd-bounded", "single")]
    for nm in ("rec_equal_implies_equal_hash", "rec_unequal_when_one_component_differs"):
        prs = pairs[:-1] if nm == "rec_equal_implies_equal_hash" else pairs
        contract("ghost:" + nm, use_at_calls=False,
                 requires=["rec_ok(a)", "rec_ok(b)",
                           "a._min_point is None and a._max_point is None"
                           " and b._min_point is None and b._max_point is None"],
                 cases=[Case("%s/%s" % (x, y), lambda E, st, x=x, y=y: {
                     "a": mk_rec(E, st, "a", x), "b": mk_rec(E, st, "b", y,
                                                             date="ord", time="hm")},
                     witness={"p:a._repetitions": 2, "p:b._repetitions": 2}
                     if "bounded" in x + y else {}) for (x, y) in prs])


_rec_ghosts()

contract("ghost:dump_fields_recompose", use_at_calls=False,
         requires=["normal24(p)"],
         cases=[Case("%s-%s" % (d, t), lambda E, st, d=d, t=t: {
             "p": mk_timepoint(E, st, "p", d, t)}) for d in DATES for t in ("hms",)])
contract("ghost:strftime_year_is_civil_year", use_at_calls=False, opaque=["dby"],
         requires=["normal24(p)"],
         cases=[Case("%s-hms" % d, lambda E, st, d=d: {
             "p": mk_timepoint(E, st, "p", d, "hms")}) for d in DATES])
for _q in ("TimePoint.to_calendar_date", "TimePoint.to_ordinal_date",
           "TimePoint.to_week_date", "TimePoint.to_hour_minute_second"):
    contract("data:" + _q, inline=True)


def _durtext_cases():
    from .durtext_t4 import str_case, week_case, mk_parser, _name
    out = []

    def wrap(b):
        def build(E, st):
            env = b(E, st)
            return {"d": env["self"], "parser": mk_parser(E, st)}
        return build
    for mask in range(64):
        for neg in ((False, True) if mask else (False,)):
            out.append(Case("%s%s" % ("neg:" if neg else "pos:", _name(mask)),
                            wrap(str_case(mask, neg))))
    for neg in (False, True):
        out.append(Case("%sweeks" % ("neg:" if neg else "pos:"), wrap(week_case(neg))))
    return out


contract("ghost:dur_text_round_trip", use_at_calls=False, cases=_durtext_cases())
