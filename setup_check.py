#!/usr/bin/env python3
"""Offline setup check: tools import, /repo parses. Builds nothing."""
import ast, os, shutil, sys
import z3
print("z3", z3.get_version_string())
for t in ("/usr/bin/cvc5", "/usr/bin/z3"):
    print(t, os.path.exists(t))
print("z3-new", shutil.which("z3-new"))
repo = os.environ.get("PYVC_REPO", "/repo")
for f in os.listdir(os.path.join(repo, "metomi", "isodatetime")):
    if f.endswith(".py"):
        ast.parse(open(os.path.join(repo, "metomi", "isodatetime", f)).read())
os.makedirs(os.path.join(os.path.dirname(os.path.abspath(__file__)), "evidence"), exist_ok=True)
print("ok")
