"""Spec vocabulary (DESIGN.md section 3): closed-form proleptic-calendar definitions.

Pure Python, no imports.  The SAME text is used three ways:
  * parsed with `ast` and inlined by the PyVC engine (symbolic meaning),
  * executed natively when a counterexample is replayed on the real code,
  * validated against `datetime` (spec validation, thorough tier).
Only: arithmetic, comparisons, conditional expressions, `if` statements,
loops over literal `range(<const>)`, calls to other spec functions, attribute
reads on objects.  No data-dependent loops, no recursion.

The month tables below are the spec's OWN copies, written from the property
statements (twelve 30-day months; 365 days always; 366 days always; Gregorian
4/100/400), not read from the code under verification.
"""

_T360 = (30, 30, 30, 30, 30, 30, 30, 30, 30, 30, 30, 30)
_T365 = (31, 28, 31, 30, 31, 30, 31, 31, 30, 31, 30, 31)
_T366 = (31, 29, 31, 30, 31, 30, 31, 31, 30, 31, 30, 31)
TABLES = {
    "360day": (_T360, _T360), "360_day": (_T360, _T360),
    "365day": (_T365, _T365), "365_day": (_T365, _T365),
    "366day": (_T366, _T366), "366_day": (_T366, _T366),
    "gregorian": (_T365, _T366),
}

MODE = "gregorian"
DIM = _T365        # month lengths, common year
DIML = _T366       # month lengths, leap year
SUM = 365
SUML = 366
A_MON = 0          # absolute day number of the reference Monday 2000-01-03
MAXDIM = 31
MAXW = 53


def set_mode(mode):
    """Select the calendar mode the spec functions describe (native side)."""
    global MODE, DIM, DIML, SUM, SUML, A_MON, MAXDIM, MAXW
    MODE = mode
    DIM, DIML = TABLES[mode]
    SUM = sum(DIM)
    SUML = sum(DIML)
    MAXDIM = max(DIM)
    MAXW = -(-SUML // 7)       # most weeks a week year of this calendar can have
    A_MON = dby(2000) + 3


def implies(a, b):
    return (not a) or b


def leap(y):
    return y % 4 == 0 and (y % 100 != 0 or y % 400 == 0)


def diy(y):
    """Days in year y."""
    return SUML if leap(y) else SUM


def dimL(isleap, m):
    """Days in month m (1..12) of a leap / common year; 0 outside 1..12."""
    r = 0
    for k in range(12):
        r = r + ((DIML[k] if isleap else DIM[k]) if m == k + 1 else 0)
    return r


def cumL(isleap, m):
    """Days before the first of month m (m in 1..13) of a leap/common year."""
    r = 0
    for k in range(12):
        r = r + ((DIML[k] if isleap else DIM[k]) if m > k + 1 else 0)
    return r


def diyL(isleap):
    return SUML if isleap else SUM


def month_ofL(isleap, n):
    """Month containing ordinal day n (n in 1..diy) of a leap/common year."""
    m = 1
    for k in range(1, 12):
        m = m + (1 if n > cumL(isleap, k + 1) else 0)
    return m


def md_ofL(isleap, n):
    m = month_ofL(isleap, n)
    return (m, n - cumL(isleap, m))


def dim(y, m):
    """Days in month m (1..12) of year y; 0 for m outside 1..12."""
    return dimL(leap(y), m)


def cum(y, m):
    """Days of year y before the first of month m (m in 1..13)."""
    return cumL(leap(y), m)


def ord_of(y, m, d):
    return cum(y, m) + d


def month_of(y, n):
    return month_ofL(leap(y), n)


def md_of(y, n):
    return md_ofL(leap(y), n)


def cnt(f, a, b):
    """Number of multiples of f (f > 0) in the closed interval [a, b]."""
    return b // f - (a - 1) // f


def dby(y):
    """Days before 1 January of year y, counted from 1 January of year 0.

    dby(y + 1) - dby(y) == diy(y) for every integer y (negative included)."""
    return SUM * y + (SUML - SUM) * (
        (y + 3) // 4 - (y + 99) // 100 + (y + 399) // 400)


def absday(y, n):
    """Proleptic day number of ordinal date (y, n)."""
    return dby(y) + n


def valid_ord(y, n):
    return 1 <= n and n <= diy(y)


def valid_cal(y, m, d):
    return 1 <= m and m <= 12 and 1 <= d and d <= dim(y, m)


def cal_abs(y, m, d):
    """Day number of a calendar date whose month is in 1..12 (day ANY int)."""
    return dby(y) + cum(y, m) + d


def wd(a):
    """Weekday 1..7 (Monday = 1) of day number a."""
    return (a - A_MON) % 7 + 1


def wstart(wy):
    """Day number of the Monday starting ISO week-year wy (week 1 has 4 Jan)."""
    a4 = absday(wy, 4)
    return a4 - (wd(a4) - 1)


def wiy(wy):
    """Weeks in ISO week-year wy."""
    return (wstart(wy + 1) - wstart(wy)) // 7


def week_abs(wy, w, d):
    """Day number of week date (wy, w, d); fields need not be normalised."""
    return wstart(wy) + 7 * (w - 1) + d - 1


def valid_week(wy, w, d):
    return 1 <= w and w <= wiy(wy) and 1 <= d and d <= 7


def weekyear_of(y, a):
    """ISO week-year of day number a whose calendar year is y."""
    return (y + 1) if a >= wstart(y + 1) else (y if a >= wstart(y) else y - 1)


def week_of(y, a):
    """(week-year, week, weekday) of day number a lying in calendar year y."""
    wy = weekyear_of(y, a)
    k = a - wstart(wy)
    return (wy, k // 7 + 1, k % 7 + 1)


# ---------------------------------------------------------------- objects

def is_cal(p):
    return p._month_of_year is not None


def is_ord(p):
    return p._day_of_year is not None


def is_week(p):
    return p._week_of_year is not None


def date_abs(p):
    """Day number of TimePoint p's date in whichever representation it has.

    Fields need not be normalised (calendar: month must be in 1..12)."""
    if p._month_of_year is not None:
        return cal_abs(p._year, p._month_of_year, p._day_of_month)
    if p._day_of_year is not None:
        return dby(p._year) + p._day_of_year
    return week_abs(p._year, p._week_of_year, p._day_of_week)


def valid_date(p):
    if p._month_of_year is not None:
        return valid_cal(p._year, p._month_of_year, p._day_of_month)
    if p._day_of_year is not None:
        return valid_ord(p._year, p._day_of_year)
    return valid_week(p._year, p._week_of_year, p._day_of_week)


def sod(p):
    """Second of day (real) from whichever time fields are present."""
    s = 3600 * p._hour_of_day
    if p._minute_of_hour is not None:
        s = s + 60 * p._minute_of_hour
    if p._second_of_minute is not None:
        s = s + p._second_of_minute
    return s


def tz_seconds(z):
    return 3600 * z._hours + 60 * z._minutes


def instant(p):
    """Seconds from day number 0, 00:00 UTC to the instant p denotes."""
    return 86400 * date_abs(p) + sod(p) - tz_seconds(p._time_zone)


def local_instant(p):
    return 86400 * date_abs(p) + sod(p)


def time_normal(p):
    """0<=h<24, 0<=m,s<60 with the integrality the time form implies."""
    ok = 0 <= p._hour_of_day and p._hour_of_day < 24
    ok = ok and 0 <= sod(p) and sod(p) < 86400
    if p._minute_of_hour is not None:
        ok = ok and isint(p._hour_of_day)
        ok = ok and 0 <= p._minute_of_hour and p._minute_of_hour < 60
        if p._second_of_minute is not None:
            ok = ok and isint(p._minute_of_hour)
            ok = ok and 0 <= p._second_of_minute and p._second_of_minute < 60
    return ok


def time_normal24(p):
    """What the constructor admits: time_normal, or 24:00(:00)."""
    if p._minute_of_hour is None:
        return time_normal(p) or p._hour_of_day == 24
    if p._second_of_minute is None:
        return time_normal(p) or (
            p._hour_of_day == 24 and p._minute_of_hour == 0)
    return time_normal(p) or (
        p._hour_of_day == 24 and p._minute_of_hour == 0
        and p._second_of_minute == 0)


def tz_ok(z):
    """TimeZone invariant: |h|<=99, |m|<=59, signs compatible."""
    return (-99 <= z._hours and z._hours <= 99
            and -59 <= z._minutes and z._minutes <= 59
            and (z._hours <= 0 or z._minutes >= 0)
            and (z._hours >= 0 or z._minutes <= 0))


def normal(p):
    return valid_date(p) and time_normal(p)


def normal24(p):
    return valid_date(p) and time_normal24(p) and tz_ok(p._time_zone)


def whole_seconds(p):
    """Every present time field is integral."""
    ok = isint(p._hour_of_day)
    if p._minute_of_hour is not None:
        ok = ok and isint(p._minute_of_hour)
    if p._second_of_minute is not None:
        ok = ok and isint(p._second_of_minute)
    return ok


def in_weeks(d):
    return d._weeks is not None


def dlen(d):
    """Length in seconds of the exact units of Duration d."""
    if d._weeks is not None:
        return 604800 * d._weeks
    return 86400 * d._days + 3600 * d._hours + 60 * d._minutes + d._seconds


def d_years(d):
    return 0 if d._weeks is not None else d._years


def d_months(d):
    return 0 if d._weeks is not None else d._months


def isint(x):
    """Native meaning; the engine overrides this with an SMT predicate."""
    return x == int(x)


def d_days(d):
    return 7 * d._weeks if d._weeks is not None else d._days


def d_hours(d):
    return 0 if d._weeks is not None else d._hours


def d_minutes(d):
    return 0 if d._weeks is not None else d._minutes


def d_seconds(d):
    return 0 if d._weeks is not None else d._seconds


def d_exact(d):
    """Exact (no year / month component)."""
    return d_years(d) == 0 and d_months(d) == 0


def rough_days_seconds(d):
    """(days, seconds) with 0 <= seconds < 86400, a year counted as the
    calendar's common-year length and a month as 30 days (Duration ordering)."""
    tot = 3600 * d_hours(d) + 60 * d_minutes(d) + d_seconds(d)
    q = fdiv(tot, 86400)
    return (d_years(d) * SUM + d_months(d) * 30 + d_days(d) + q, tot - 86400 * q)


def rough_len(d):
    return 86400 * (d_years(d) * SUM + d_months(d) * 30) + dlen(d)


def fdiv(x, k):
    """floor(x / k) as an integer-valued number (native: math.floor)."""
    return (x // k)


def date_key(t):
    """Day number of a (year, month, day) or (year, day-of-year) tuple."""
    if len(t) == 3:
        return cal_abs(t[0], t[1], t[2])
    return dby(t[0]) + t[1]


def dim_idx(j):
    """Length of the month with linear index j = 12 * year + (month - 1)."""
    return dim(j // 12, j % 12 + 1)


def midx(p):
    """Linear month index of a calendar-form point."""
    return 12 * p._year + p._month_of_year - 1


def same_time_and_zone(r, p):
    ok = (r._hour_of_day == p._hour_of_day
          and r._time_zone._hours == p._time_zone._hours
          and r._time_zone._minutes == p._time_zone._minutes)
    if p._minute_of_hour is not None:
        ok = ok and r._minute_of_hour == p._minute_of_hour
    if p._second_of_minute is not None:
        ok = ok and r._second_of_minute == p._second_of_minute
    return ok


def d_exact_zero(d):
    """No exact component (days, hours, minutes, seconds all zero)."""
    return (d_days(d) == 0 and d_hours(d) == 0 and d_minutes(d) == 0
            and d_seconds(d) == 0)


def years_only(d):
    return d_exact_zero(d) and d_months(d) == 0


def months_only(d):
    return d_exact_zero(d) and d_years(d) == 0


def year_step_ok(r, p, n):
    """r is p moved by n years with end-of-period clamping (C05)."""
    ok = r._year == p._year + n
    if p._month_of_year is not None:
        ok = ok and r._month_of_year == p._month_of_year
        ok = ok and r._day_of_month == min(
            p._day_of_month, dim(r._year, p._month_of_year))
    elif p._day_of_year is not None:
        ok = ok and r._day_of_year == min(p._day_of_year, diy(r._year))
    else:
        ok = ok and r._week_of_year == min(p._week_of_year, wiy(r._year))
        ok = ok and r._day_of_week == p._day_of_week
    return ok


def time_fields_ok(h, m, s):
    """Constructor-level validity of the time of day; None = omitted (start of
    the period).  h, m, s may carry a decimal fraction on the last given unit."""
    hh = 0 if h is None else h
    mm = 0 if m is None else m
    ss = 0 if s is None else s
    ok = 0 <= hh and hh <= 24
    if m is not None or s is not None or h is None:
        ok = ok and (0 <= mm and mm < 60) and (0 <= ss and ss < 60)
    return ok and (hh != 24 or (mm == 0 and ss == 0))


def zone_fields_ok(tzh, tzm):
    hh = 0 if tzh is None else tzh
    mm = 0 if tzm is None else tzm
    return (-99 <= hh and hh <= 99 and -59 <= mm and mm <= 59
            and (hh <= 0 or mm >= 0) and (hh >= 0 or mm <= 0))


def same_zone(r, p):
    return (r._time_zone._hours == p._time_zone._hours
            and r._time_zone._minutes == p._time_zone._minutes)


def isod(p):
    """Integer second of day of a whole-second point (fields need not be normal)."""
    t = 3600 * int(p._hour_of_day)
    if p._minute_of_hour is not None:
        t = t + 60 * int(p._minute_of_hour)
    if p._second_of_minute is not None:
        t = t + int(p._second_of_minute)
    return t


def hms_from_sod(p):
    """For a normal whole-second point the time fields are functions of isod."""
    t = isod(p)
    if p._minute_of_hour is None:
        return p._hour_of_day == t // 3600
    if p._second_of_minute is None:
        return p._hour_of_day == t // 3600 and p._minute_of_hour == (t // 60) % 60
    return (p._second_of_minute == t % 60 and p._minute_of_hour == (t // 60) % 60
            and p._hour_of_day == t // 3600)


def dwhole(d):
    """Every exact component of the Duration is integral."""
    if d._weeks is not None:
        return True
    return isint(d._hours) and isint(d._minutes) and isint(d._seconds)


# ---------------------------------------------------------------- recurrences
def rec_in_bounds(r, p):
    """p lies within the bounds of recurrence r (by instant)."""
    ok = True
    if r._start_point is not None:
        ok = ok and instant(p) >= instant(r._start_point)
    if r._min_point is not None:
        ok = ok and instant(p) >= instant(r._min_point)
    if r._max_point is not None:
        ok = ok and instant(p) <= instant(r._max_point)
    if r._end_point is not None:
        ok = ok and instant(p) <= instant(r._end_point)
    return ok


def rec_ok(r):
    """Representation invariant of a TimeRecurrence with an exact interval (or a
    single point), as its constructor establishes it."""
    ok = True
    if r._start_point is not None:
        ok = ok and normal24(r._start_point)
    if r._end_point is not None:
        ok = ok and normal24(r._end_point)
    if r._duration is None:
        return (ok and r._repetitions == 1 and r._start_point is not None
                and r._end_point is not None
                and instant(r._start_point) == instant(r._end_point))
    ok = ok and d_exact(r._duration) and dlen(r._duration) > 0
    if r._repetitions is not None:
        ok = ok and r._repetitions >= 2
        ok = ok and r._start_point is not None and r._end_point is not None
        ok = ok and instant(r._end_point) == instant(r._start_point) + (
            r._repetitions - 1) * dlen(r._duration)
    else:
        ok = ok and (r._start_point is None or r._end_point is None)
        ok = ok and (r._start_point is not None or r._end_point is not None)
    return ok


def rec_forward(r):
    return r._start_point is not None


def rec_anchor_instant(r):
    if r._start_point is not None:
        return instant(r._start_point)
    return instant(r._end_point)


def rec_member_instant(r, k):
    """Instant of the k-th iterated point (k = 0, 1, ...), exact interval."""
    if r._duration is None:
        return rec_anchor_instant(r)
    if r._start_point is not None:
        return instant(r._start_point) + k * dlen(r._duration)
    return instant(r._end_point) - k * dlen(r._duration)


def dlen_or0(d):
    return 0 if d is None else dlen(d)


def rec_in_bounds_i(r, t):
    """An instant t lies within the bounds of recurrence r."""
    ok = True
    if r._start_point is not None:
        ok = ok and t >= instant(r._start_point)
    if r._min_point is not None:
        ok = ok and t >= instant(r._min_point)
    if r._max_point is not None:
        ok = ok and t <= instant(r._max_point)
    if r._end_point is not None:
        ok = ok and t <= instant(r._end_point)
    return ok


def d_same_fields(a, b):
    """Two Durations hold the same component values (not merely equal lengths)."""
    if a._weeks is not None or b._weeks is not None:
        return (a._weeks is not None and b._weeks is not None and a._weeks == b._weeks
                and a._days is None and b._days is None)
    return (a._years == b._years and a._months == b._months and a._days == b._days
            and a._hours == b._hours and a._minutes == b._minutes
            and a._seconds == b._seconds)


def tp_same_fields(a, b):
    """Two TimePoints in the same representation with the same field values and offset."""
    return (a._year == b._year and a._month_of_year == b._month_of_year
            and a._day_of_month == b._day_of_month and a._day_of_year == b._day_of_year
            and a._week_of_year == b._week_of_year and a._day_of_week == b._day_of_week
            and a._hour_of_day == b._hour_of_day and a._minute_of_hour == b._minute_of_hour
            and a._second_of_minute == b._second_of_minute
            and a._time_zone._hours == b._time_zone._hours
            and a._time_zone._minutes == b._time_zone._minutes
            and a._truncated == b._truncated)


def tp_same_date_time(a, b):
    """Same representation and the same date and time field values (zone aside)."""
    return (a._year == b._year and a._month_of_year == b._month_of_year
            and a._day_of_month == b._day_of_month and a._day_of_year == b._day_of_year
            and a._week_of_year == b._week_of_year and a._day_of_week == b._day_of_week
            and a._hour_of_day == b._hour_of_day and a._minute_of_hour == b._minute_of_hour
            and a._second_of_minute == b._second_of_minute)
