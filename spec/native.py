"""Native meanings of the contract-language builtins (used by replay.py and
the bounded stand-ins; the engine has symbolic versions of the same names)."""
from . import cal


def ite(c, a, b):
    return a if c else b


def is_none(x):
    return x is None


def seq_len(s):
    return len(s)


def seq_at(s, i):
    return s[i]


def seq_eq(a, b):
    return list(a) == list(b)


def hashkey(*xs):
    return hash(tuple(xs))


def classname(x):
    return type(x).__name__


def fresh(x):
    return True      # freshness is a static (frame) obligation, not replayable


def unchanged(x):
    return True      # frame obligations are not replayable natively


def spec_imd(year, month, day, rev):
    """The sequence iter_months_days denotes, as a list."""
    L = cal.leap(year)
    diy = cal.diyL(L)
    if not rev:
        n0 = 1 if month is None else (
            cal.cumL(L, month) + (1 if day is None else day))
        return [cal.md_ofL(L, n) for n in range(n0, diy + 1)]
    if month is None:
        start = diy
    elif day is None:
        start = cal.cumL(L, month + 1)
    else:
        start = cal.cumL(L, month) + day
    return [cal.md_ofL(L, n) for n in range(start, 0, -1)]


def hash_elems(h):
    raise NotImplementedError("hash arguments are not observable natively")


def runmin(idx, d, k, sgn):
    """min(d, lengths of the k months after (sgn=+1) / before (sgn=-1) month idx):
    the day-of-month that k successive clamped single-month steps leave."""
    r = d
    for j in range(1, k + 1):
        r = min(r, cal.dim_idx(idx + sgn * j))
    return r


def runmin_def(idx, d, k, sgn):
    return True


def use_lemma(name, **kw):
    return True


def assume(x):
    return True


def intstr(x):
    return str(int(x))


def local(name):
    raise NotImplementedError("locals at the exit point are not observable natively")


def fmt_value(r, name):
    raise NotImplementedError("formatting maps are not observable natively")


def fmt_template(r):
    raise NotImplementedError


def dur_text(d, neg=False):
    """native twin of contracts/durtext_t4.dur_text"""
    if d._weeks is not None:
        return ("-" if neg else "") + "P%dW" % abs(d._weeks)
    out, seen_t = "", False
    for name, letter in (("years", "Y"), ("months", "M"), ("days", "D"),
                         ("hours", "H"), ("minutes", "M"), ("seconds", "S")):
        v = getattr(d, "_" + name)
        if v == 0:
            continue
        if name in ("hours", "minutes", "seconds") and not seen_t:
            out += "T"
            seen_t = True
        out += "%d%s" % (abs(int(v)), letter)
    if not out:
        return "P0Y"
    return ("-" if neg else "") + "P" + out
