#!/usr/bin/env python3
"""Run property checks against seeded changes, each applied to a scratch
worktree outside /repo and /verif (PYVC_REPO points the checks at it), removed
afterwards.  usage: run_seeded.py [--props C01,C03] [--ids C03-A,...] [--same]
--same: run each mutant only against the property it was written for."""
import json, os, subprocess, sys, time
V = os.path.dirname(os.path.abspath(__file__))
args = sys.argv[1:]
def opt(n, d=None):
    return args[args.index(n) + 1] if n in args else d
ids = opt("--ids")
ids = ids.split(",") if ids else sorted(os.listdir(os.path.join(V, "seeded")))
ids = [i for i in ids if os.path.isdir(os.path.join(V, "seeded", i))]
claimed = [c["property_id"] for c in json.load(open(os.path.join(V, "MANIFEST.json")))["checks"]]
props = opt("--props")
props = props.split(",") if props else claimed
matrix = {}
for mid in ids:
    d = "/tmp/mut/" + mid
    subprocess.call(["rm", "-rf", d])
    os.makedirs("/tmp/mut", exist_ok=True)
    subprocess.check_call(["git", "-C", "/repo", "worktree", "add", "--detach", d, "HEAD"],
                          stdout=subprocess.DEVNULL, stderr=subprocess.DEVNULL)
    try:
        subprocess.check_call(["git", "-C", d, "apply", os.path.join(V, "seeded", mid, "patch.diff")])
        row = {}
        todo = [p for p in props if p in claimed]
        if "--same" in args:
            own = json.load(open(os.path.join(V, "seeded", mid, "meta.json")))["breaks_property"]
            todo = [p for p in todo if p == own]
        for p in todo:
            t = time.time()
            r = subprocess.run(["python3-vt", os.path.join(V, "check.py"), p],
                               capture_output=True, text=True, cwd=V,
                               env=dict(os.environ, PYVC_REPO=d,
                                        PYVC_EVIDENCE_DIR="/tmp/mut/evidence",
                                        PYVC_REPLAY_DIR="/tmp/mut/replays"))
            viol = [l for l in r.stdout.splitlines() if l.startswith("VIOLATION")]
            row[p] = {"exit": r.returncode, "violations": len(viol),
                      "first": viol[0][:300] if viol else (r.stdout.strip().splitlines() or [""])[-1][:300],
                      "wall_s": round(time.time() - t, 1)}
            print(mid, p, "exit=%d" % r.returncode, row[p]["first"][:200], flush=True)
        matrix[mid] = row
    finally:
        subprocess.call(["git", "-C", "/repo", "worktree", "remove", "--force", d],
                        stdout=subprocess.DEVNULL, stderr=subprocess.DEVNULL)
out = opt("--out")
if out:
    json.dump(matrix, open(out, "w"), indent=1)
