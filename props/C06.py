"""C06 — changing the UTC offset never changes the instant."""
from . import ALL_MODES, T1_CAL, TICK, ADD_EXACT, REZONE, CAL_LEMMAS

ID = "C06"
LEVEL = "other"
MODES = ALL_MODES
FUNCS = ["data:TimePoint.to_time_zone", "data:TimePoint.to_utc",
         "data:TimePoint.to_local_time_zone", "timezone:get_local_time_zone",
         "ghost:rezone_preserves", "ghost:rezone_utc_preserves", "ghost:dump_with_literal_zone"]
FUNCS = FUNCS + T1_CAL + TICK + ADD_EXACT
# quick: one literal per date representation and notation (the thorough tier runs all 31)
QUICK_FILTER = {"ghost:dump_with_literal_zone": lambda c: c in (
    "cal|CCYY-MM-DDThh:mm:ss-00:30", "ord|CCYYDDDThhmmss-0330", "week|CCYY-Www-DThh:mm:ssZ",
    "cal|CCYYMMDDThhmmss+0000", "week|CCYY-Www-DThh:mm:ss+05:45")}
LEMMAS = CAL_LEMMAS + ["opaque.dby.step", "opaque.dby.range", "cal.key.order", "ord.key.order",
          "day.split.unique", "hms.split.unique"]
CANARIES = ["canary.dby.step.wrong"]
EXPLANATION = (
    "Proved: to_time_zone / to_utc / to_local_time_zone return a fresh point with the "
    "same instant, the requested offset, the same representation and valid fields, for "
    "all shapes, offsets -99:59..+99:59 and modes; 'compares equal, hashes equal, zero "
    "difference' are ghost programs over the C02/C04 contracts. Dump with a literal zone: "
    "the REAL dumper (format analysis, get_time_zone, re-zoning, formatting) and the REAL "
    "parser executed on a symbolic whole-second point for 8 zone literals (Z, +01, -0330, "
    "+05:45, -00:30, +14:00, -12, +0000) x 3 representations x basic/extended: the text "
    "parses back to a point equal to p that carries exactly the literal's offset, keeps the "
    "representation and has valid fields (ghost program dump_with_literal_zone; gregorian "
    "mode). BOUNDED: every other zone literal (enumerated: finite).")
LEVEL_TEXT = ("Data-model part: proof. Dump-with-literal-zone: proof for 8 literals on every "
              "point, exhaustive enumeration of every zone literal on 3 points (bounded). "
              "Hence 'other'.")
LEVEL_NOTE = ("Floats as reals; the text decoding of zone literals in the dumper is "
              "covered by enumeration, not proof.")


def bounded(tier, seed, repo):
    from . import text_bounded
    return text_bounded.check_c06_zone_literals(tier, seed, repo)
