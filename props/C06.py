"""C06 — changing the UTC offset never changes the instant."""
from . import ALL_MODES, T1_CAL, TICK, ADD_EXACT, REZONE, CAL_LEMMAS

ID = "C06"
LEVEL = "other"
MODES = ALL_MODES
FUNCS = ["data:TimePoint.to_time_zone", "data:TimePoint.to_utc",
         "data:TimePoint.to_local_time_zone", "timezone:get_local_time_zone",
         "ghost:rezone_preserves", "ghost:rezone_utc_preserves"]
FUNCS = FUNCS + T1_CAL + TICK + ADD_EXACT
LEMMAS = CAL_LEMMAS + ["opaque.dby.step", "opaque.dby.range", "cal.key.order", "ord.key.order",
          "day.split.unique", "hms.split.unique"]
CANARIES = ["canary.dby.step.wrong"]
EXPLANATION = (
    "Proved: to_time_zone / to_utc / to_local_time_zone return a fresh point with the "
    "same instant, the requested offset, the same representation and valid fields, for "
    "all shapes, offsets -99:59..+99:59 and modes; 'compares equal, hashes equal, zero "
    "difference' are ghost programs over the C02/C04 contracts. BOUNDED (not proved): the "
    "dump-with-a-literal-zone clause, where the zone literal is decoded from text.")
LEVEL_TEXT = ("Data-model part: proof. Dump-with-literal-zone part: exhaustive enumeration "
              "of every zone literal (finite), labelled bounded. Hence 'other'.")
LEVEL_NOTE = ("Floats as reals; the text decoding of zone literals in the dumper is "
              "covered by enumeration, not proof.")


def bounded(tier, seed, repo):
    from . import text_bounded
    return text_bounded.check_c06_zone_literals(tier, seed, repo)
