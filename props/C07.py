"""C07 — the parser decodes every documented date-time form to exactly its fields"""
from . import ALL_MODES, T1_CAL, CAL_LEMMAS
from . import text_bounded

ID = "C07"
LEVEL = "other"
MODES = ["gregorian"]
FUNCS = ["data:TimePoint.__init__", "data:TimeZone.__init__", "parsers:TimePointParser._create_timepoint_from_info", "parsers:TimePointParser.process_time_zone_info",
         "parsers:TimePointParser.parse", "ghost:parse_dump_as_parsed"]
LEMMAS = ["wiy.range", "opaque.dby.step", "opaque.dby.range"]
CANARIES = ["canary.week52"]
EXPLANATION = ("PROVED: (P0) the REAL TimePointParser.parse (get_info, get_date_info, get_time_info, get_time_zone_info, process_time_zone_info, _create_timepoint_from_info, TimePoint.__init__) EXECUTED on every complete date-time form as a piecewise TEXT with symbolic digit fields - 6 date notations x {CCYY, +XCCYY, -XCCYY} x {no time, hh, hhmm, hhmmss, each with comma/point decimals} x both time notations x {no zone, Z, +-hh, +-hhmm / +-hh:mm} = 1962 forms, plus the reduced-precision dates (CCYY-MM, CCYY, CC, CCYYWww, CCYY-Www, signed or not) and four further parser configurations (no expanded digits; basic-only: every basic form accepted, every extended-only spelling refused; default-to-unknown zone: UTC; no assumption: the system's local offset, over a symbolic time module) and the 24 truncated date forms with truncation enabled (-YYMM ... -Www-D: exactly the spelled fields, everything else absent, truncated property recorded; a spelled two- or one-digit year is the year the other fields are validated against, otherwise leap-year lengths / 53 weeks) and the time-only truncated forms Thh, Thhmm(ss), T-mm, T-mmss / T-mm:ss, T--ss with no zone (unknown), Z, +hh, -hhmm / -hh:mm - 3531 cases: the digits of the text end up in exactly the fields the notation says, omitted fields default, the assumed zone applies when none is written, BadInputError exactly for impossible values, and every basic/extended mix is refused; string splitting is decided on the piece structure and each regex.match of the real tables by the lexing lemma (pyvc/textlex.py); parse(text, dump_as_parsed=True) dumped with its own format is the input text again, piece for piece (ghost program parse_dump_as_parsed executing the real parser and dumper; 396 non-decimal forms; the negative-zero spellings -000000 and -00:00 are second spellings of +000000 / +00:00 and are dumped as those); (P1) lexing determinism on the REAL compiled regex tables - for every documented complete date/time/zone form (regular languages written from the property) the first pattern in the real search order that can match covers the whole form, has the right notation key, is anchored and fixed-width and decodes a sample to the expected groups; a basic-only parser matches no extended-only form (177 regular-language obligations, z3); (P2) field assembly - _create_timepoint_from_info and process_time_zone_info executed on SYMBOLIC digit fields: year = +-(10000 X + 100 CC + YY), every field stored as spelled, defaults for omitted fields, Z and signed zones (sign applied to hours and minutes), decimals, BadInputError exactly for impossible fields; the field-level accept/reject decision and field storage of TimePoint.__init__ (C09 contracts) which every notation feeds; memoisation soundness of parser/dumper caches. BOUNDED: decoding of text - the form catalogue (written from the property, not from parser_spec) x boundary/random values x parser configurations: fields, defaults, zone resolution, dump_as_parsed reproduction, basic-only acceptance, no basic/extended mixing, truncated forms.")
ASSUMPTIONS = ["truncated date+time combinations and decimal truncated times, expanded digits other than 0/2 and dump_as_parsed of decimal forms: bounded grid only",
               "split lemma of pyvc/textlex.py (prose induction; hypotheses machine-checked)",
               "digit fields are ASCII digits; float('0.'+digits) is digits/10^n (floats as reals)"]
LEVEL_TEXT = "Complete and reduced forms under five parser configurations and dump_as_parsed of non-decimal forms: proof (real parser/dumper executed on symbolic texts); truncated date+time combinations, decimal dump_as_parsed: bounded grid. Hence other."
LEVEL_NOTE = "see DESIGN.md A.4 (as built) and section 5/C07 (plan)"


def custom(tier, seed, repo):
    from pyvc.source import SourceDB
    from pyvc.footprint import Analysis
    a = Analysis(SourceDB(repo))
    return [{"name": n, "ok": ok, "detail": d, "backend": "ast-footprint", "reproduced": False}
            for (n, ok, d) in a.persistent_store_obligations() + a.memo_obligations()
            if any(m in n for m in ("parsers:", "dumpers:"))]


def bounded(tier, seed, repo):
    return text_bounded.check_c07(tier, seed, repo)


# ---------------------------------------------------------------- P1: lexing determinism
# obligations on the REAL compiled regex tables (regular-language queries, z3)
def _search_order(parser, which, **kw):
    """The order in which the real get_*_info tries its patterns: observed by
    running the real method over recording proxies (not re-implemented here)."""
    import copy
    order = []

    class Proxy:
        def __init__(self, rx, where):
            self.rx, self.where = rx, where

        def match(self, s):
            order.append((self.where, self.rx))
            return None
    p = copy.copy(parser)
    if which == "date":
        p._date_regex_map = {fk: {tk: [[Proxy(rx, (fk, tk, ex)), ex] for rx, ex in lst]
                                  for tk, lst in tm.items()}
                             for fk, tm in parser._date_regex_map.items()}
        fn = p.get_date_info
    elif which == "time":
        p._time_regex_map = {fk: {tk: [[Proxy(rx, (fk, tk, ex)), ex] for rx, ex in lst]
                                  for tk, lst in tm.items()}
                             for fk, tm in parser._time_regex_map.items()}
        fn = p.get_time_info
    else:
        p._time_zone_regex_map = {fk: [[Proxy(rx, (fk, None, ex)), ex] for rx, ex in lst]
                                  for fk, lst in parser._time_zone_regex_map.items()}
        fn = p.get_time_zone_info
    try:
        fn("\x00", **kw)
    except ValueError:
        pass
    return order


def _raw_date(kind, f, x):
    y = f["year"]
    d = {"century": "%02d" % (abs(y) % 10000 // 100), "year_of_century": "%02d" % (abs(y) % 100)}
    if kind.startswith("x"):
        d["year_sign"] = "-" if y < 0 else "+"
        d["expanded_year"] = "%0*d" % (x, abs(y) // 10000)
    k = kind.lstrip("x")
    if k == "cal":
        d.update(month_of_year="%02d" % f["month_of_year"], day_of_month="%02d" % f["day_of_month"])
    elif k == "ord":
        d.update(day_of_year="%03d" % f["day_of_year"])
    else:
        d.update(week_of_year="%02d" % f["week_of_year"], day_of_week="%d" % f["day_of_week"])
    return d


def lexing_obligations(repo):
    import sys
    if repo not in sys.path:
        sys.path.insert(0, repo)
    import re as _re
    from metomi.isodatetime.parsers import TimePointParser
    from pyvc import relang
    from . import forms as F
    out = []

    def ob(name, ok, detail):
        out.append({"name": name, "ok": ok is True, "detail": detail, "backend": "z3-regex",
                    "reproduced": False if ok is not True else None})
    cache = {}

    def lang(rx):
        k = rx.pattern
        if k not in cache:
            cache[k] = relang.to_z3(rx)
        return cache[k]

    def first_match(order, LF, want_style, tag, sample, expect_groups):
        for idx, ((fk, tk, ex), rx) in enumerate(order):
            dj, wit = relang.disjoint(lang(rx), LF)
            if dj is None:
                return ob(tag + ".decided", None, "regex query undecided for %s" % ex)
            if dj:
                continue
            inc, wit2 = relang.included(LF, lang(rx))
            ob(tag + ".first-match-covers-form", inc,
               "first pattern that can match is %r (%s/%s); counterexample text %r"
               % (ex, fk, tk, wit2))
            ob(tag + ".style", want_style in ("both", fk),
               "matched under format key %r, form is %s" % (fk, want_style))
            ob(tag + ".anchored-fixed-width", relang.anchored(rx) and (
                relang.fixed_width(rx) or expect_groups is None or "frac" in expect_groups),
               "pattern %r" % rx.pattern)
            if expect_groups is not None:
                m = rx.match(sample)
                got = {k: v for k, v in (m.groupdict() if m else {}).items()
                       if v is not None and k != "truncated"}
                exp = {k: v for k, v in expect_groups.items() if k != "frac"}
                if "frac" in expect_groups:
                    got = {k: v for k, v in got.items() if not k.endswith("_decimal")}
                ob(tag + ".groups", got == exp, "sample %r decodes to %r, expected %r"
                   % (sample, got, exp))
            return
        ob(tag + ".some-pattern-matches", False, "no pattern of the table matches the form")

    def none_match(patterns, LF, tag):
        for rx, ex in patterns:
            dj, wit = relang.disjoint(lang(rx), LF)
            if dj is not True:
                return ob(tag, dj, "pattern %r matches %r" % (ex, wit))
        ob(tag, True, "no pattern of the basic-only tables matches the form")
    for x in (2, 0):
        P = TimePointParser(num_expanded_year_digits=x)
        PB = TimePointParser(num_expanded_year_digits=x, allow_only_basic=True)
        o_date_t = _search_order(P, "date", bad_types=["reduced"])
        basic_pats = [(rx, ex) for fk, tm in PB._date_regex_map.items()
                      for tk, lst in tm.items() for rx, ex in lst]
        for name, df in F.date_forms(x).items():
            LF = relang.to_z3(df["regex"])
            y = -2004 if df["kind"].startswith("x") else 1985
            sample_f = dict(year=y, month_of_year=4, day_of_month=12, day_of_year=102,
                            week_of_year=15, day_of_week=5)
            sample_f = {k: sample_f[k] for k in df["fields"]}
            first_match(o_date_t, LF, df["style"], "lex[x=%d].date[%s]" % (x, name),
                        df["render"](sample_f), _raw_date(df["kind"], sample_f, x))
            if df["style"] == "extended":
                none_match(basic_pats, LF, "lex[x=%d].only-basic-refuses[%s]" % (x, name))
        if x == 2:
            tforms, zforms = F.time_forms(), F.zone_forms()
            for style in ("basic", "extended"):
                other = ["extended"] if style == "basic" else ["basic"]
                o_time = _search_order(P, "time", bad_formats=other, bad_types=["truncated"])
                o_zone = _search_order(P, "zone", bad_formats=other)
                sep = ":" if style == "extended" else ""
                for tname, tf in tforms.items():
                    if tf["style"] != style:
                        continue
                    flds = [f for f in tf["fields"] if f != "frac"]
                    rx = sep.join("[0-9]{2}" for _ in flds)
                    mark = {",": ",", ".": "\\."}.get(tname.split(":")[0][-1])
                    if tf.get("decimal"):
                        rx += mark + "[0-9]+"
                    sample_f = dict(hour_of_day=6, minute_of_hour=58, second_of_minute=7,
                                    frac="25")
                    exp = {k: "%02d" % sample_f[k] for k in flds}
                    if tf.get("decimal"):
                        exp["frac"] = "25"
                    first_match(o_time, relang.to_z3(rx), style,
                                "lex.time[%s]" % tname, tf["render"](sample_f), exp)
                for zname, zf in zforms.items():
                    if zname == "none" or zf["style"] not in ("both", style):
                        continue
                    rx = {"Z": "Z", "hh": "[-+][0-9]{2}", "hhmm": "[-+][0-9]{4}",
                          "hh:mm": "[-+][0-9]{2}:[0-9]{2}"}[zname]
                    sample = zf["render"](dict(tzh=-3, tzm=-30))
                    exp = {"Z": {"time_zone_utc": "Z"},
                           "hh": {"time_zone_sign": "-", "time_zone_hour": "03"},
                           "hhmm": {"time_zone_sign": "-", "time_zone_hour": "03",
                                    "time_zone_minute": "30"},
                           "hh:mm": {"time_zone_sign": "-", "time_zone_hour": "03",
                                     "time_zone_minute": "30"}}[zname]
                    first_match(o_zone, relang.to_z3(rx), style,
                                "lex.zone[%s:%s]" % (zname, style), sample, exp)
    return out


_memo_custom = custom


def custom(tier, seed, repo):
    from . import lean_split_lemma_obligation
    return _memo_custom(tier, seed, repo) + lexing_obligations(repo) + \
        lean_split_lemma_obligation(tier)
