"""C07 — the parser decodes every documented date-time form to exactly its fields"""
from . import ALL_MODES, T1_CAL, CAL_LEMMAS
from . import text_bounded

ID = "C07"
LEVEL = "other"
MODES = ["gregorian"]
FUNCS = ["data:TimePoint.__init__", "data:TimeZone.__init__"]
LEMMAS = ["wiy.range", "opaque.dby.step", "opaque.dby.range"]
CANARIES = ["canary.week52"]
EXPLANATION = ("PROVED: the field-level accept/reject decision and field storage of TimePoint.__init__ (C09 contracts) which every notation feeds; memoisation soundness of parser/dumper caches. BOUNDED: decoding of text - the form catalogue (written from the property, not from parser_spec) x boundary/random values x parser configurations: fields, defaults, zone resolution, dump_as_parsed reproduction, basic-only acceptance, no basic/extended mixing, truncated forms.")
ASSUMPTIONS = ["text lexing/splitting is covered by the bounded grid only"]
LEVEL_TEXT = "Field assembly target (constructor): proof; text decoding: bounded grid. Hence other."
LEVEL_NOTE = "see DESIGN section 5/C07"


def custom(tier, seed, repo):
    from pyvc.source import SourceDB
    from pyvc.footprint import Analysis
    a = Analysis(SourceDB(repo))
    return [{"name": n, "ok": ok, "detail": d, "backend": "ast-footprint", "reproduced": False}
            for (n, ok, d) in a.persistent_store_obligations() + a.memo_obligations()
            if any(m in n for m in ("parsers:", "dumpers:"))]


def bounded(tier, seed, repo):
    return text_bounded.check_c07(tier, seed, repo)
