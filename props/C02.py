"""C02 — comparison and hashing of time points follow the timeline."""
from . import ALL_MODES, T1_CAL, TICK, ADD_EXACT, REZONE, CAL_LEMMAS
from . import tp_bounded

ID = "C02"
LEVEL = "proof"
MODES = ALL_MODES
FUNCS = ["data:TimePoint._cmp", "data:TimePoint.__hash__",
         "ghost:order_laws", "ghost:order_transitive",
         "ghost:equal_implies_equal_hash", "ghost:difference_sign_agrees"]
FUNCS = FUNCS + T1_CAL + TICK + ADD_EXACT + REZONE
LEMMAS = CAL_LEMMAS + ["opaque.dby.step", "opaque.dby.range", "cal.key.order", "ord.key.order",
          "day.split.unique", "hms.split.unique"]
CANARIES = ["canary.week52"]
_DI = {"cal": 0, "ord": 1, "week": 2}
_TI = {"hms": 0, "hm": 1, "h": 2}


def _quick_cmp(name):
    """Quick tier: per operator, every date-representation pair and every
    time-form pair occurs (3 Latin squares: 27 of 81 shape pairs)."""
    if "same-object" in name:
        return True
    op, rest = name.split(":")
    a, b = rest.split("/")
    d1, t1 = a.split("-")
    d2, t2 = b.split("-")
    k = _DI[d1] * 3 + _DI[d2]
    tp = _TI[t1] * 3 + _TI[t2]
    return tp in (k, (k + 3) % 9, (k + 7) % 9)


QUICK_FILTER = {"data:TimePoint._cmp": _quick_cmp}
EXPLANATION = (
    "TimePoint._cmp is verified per literal operator and per pair of operand shapes: "
    "result <=> order of instant(); __hash__ hashes a tuple determined by the instant. "
    "Trichotomy, symmetry, complementarity, unions, transitivity, equal=>equal-hash and "
    "sign(a-b) are ghost programs proved over those contracts. Quick tier: 27 of the 81 "
    "shape pairs per operator (every date pair x every time-form pair); thorough: all 81.")
ASSUMPTIONS = ["the bounded grid `timepoint.same-instant-spellings` adds nothing on a tree where "
               "every obligation is discharged; it is there for changed code that leaves the "
               "verifier's reach (a rewritten __hash__ / _cmp with a loop that has no "
               "invariant is reported `undecided` by the proof part)",
               "Python's default __ne__ negates __eq__ (language rule)",
               "hash() is an uninterpreted function with congruence (equal argument tuples => equal hash)"]
LEVEL_TEXT = ("Proof of result <=> instant order for all field values, offsets, years and "
              "modes, 24:00 included; order laws as lemmas over the contract.")
LEVEL_NOTE = ("Floats as reals; PyVC/z3/cvc5 trusted; quick tier proves a covering subset "
              "of shape pairs, thorough all of them.")


def bounded(tier, seed, repo):
    """Safety net for a changed tree on which _cmp / __hash__ has fallen out of the
    verifier's reach (the proof then says `undecided`); never counted as proved."""
    return tp_bounded.check_c02(tier, seed, repo)
