"""C12 — a recurrence iterates exactly the series it denotes."""
from . import ALL_MODES, CAL_LEMMAS
from . import rec_bounded

ID = "C12"
LEVEL = "other"
MODES = ALL_MODES
FUNCS = ["data:TimeRecurrence.__init__", "data:TimeRecurrence.__iter__",
         "data:TimeRecurrence._get_is_in_bounds", "data:TimeRecurrence.get_next",
         "data:TimeRecurrence.get_prev", "ghost:rec_three_notations_equal",
         ("data:TimeRecurrence.__eq__", r"^(fwd-bounded/fwd-bounded|single/single)$")]
LEMMAS = CAL_LEMMAS + ["mul.mono"]
CANARIES = ["canary.week52"]
QUICK_MODES = ["gregorian", "360day"]
EXPLANATION = (
    "PROVED for exact intervals (any length > 0, anchors in any shape/zone): the constructor "
    "derives the missing end/start as anchor +- (n-1) x interval per notation, collapses one "
    "repetition / zero interval to the single-point form and refuses the documented bad "
    "inputs; __iter__ (a generator, verified with a ghost yield counter and a universally "
    "quantified yield index) yields anchor, anchor +- d, anchor +- 2d, ... - the k-th point "
    "has instant anchor +- k x len(d) - exactly n points for a bounded series, and never "
    "stops for an unbounded one; the three notations of one finite series are == (ghost "
    "program). BOUNDED: nominal (month/year) intervals - counts and anchors are not a "
    "consequence of the per-function contracts - on a grid of month-end / leap-day / day-366 "
    "/ week-53 anchors.")
ASSUMPTIONS = ["lru_cache is the identity for the executor: justified per call by the obligation "
               "memo[f].key-equality-is-identity (no key argument of a memoised function is an "
               "instance of a class with its own __eq__, e.g. a TimePoint compared by instant) "
               "together with C15's key-covers-calendar obligations",
               "min_point/max_point are None (as the parser produces them)",
               "nominal intervals: bounded grid only (one known finding, region-listed)"]
LEVEL_TEXT = "Exact intervals: proof. Nominal intervals: bounded grid. Hence 'other'."
LEVEL_NOTE = "Quick tier runs the recurrence proofs in 2 calendar modes, thorough in 4."


def bounded(tier, seed, repo):
    return rec_bounded.check_c12(tier, seed, repo)
