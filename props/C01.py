"""C01 — adding an exact duration translates the instant exactly."""
from . import ALL_MODES, T1_CAL, CAL_LEMMAS
from . import tp_bounded

ID = "C01"
LEVEL = "proof"
MODES = ALL_MODES
FUNCS = [
    "data:TimePoint._tick_over_day_of_month", "data:TimePoint._tick_over",
    ("data:TimePoint.__add__", r"^(?!.*\+mixed:)"), ("data:TimePoint.__sub__", r"^(cal|ord|week)-"),
    ("data:Duration.__add__", r"\+tp-"), "data:Duration.__mul__",
]
FUNCS = FUNCS + T1_CAL
LEMMAS = CAL_LEMMAS + ["opaque.dby.step", "opaque.dby.range", "wiy.range"]
CANARIES = ["canary.dby.step.wrong"]
EXPLANATION = (
    "TimePoint.__add__/__sub__(Duration), _tick_over and _tick_over_day_of_month are "
    "verified against instant()/normal() for all 9 shapes (3 date representations x 3 "
    "time forms), unit and week durations, all years/offsets/duration sizes, 4 modes. "
    "Proved over the reals: exact for whole-second values below 2**53; the 'within a "
    "microsecond' clause for fractional values rests on the float-as-real assumption.")
ASSUMPTIONS = [
    "the bounded grid in this check adds nothing on a tree where every obligation is discharged; it is a safety net for changed code that leaves the verifier's reach (reported `undecided` by the proof part), labelled bounded, never counted as proved",
   
    "fractional time fields / duration components: proved over mathematical reals; IEEE "
    "rounding (the 'within a microsecond' clause) is not decided by this check",
    "known finding KF-C01-1 is excluded from __add__'s own proof by its region predicate; "
    "callers are verified against __add__'s full contract",
]
LEVEL_TEXT = ("Proof: postconditions instant(result) == instant(p) + len(d), same "
              "representation/zone, all fields in legal range, for every shape and "
              "every integer/real field value, by inductive loop invariants (no bound "
              "on years, offsets or duration size).")
LEVEL_NOTE = ("Floats modelled as reals; PyVC translation and z3/cvc5 trusted; callee "
              "contracts (calendar helpers) are proved under C03. One known finding "
              "(24:00 + zero duration) is region-excluded and reported on every run.")


def bounded(tier, seed, repo):
    """Safety net for a changed tree on which a function of the cone has fallen out of the
    verifier's reach (the proof then says `undecided`); never counted as proved."""
    return tp_bounded.check_c01(tier, seed, repo)
