"""C10 — durations survive a round trip through text"""
from . import ALL_MODES, T1_CAL, CAL_LEMMAS
from . import text_bounded

ID = "C10"
LEVEL = "other"
MODES = ["gregorian"]
FUNCS = ["data:Duration.__eq__", "data:Duration.__abs__", "data:Duration.__hash__",
         "data:Duration.__str__", "parsers:DurationParser.parse", "ghost:dur_text_round_trip"]
LEMMAS = []
CANARIES = ["canary.week52"]
EXPLANATION = ("PROVED for integer component values (all 63 unit subsets x both signs, weeks, empty): the REAL Duration.__str__ executed symbolically emits exactly the designator spelling written from the property; the REAL DurationParser.parse executed on designator forms with symbolic number spellings (integers; comma and point decimals for the time units; leading '-') returns exactly those component values - regex matching on a form being replaced by the lexing lemma of pyvc/textlex.py (priority alternative + unique split) whose hypotheses are regular-language obligations discharged by z3 on the real DURATION_REGEXES and cross-checked on samples with re; the composition parse(str(d)) has d's fields, equals d, hashes equally and prints the same text (ghost program executing both real functions); the DATE-TIME-LIKE spelling P[YYYY]-[MM]-[DD][T[hh]:[mm]:[ss]] and its basic form, on symbolic digit fields: parse returns the Duration whose years, months, days, hours, minutes, seconds are exactly the spelled numbers, i.e. the same duration as the designator spelling with those numbers (the real fall-through of DurationParser.parse into TimePointParser(is_duration=True) executed); the Duration value contracts (__eq__, __abs__, __hash__). BOUNDED (str(float)/float(str) are outside the modelled subset): parse(str(d)) == d and str fixpoint over all 63 unit subsets x both signs x integer/decimal values, weeks, empty; designator faithfulness; the date-time-like spelling (basic and extended).")
ASSUMPTIONS = ["str(float) (decimal component values in the str direction) is outside the modelled subset: bounded grid",
               "int(str(n)) == n and str(n) of n >= 0 is a non-empty ASCII digit run (CPython axiom)",
               "float() of a decimal text is the real number it denotes (floats as reals)",
               "split lemma of pyvc/textlex.py (10-line induction on strings, stated in the module) - its hypotheses are machine-checked",
               "TimePointParser(...) inside parse_timepoint_expression is evaluated natively on its concrete arguments (the real constructor builds the regex tables), not verified"]
LEVEL_TEXT = "Bounded grid plus proved value contracts: other."
LEVEL_NOTE = "see DESIGN.md A.4 (as built) and section 5/C10 (plan)"


def custom(tier, seed, repo):
    from pyvc.source import SourceDB
    from pyvc.footprint import Analysis
    a = Analysis(SourceDB(repo))
    return [{"name": n, "ok": ok, "detail": d, "backend": "ast-footprint", "reproduced": False}
            for (n, ok, d) in a.persistent_store_obligations() + a.memo_obligations()
            if any(m in n for m in ("parsers:DurationParser",))]


def lexing_obligations(repo):
    """the lexing lemma for every designator form, on the REAL DURATION_REGEXES in the
    order DurationParser.parse tries them; plus a sample cross-check against re"""
    import sys
    if repo not in sys.path:
        sys.path.insert(0, repo)
    from metomi.isodatetime.parsers import DurationParser
    from pyvc import textlex
    regs = list(DurationParser.DURATION_REGEXES)
    units = [("years", "Y"), ("months", "M"), ("days", "D"),
             ("hours", "H"), ("minutes", "M"), ("seconds", "S")]
    out = []

    def ob(name, ok, detail):
        out.append({"name": name, "ok": ok is True, "detail": detail, "backend": "z3-regex",
                    "reproduced": False if ok is not True else None})
    forms = []
    for mask in range(1, 64):
        for dec in (None, ",", "."):
            if dec and not mask >> 3:
                continue
            shape, expect, sample = [("s", "P")], {}, "P"
            seen_t = False
            for i, (nm, letter) in enumerate(units):
                if not mask >> i & 1:
                    continue
                if i >= 3 and not seen_t:
                    shape.append(("s", "T"))
                    sample += "T"
                    seen_t = True
                if i >= 3 and dec:
                    shape.append(("d", dec))
                    sample += "%d%s%02d" % (i + 1, dec, 25 + i)
                    expect[nm] = "%d%s%02d" % (i + 1, dec, 25 + i)
                else:
                    shape.append(("i",))
                    sample += "%d" % (10 * i + 7)
                    expect[nm] = "%d" % (10 * i + 7)
                shape.append(("s", letter))
                sample += letter
            forms.append(("".join(l if mask >> i & 1 else "-" for i, (n, l) in enumerate(units))
                          + (dec or ""), shape, expect, sample))
    forms.append(("weeks", [("s", "P"), ("i",), ("s", "W")], {"weeks": "52"}, "P52W"))
    for (name, shape, expect, sample) in forms:
        merged = []
        for p in shape:
            if p[0] == "s" and merged and merged[-1][0] == "s":
                merged[-1] = ("s", merged[-1][1] + p[1])
            else:
                merged.append(p)
        shape = tuple(merged)
        decided = False
        for ri, rx in enumerate(regs):
            verdict, groups, obs = textlex.analyse(rx, shape)
            for (n, ok, d) in obs:
                ob("durlex[%s].regex[%d].%s" % (name, ri, n), ok, d)
            if verdict == "nomatch":
                continue
            decided = True
            if verdict == "match":
                got = {k: v[1] for k, v in groups.items() if v is not None}
                pieces = [i for i, p in enumerate(shape) if p[0] != "s"]
                want = dict(zip(list(expect), pieces))
                ob("durlex[%s].groups-are-the-designated-units" % name, got == want,
                   "group -> piece index %r, expected %r" % (got, want))
                m = rx.search(sample)
                real = {k: v for k, v in (m.groupdict() if m else {}).items() if v is not None}
                ob("durlex[%s].sample-agrees-with-re" % name, real == expect,
                   "re gives %r for %r, lemma predicts %r" % (real, sample, expect))
            break
        if not decided:
            ob("durlex[%s].some-regex-matches" % name, False,
               "no pattern of DURATION_REGEXES matches the designator form (e.g. %r)" % sample)
    return out


_memo_custom = custom


def custom(tier, seed, repo):
    from . import lean_split_lemma_obligation
    return _memo_custom(tier, seed, repo) + lexing_obligations(repo) + \
        lean_split_lemma_obligation(tier)


def bounded(tier, seed, repo):
    return text_bounded.check_c10(tier, seed, repo)
