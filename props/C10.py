"""C10 — durations survive a round trip through text"""
from . import ALL_MODES, T1_CAL, CAL_LEMMAS
from . import text_bounded

ID = "C10"
LEVEL = "other"
MODES = ["gregorian"]
FUNCS = ["data:Duration.__eq__", "data:Duration.__abs__", "data:Duration.__hash__"]
LEMMAS = []
CANARIES = ["canary.week52"]
EXPLANATION = ("PROVED: the Duration value contracts the round trip is stated over (__eq__, __abs__, __hash__). BOUNDED: parse(str(d)) == d and str fixpoint over all 63 unit subsets x both signs x integer/decimal values, weeks, empty; designator faithfulness; the date-time-like spelling (basic and extended).")
ASSUMPTIONS = ["str(float)/float(str) and the regular expressions are outside the modelled subset"]
LEVEL_TEXT = "Bounded grid plus proved value contracts: other."
LEVEL_NOTE = "see DESIGN section 5/C10"


def custom(tier, seed, repo):
    from pyvc.source import SourceDB
    from pyvc.footprint import Analysis
    a = Analysis(SourceDB(repo))
    return [{"name": n, "ok": ok, "detail": d, "backend": "ast-footprint", "reproduced": False}
            for (n, ok, d) in a.persistent_store_obligations() + a.memo_obligations()
            if any(m in n for m in ("parsers:DurationParser",))]


def bounded(tier, seed, repo):
    return text_bounded.check_c10(tier, seed, repo)
