"""C17 — strftime matches POSIX for the supported directives and strptime inverts it"""
from . import ALL_MODES, T1_CAL, CAL_LEMMAS
from . import text_bounded

ID = "C17"
LEVEL = "other"
MODES = ["gregorian"]
FUNCS = ["dumpers:TimePointDumper.strftime", "data:TimePoint.strftime", "ghost:dump_fields_recompose", "ghost:strftime_year_is_civil_year", "data:TimePoint.seconds_since_unix_epoch",
         "ghost:strftime_strptime_round_trip"]
LEMMAS = CAL_LEMMAS
CANARIES = ["canary.week52"]
EXPLANATION = ("PROVED through the real dumper code path (TimePointDumper.strftime symbolically executed on symbolic TimePoints in all 3 representations): for %%Y, %%F, %%Y-%%m-%%d, %%j, %%H:%%M:%%S, %%X, %%z, %%s the template and the value every conversion prints are those POSIX defines over the civil date-time (civil year contains the day; month/day/day-of-year of that day; h/m/s; sign and magnitudes of the offset; exact Unix seconds), year outside 0000-9999 raises TimePointDumperBoundsError, unsupported directives raise StrftimeSyntaxError; %%s content - seconds_since_unix_epoch is the exact integer distance from the epoch for every whole-second point in any shape/offset. strptime INVERSE proved for five full formats (%%Y-%%m-%%dT%%H:%%M:%%S%%z, %%Y%%m%%dT%%H%%M%%S%%z, %%FT%%X%%z, %%Y-%%jT%%H:%%M:%%S%%z, %%d.%%m.%%Y %%H:%%M:%%S %%z) x 3 representations of a whole-second point in years 0000-9999 with any valid offset: the REAL strftime, the REAL strptime (regex built at run time from the format, compiled, and matched against the formatted text by the lexing lemma) and TimePoint.__init__ composed: the result equals p and carries p's offset (ghost program strftime_strptime_round_trip). BOUNDED: every supported directive and literal text against POSIX values computed from the spec, for years 0000..9999 boundaries x 3 representations x 12 offsets x 17 format strings; strptime inverse for full formats; 28 unsupported directives refused.")
ASSUMPTIONS = ["%%-template formatting and regex construction are outside the modelled subset"]
LEVEL_TEXT = "%%s numeric content: proof; directive rendering: bounded grid. Hence other."
LEVEL_NOTE = "see DESIGN.md A.4 (as built) and section 5/C17 (plan)"


def custom(tier, seed, repo):
    from pyvc.source import SourceDB
    from pyvc.footprint import Analysis
    a = Analysis(SourceDB(repo))
    return [{"name": n, "ok": ok, "detail": d, "backend": "ast-footprint", "reproduced": False}
            for (n, ok, d) in a.persistent_store_obligations() + a.memo_obligations()
            if any(m in n for m in ("dumpers:", "parsers:"))]


def bounded(tier, seed, repo):
    return text_bounded.check_c17(tier, seed, repo)
