"""C17 — strftime matches POSIX for the supported directives and strptime inverts it"""
from . import ALL_MODES, T1_CAL, CAL_LEMMAS
from . import text_bounded

ID = "C17"
LEVEL = "other"
MODES = ["gregorian"]
FUNCS = ["data:TimePoint.seconds_since_unix_epoch"]
LEMMAS = CAL_LEMMAS
CANARIES = ["canary.week52"]
EXPLANATION = ("PROVED: %%s content - seconds_since_unix_epoch is the exact integer distance from the epoch for every whole-second point in any shape/offset. BOUNDED: every supported directive and literal text against POSIX values computed from the spec, for years 0000..9999 boundaries x 3 representations x 12 offsets x 17 format strings; strptime inverse for full formats; 28 unsupported directives refused.")
ASSUMPTIONS = ["%%-template formatting and regex construction are outside the modelled subset"]
LEVEL_TEXT = "%%s numeric content: proof; directive rendering: bounded grid. Hence other."
LEVEL_NOTE = "see DESIGN section 5/C17"


def custom(tier, seed, repo):
    from pyvc.source import SourceDB
    from pyvc.footprint import Analysis
    a = Analysis(SourceDB(repo))
    return [{"name": n, "ok": ok, "detail": d, "backend": "ast-footprint", "reproduced": False}
            for (n, ok, d) in a.persistent_store_obligations() + a.memo_obligations()
            if any(m in n for m in ("dumpers:", "parsers:"))]


def bounded(tier, seed, repo):
    return text_bounded.check_c17(tier, seed, repo)
