"""Catalogue of the date-time expression forms the library documents, written
from the property statement and ISO 8601 - NOT read from parser_spec, which is
code under test.  Each form has a renderer (fields -> text) and the fields the
parser must report.  Used by the C07/C08/C17/C19 stand-ins and (regular-language
side) by the regex-table obligations."""


def sgn(y, x):
    return ("-" if y < 0 else "+") + ("%0*d" % (4 + x, abs(y)))


# ---------------------------------------------------------------- complete / reduced dates
# name -> (kind, basic?, renderer(f, x), field names, regular language (python regex))
def date_forms(x):
    """x = number of expanded year digits."""
    X = "[0-9]" * x
    out = {}

    def add(name, basic, ext, fields, rb, re_, rx_b=None, rx_e=None):
        # rb / re_: renderers for basic / extended (None when the form has no such variant)
        if rb is not None:
            out[name + ":basic"] = dict(kind=name, style="basic", fields=fields, render=rb,
                                        regex=rx_b)
        if re_ is not None:
            out[name + ":extended"] = dict(kind=name, style="extended", fields=fields,
                                           render=re_, regex=rx_e)
    Y4 = "[0-9]{4}"
    add("cal", True, True, ("year", "month_of_year", "day_of_month"),
        lambda f: "%04d%02d%02d" % (f["year"], f["month_of_year"], f["day_of_month"]),
        lambda f: "%04d-%02d-%02d" % (f["year"], f["month_of_year"], f["day_of_month"]),
        Y4 + "[0-9]{2}[0-9]{2}", Y4 + "-[0-9]{2}-[0-9]{2}")
    add("ord", True, True, ("year", "day_of_year"),
        lambda f: "%04d%03d" % (f["year"], f["day_of_year"]),
        lambda f: "%04d-%03d" % (f["year"], f["day_of_year"]),
        Y4 + "[0-9]{3}", Y4 + "-[0-9]{3}")
    add("week", True, True, ("year", "week_of_year", "day_of_week"),
        lambda f: "%04dW%02d%d" % (f["year"], f["week_of_year"], f["day_of_week"]),
        lambda f: "%04d-W%02d-%d" % (f["year"], f["week_of_year"], f["day_of_week"]),
        Y4 + "W[0-9]{2}[0-9]", Y4 + "-W[0-9]{2}-[0-9]")
    if x:
        S = "[-+]" + X + Y4
        add("xcal", True, True, ("year", "month_of_year", "day_of_month"),
            lambda f: "%s%02d%02d" % (sgn(f["year"], x), f["month_of_year"], f["day_of_month"]),
            lambda f: "%s-%02d-%02d" % (sgn(f["year"], x), f["month_of_year"], f["day_of_month"]),
            S + "[0-9]{4}", S + "-[0-9]{2}-[0-9]{2}")
        add("xord", True, True, ("year", "day_of_year"),
            lambda f: "%s%03d" % (sgn(f["year"], x), f["day_of_year"]),
            lambda f: "%s-%03d" % (sgn(f["year"], x), f["day_of_year"]),
            S + "[0-9]{3}", S + "-[0-9]{3}")
        add("xweek", True, True, ("year", "week_of_year", "day_of_week"),
            lambda f: "%sW%02d%d" % (sgn(f["year"], x), f["week_of_year"], f["day_of_week"]),
            lambda f: "%s-W%02d-%d" % (sgn(f["year"], x), f["week_of_year"], f["day_of_week"]),
            S + "W[0-9]{2}[0-9]", S + "-W[0-9]{2}-[0-9]")
    return out


def reduced_date_forms(x):
    """Reduced-precision dates (date only; lower-order fields default to the start)."""
    out = {
        "ym": dict(style="both", fields=("year", "month_of_year"),
                   render=lambda f: "%04d-%02d" % (f["year"], f["month_of_year"]),
                   expect=lambda f: dict(f, day_of_month=1)),
        "y": dict(style="both", fields=("year",),
                  render=lambda f: "%04d" % f["year"],
                  expect=lambda f: dict(f, month_of_year=1, day_of_month=1)),
        "c": dict(style="both", fields=("century",),
                  render=lambda f: "%02d" % f["century"],
                  expect=lambda f: dict(year=100 * f["century"], month_of_year=1,
                                        day_of_month=1)),
        "yw:basic": dict(style="basic", fields=("year", "week_of_year"),
                         render=lambda f: "%04dW%02d" % (f["year"], f["week_of_year"]),
                         expect=lambda f: dict(f, day_of_week=1)),
        "yw:extended": dict(style="extended", fields=("year", "week_of_year"),
                            render=lambda f: "%04d-W%02d" % (f["year"], f["week_of_year"]),
                            expect=lambda f: dict(f, day_of_week=1)),
    }
    if x:
        out["xym"] = dict(style="both", fields=("year", "month_of_year"),
                          render=lambda f: "%s-%02d" % (sgn(f["year"], x), f["month_of_year"]),
                          expect=lambda f: dict(f, day_of_month=1))
        out["xy"] = dict(style="both", fields=("year",),
                         render=lambda f: sgn(f["year"], x),
                         expect=lambda f: dict(f, month_of_year=1, day_of_month=1))
    return out


# ---------------------------------------------------------------- times and zones
def time_forms():
    out = {}
    for style, sep in (("basic", ""), ("extended", ":")):
        out["hms:" + style] = dict(
            style=style, fields=("hour_of_day", "minute_of_hour", "second_of_minute"),
            render=lambda f, sep=sep: "%02d%s%02d%s%02d" % (
                f["hour_of_day"], sep, f["minute_of_hour"], sep, f["second_of_minute"]))
        out["hm:" + style] = dict(
            style=style, fields=("hour_of_day", "minute_of_hour"),
            render=lambda f, sep=sep: "%02d%s%02d" % (f["hour_of_day"], sep, f["minute_of_hour"]))
        out["h:" + style] = dict(
            style=style, fields=("hour_of_day",), render=lambda f: "%02d" % f["hour_of_day"])
        for mark in (",", "."):
            out["hms,%s:%s" % (mark, style)] = dict(
                style=style, decimal="second_of_minute",
                fields=("hour_of_day", "minute_of_hour", "second_of_minute", "frac"),
                render=lambda f, sep=sep, mark=mark: "%02d%s%02d%s%02d%s%s" % (
                    f["hour_of_day"], sep, f["minute_of_hour"], sep, f["second_of_minute"],
                    mark, f["frac"]))
            out["hm,%s:%s" % (mark, style)] = dict(
                style=style, decimal="minute_of_hour",
                fields=("hour_of_day", "minute_of_hour", "frac"),
                render=lambda f, sep=sep, mark=mark: "%02d%s%02d%s%s" % (
                    f["hour_of_day"], sep, f["minute_of_hour"], mark, f["frac"]))
            out["h,%s:%s" % (mark, style)] = dict(
                style=style, decimal="hour_of_day", fields=("hour_of_day", "frac"),
                render=lambda f, mark=mark: "%02d%s%s" % (f["hour_of_day"], mark, f["frac"]))
    return out


def zone_forms():
    def sign(f):
        return "-" if (f["tzh"] < 0 or f["tzm"] < 0) else "+"
    return {
        "none": dict(style="both", render=lambda f: "", given=False),
        "Z": dict(style="both", render=lambda f: "Z", given=True, fixed=(0, 0)),
        "hh": dict(style="both", render=lambda f: "%s%02d" % (sign(f), abs(f["tzh"])),
                   given=True, no_minutes=True),
        "hhmm": dict(style="basic", given=True,
                     render=lambda f: "%s%02d%02d" % (sign(f), abs(f["tzh"]), abs(f["tzm"]))),
        "hh:mm": dict(style="extended", given=True,
                      render=lambda f: "%s%02d:%02d" % (sign(f), abs(f["tzh"]), abs(f["tzm"]))),
    }


# ---------------------------------------------------------------- truncated forms
def truncated_date_forms():
    """(text renderer, truncated properties the parser must report)."""
    def P(**kw):
        return kw
    return {
        "-YYMM": (lambda f: "-%02d%02d" % (f["yy"], f["mm"]),
                  lambda f: P(year_of_century=f["yy"], month_of_year=f["mm"])),
        "-YY-MM": (lambda f: "-%02d-%02d" % (f["yy"], f["mm"]),
                   lambda f: P(year_of_century=f["yy"], month_of_year=f["mm"])),
        "-YY": (lambda f: "-%02d" % f["yy"], lambda f: P(year_of_century=f["yy"])),
        "--MMDD": (lambda f: "--%02d%02d" % (f["mm"], f["dd"]),
                   lambda f: P(month_of_year=f["mm"], day_of_month=f["dd"])),
        "--MM-DD": (lambda f: "--%02d-%02d" % (f["mm"], f["dd"]),
                    lambda f: P(month_of_year=f["mm"], day_of_month=f["dd"])),
        "--MM": (lambda f: "--%02d" % f["mm"], lambda f: P(month_of_year=f["mm"])),
        "---DD": (lambda f: "---%02d" % f["dd"], lambda f: P(day_of_month=f["dd"])),
        "YYMMDD": (lambda f: "%02d%02d%02d" % (f["yy"], f["mm"], f["dd"]),
                   lambda f: P(year_of_century=f["yy"], month_of_year=f["mm"],
                               day_of_month=f["dd"])),
        "YY-MM-DD": (lambda f: "%02d-%02d-%02d" % (f["yy"], f["mm"], f["dd"]),
                     lambda f: P(year_of_century=f["yy"], month_of_year=f["mm"],
                                 day_of_month=f["dd"])),
        "YYDDD": (lambda f: "%02d%03d" % (f["yy"], f["ddd"]),
                  lambda f: P(year_of_century=f["yy"], day_of_year=f["ddd"])),
        "YY-DDD": (lambda f: "%02d-%03d" % (f["yy"], f["ddd"]),
                   lambda f: P(year_of_century=f["yy"], day_of_year=f["ddd"])),
        "-DDD": (lambda f: "-%03d" % f["ddd"], lambda f: P(day_of_year=f["ddd"])),
        "YYWwwD": (lambda f: "%02dW%02d%d" % (f["yy"], f["ww"], f["d"]),
                   lambda f: P(year_of_century=f["yy"], week_of_year=f["ww"],
                               day_of_week=f["d"])),
        "YY-Www-D": (lambda f: "%02d-W%02d-%d" % (f["yy"], f["ww"], f["d"]),
                     lambda f: P(year_of_century=f["yy"], week_of_year=f["ww"],
                                 day_of_week=f["d"])),
        "YYWww": (lambda f: "%02dW%02d" % (f["yy"], f["ww"]),
                  lambda f: P(year_of_century=f["yy"], week_of_year=f["ww"])),
        "YY-Www": (lambda f: "%02d-W%02d" % (f["yy"], f["ww"]),
                   lambda f: P(year_of_century=f["yy"], week_of_year=f["ww"])),
        "-zWwwD": (lambda f: "-%dW%02d%d" % (f["z"], f["ww"], f["d"]),
                   lambda f: P(year_of_decade=f["z"], week_of_year=f["ww"],
                               day_of_week=f["d"])),
        "-z-WwwD": (lambda f: "-%d-W%02d%d" % (f["z"], f["ww"], f["d"]),
                    lambda f: P(year_of_decade=f["z"], week_of_year=f["ww"],
                                day_of_week=f["d"])),
        "-zWww": (lambda f: "-%dW%02d" % (f["z"], f["ww"]),
                  lambda f: P(year_of_decade=f["z"], week_of_year=f["ww"])),
        "-z-Www": (lambda f: "-%d-W%02d" % (f["z"], f["ww"]),
                   lambda f: P(year_of_decade=f["z"], week_of_year=f["ww"])),
        "-WwwD": (lambda f: "-W%02d%d" % (f["ww"], f["d"]),
                  lambda f: P(week_of_year=f["ww"], day_of_week=f["d"])),
        "-Www-D": (lambda f: "-W%02d-%d" % (f["ww"], f["d"]),
                   lambda f: P(week_of_year=f["ww"], day_of_week=f["d"])),
        "-Www": (lambda f: "-W%02d" % f["ww"], lambda f: P(week_of_year=f["ww"])),
        "-W-D": (lambda f: "-W-%d" % f["d"], lambda f: P(day_of_week=f["d"])),
    }


def truncated_time_forms():
    def P(**kw):
        return kw
    out = {}
    for sep, tag in (("", "b"), (":", "e")):
        out["-mmss" + tag] = (lambda f, sep=sep: "-%02d%s%02d" % (f["mi"], sep, f["ss"]),
                              lambda f: P(minute_of_hour=f["mi"], second_of_minute=f["ss"]))
    out["-mm"] = (lambda f: "-%02d" % f["mi"], lambda f: P(minute_of_hour=f["mi"]))
    out["--ss"] = (lambda f: "--%02d" % f["ss"], lambda f: P(second_of_minute=f["ss"]))
    out["hh"] = (lambda f: "%02d" % f["hh"], lambda f: P(hour_of_day=f["hh"]))
    out["hhmm"] = (lambda f: "%02d%02d" % (f["hh"], f["mi"]),
                   lambda f: P(hour_of_day=f["hh"], minute_of_hour=f["mi"]))
    return out
