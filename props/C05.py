"""C05 — month and year arithmetic with end-of-period clamping."""
from . import ALL_MODES, T1_CAL, TICK, CAL_LEMMAS

ID = "C05"
LEVEL = "proof"
MODES = ALL_MODES
FUNCS = ["data:TimePoint.add_months", ("data:TimePoint.__add__", r"\+years$"),
         "ghost:single_month_step", "ghost:months_compose",
         "ghost:leap_day_plus_year"] + T1_CAL + TICK
LEMMAS = CAL_LEMMAS
CANARIES = ["canary.dby.step.wrong"]
EXPLANATION = (
    "add_months: for calendar-form points the month index is exactly n away and the day "
    "is runmin(idx, d, |n|, sign) - the running minimum of the visited month lengths, i.e. "
    "|n| clamped single steps - proved by a loop invariant for every n of either sign; a "
    "single step gives min(d, len(target)) and (n+1) months == n months then 1 month are "
    "ghost programs over that contract. Ordinal/week forms: representation, validity, "
    "time of day and zone are proved; their date goes through to_calendar_date / "
    "to_ordinal_date / to_week_date, whose conversions are proved under C03. Year steps: "
    "year' = year + n with day-of-month / day-of-year / week clamped to the target year, "
    "for all three representations. Time of day is required normal (not 24:00).")
ASSUMPTIONS = [
    "runmin is an uninterpreted function defined by its two recursive equations, "
    "instantiated where needed (definitional, always true)",
    "mixed durations (exact part first, then months, then years): the order is that of "
    "the statements of __add__, each step verified separately; the composed identity is "
    "not a generated obligation",
    "24:00 inputs are excluded from add_months' contract (its final tick-over normalises "
    "them to the next day)"]
LEVEL_TEXT = ("Proof by loop invariant for unbounded month counts and years of either sign, "
              "all month ends / leap days / day 366 / week 53, 4 modes.")
LEVEL_NOTE = "Floats as reals; PyVC/z3/cvc5 trusted; see assumptions for the mixed-duration clause."
