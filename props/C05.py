"""C05 — month and year arithmetic with end-of-period clamping."""
from . import ALL_MODES, T1_CAL, TICK, CAL_LEMMAS

ID = "C05"
LEVEL = "proof"
MODES = ALL_MODES
FUNCS = ["data:TimePoint.add_months", ("data:TimePoint.__add__", r"\+(years$|mixed:)"),
         "ghost:single_month_step", "ghost:months_compose",
         "ghost:leap_day_plus_year"] + T1_CAL + TICK
LEMMAS = CAL_LEMMAS + ["week.key.order", "day.floor"]


def _quick_add(name):
    """Quick tier: pure year steps, and the mixed-duration cases for h:m:s points with the
    covering component subsets (thorough: all 48 subsets on h:m:s points, the 6 covering subsets on decimal-minute / decimal-hour points, 3 representations)."""
    if "+mixed:" not in name:
        return True
    from contracts.timepoint_t2 import MIX_QUICK
    shape, present = name.split("+mixed:")
    return shape.endswith("-hms") and present in MIX_QUICK


QUICK_FILTER = {"data:TimePoint.__add__": _quick_add}
CANARIES = ["canary.dby.step.wrong"]
EXPLANATION = (
    "add_months: for calendar-form points the month index is exactly n away and the day "
    "is runmin(idx, d, |n|, sign) - the running minimum of the visited month lengths, i.e. "
    "|n| clamped single steps - proved by a loop invariant for every n of either sign; a "
    "single step gives min(d, len(target)) and (n+1) months == n months then 1 month are "
    "ghost programs over that contract. Ordinal/week forms: representation, validity, "
    "time of day and zone are proved; their date goes through to_calendar_date / "
    "to_ordinal_date / to_week_date, whose conversions are proved under C03, and the result "
    "is stated as a day number: for THE calendar triple (gy, gm, gd) of self's day "
    "(universally quantified ghost constants, unique by the key-order lemmas) the result's "
    "day is (month index + n, running-minimum day). Mixed durations (TimePoint.__add__ on a "
    "unit-form Duration whose present components are symbolic and non-zero, one case per "
    "subset of {s, min, h, d, months, years} containing months or years): the result is "
    "the year step of the month step of the exact step - exact part first (day = "
    "date(self) + floor((second-of-day + exact length)/86400), time of day the remainder), "
    "then months (running-minimum clamp), then years (clamp of day-of-month / day-of-year "
    "/ week to the target year) - for calendar, ordinal and week forms. Year steps: "
    "year' = year + n with day-of-month / day-of-year / week clamped to the target year, "
    "for all three representations. Time of day is required normal (not 24:00).")
ASSUMPTIONS = [
    "the bounded grid in this check adds nothing on a tree where every obligation is discharged; it is a safety net for changed code that leaves the verifier's reach (reported `undecided` by the proof part), labelled bounded, never counted as proved",
   
    "runmin is an uninterpreted function defined by its two recursive equations, "
    "instantiated where needed (definitional, always true)",
    "mixed durations: proved for unit-form durations per subset of present (non-zero) "
    "components; quick tier: 6 covering subsets on h:m:s points, thorough: all 48 subsets x 3 representations on h:m:s points, the 6 covering "
    "subsets on the two decimal precision forms; 24:00 operands excluded (add_months' "
    "precondition)",
    "24:00 inputs are excluded from add_months' contract (its final tick-over normalises "
    "them to the next day)"]
LEVEL_TEXT = ("Proof by loop invariant for unbounded month counts and years of either sign, "
              "all month ends / leap days / day 366 / week 53, 4 modes.")
LEVEL_NOTE = "Floats as reals; PyVC/z3/cvc5 trusted; see assumptions for the mixed-duration clause."


def bounded(tier, seed, repo):
    """Safety net for a changed tree on which a function of the cone has fallen out of the
    verifier's reach (the proof then says `undecided`); never counted as proved."""
    from . import safety_bounded
    return safety_bounded.check_c05(tier, seed, repo)
