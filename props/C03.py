"""C03 — calendar, ordinal and ISO-week dates are faithful views of one day."""
import itertools
import sys
from . import ALL_MODES

ID = "C03"
LEVEL = "proof"
MODES = ALL_MODES
FUNCS = [
    "data:get_is_leap_year", "data:_get_days_in_year_range",
    "data:_get_days_in_year", "data:_get_days_in_month",
    "data:iter_months_days",
    "data:get_calendar_date_from_ordinal_date",
    "data:get_ordinal_date_from_calendar_date",
    "data:_get_calendar_date_week_date_start",
    "data:_get_ordinal_date_week_date_start", "data:_get_days_since_1_ad",
    "data:_get_weeks_in_year", "data:get_calendar_date_from_week_date",
    "data:get_ordinal_date_from_week_date",
    "data:get_week_date_from_calendar_date",
    "data:get_week_date_from_ordinal_date",
]
LEMMAS = [
    "opaque.dby.step", "opaque.dby.range", "leap.period400", "dby.period400",
    "ord_md.inverse", "md_ord.inverse", "diy.is.sum.of.months",
    "wstart.is.monday.near.jan4", "wiy.range", "week.roundtrip",
    "week_of.valid", "weekday.continuity",
]
CANARIES = ["canary.dby.step.wrong", "canary.week52"]
EXPLANATION = (
    "Every conversion and query function has the closed-form spec function as its "
    "entire postcondition, proved for all integer years in each of the 4 calendar "
    "modes; total/lossless/mutually-inverse are lemmas over the spec. "
    "_iter_months_days' own body (list building) is covered by an exhaustive "
    "enumeration of its finite argument domain (bounded, complete), its callers "
    "are proved against its contract.")
ASSUMPTIONS = [
    "the bounded grid in this check adds nothing on a tree where every obligation is discharged; it is a safety net for changed code that leaves the verifier's reach (reported `undecided` by the proof part), labelled bounded, never counted as proved",
   
    "the 3 CF spellings 360_day/365_day/366_day are covered by C15's obligation that "
    "MODES[spelling] is the same table pair",
]


def _bounded_imd(tier, seed, repo):
    """Exhaustive-finite stand-in for _iter_months_days (its argument domain is
    finite): the real function against the spec sequence, every mode."""
    if repo not in sys.path:
        sys.path.insert(0, repo)
    import metomi.isodatetime.data as data
    import spec.cal as cal
    import spec.native as nat
    out = []
    fails, n = [], 0
    for mode in ALL_MODES:
        data.CALENDAR.set_mode(mode)
        cal.set_mode(mode)
        f = data._iter_months_days.__wrapped__
        for leap in (False, True):
            year = 2004 if leap else 2003      # any year of that leap type
            for rev in (False, True):
                for month in [None] + list(range(1, 13)):
                    if month is None:
                        days = [None]
                    elif rev:
                        days = [None] + list(range(0, cal.dimL(leap, month) + 1))
                    else:
                        days = [None] + list(range(1, cal.dimL(leap, month) + 2))
                    for day in days:
                        n += 1
                        got = list(f(leap, month, day, mode, rev))
                        want = _spec_seq(cal, leap, month, day, rev)
                        if got != want and len(fails) < 5:
                            fails.append({
                                "id": "%s-%s-%s-%s-%s" % (mode, leap, month, day, rev),
                                "input": {"mode": mode, "is_leap_year": leap,
                                          "month_of_year": month, "day_of_month": day,
                                          "in_reverse": rev},
                                "observed": got[:5], "expected": want[:5]})
    data.CALENDAR.set_mode("gregorian")
    cal.set_mode("gregorian")
    out.append({"name": "_iter_months_days.exhaustive", "kind": "exhaustive-finite",
                "bound": "the whole precondition domain: leap x direction x start month None|1..12 x start day None | 1..len+1 (forward) | 0..len (reverse), x 4 modes",
                "evaluations": n, "exhaustive": True, "failures": fails})
    if tier == "thorough":
        out.append(spec_validation())
    return out


def _spec_seq(cal, L, month, day, rev):
    diy = cal.diyL(L)
    if not rev:
        n0 = 1 if month is None else cal.cumL(L, month) + (1 if day is None else day)
        return [cal.md_ofL(L, k) for k in range(n0, diy + 1)]
    if month is None:
        start = diy
    elif day is None:
        start = cal.cumL(L, month + 1)
    else:
        start = cal.cumL(L, month) + day
    return [cal.md_ofL(L, k) for k in range(start, 0, -1)]


def spec_validation():
    """Validates the ORACLE (spec functions), not the code, against datetime."""
    import datetime
    import spec.cal as cal
    cal.set_mode("gregorian")
    fails, n = [], 0
    d = datetime.date(1, 1, 1)
    one = datetime.timedelta(days=1)
    base = cal.absday(1, 1) - d.toordinal()
    while True:
        y = d.year
        n += 1
        nn = d.timetuple().tm_yday
        ok = (cal.md_of(y, nn) == (d.month, d.day)
              and cal.absday(y, nn) - base == d.toordinal()
              and cal.week_of(y, cal.absday(y, nn)) == tuple(d.isocalendar()))
        if not ok and len(fails) < 3:
            fails.append({"id": str(d), "input": str(d)})
        if d == datetime.date.max:
            break
        d += one
    return {"name": "spec-vs-datetime", "kind": "oracle-validation",
            "bound": "every day of years 1..9999 (gregorian)", "evaluations": n,
            "exhaustive": True, "failures": fails}

LEVEL_TEXT = ("Proof: each of the 15 calendar helper functions is verified against a "
              "closed-form spec function as its whole postcondition, for all integer "
              "years (no range), in each calendar mode; 812 obligations incl. loop "
              "invariants and termination-free 'raise unreachable' paths. The right level "
              "because the code is integer arithmetic with // and % by constants, which "
              "SMT decides exactly.")
LEVEL_NOTE = ("Trusted: the PyVC translation of Python to SMT, z3/cvc5, the spec functions "
              "(validated against datetime in the thorough tier). _iter_months_days' own "
              "list-building body is covered by exhaustive enumeration of its finite "
              "precondition domain (bounded, complete), not by proof.")


def bounded(tier, seed, repo):
    from . import safety_bounded
    return _bounded_imd(tier, seed, repo) + safety_bounded.check_c03(tier, seed, repo)
