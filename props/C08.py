"""C08 — writing a time point out and reading it back is lossless"""
from . import ALL_MODES, T1_CAL, CAL_LEMMAS
from . import text_bounded

ID = "C08"
LEVEL = "other"
MODES = ["gregorian"]
FUNCS = ["data:TimePoint.__init__", "ghost:dump_fields_recompose", "ghost:timepoint_text_round_trip",
         "ghost:dump_custom_format",
         ("data:TimePoint.to_time_zone", r"^(cal|ord|week)-hms$"), ("data:TimePoint.to_utc", r"^(cal|ord|week)-hms$"),
         ("parsers:TimePointParser.parse", r"^e:(cal|ord|week)[-+]?/hms:e/(Z|[-+]hhmm)$")]
QUICK_FILTER = {"ghost:timepoint_text_round_trip": lambda c: c != "week-x2",
                # quick: each representation change once (thorough: all 27)
                "ghost:dump_custom_format": lambda c: c in (
                    "cal|CCYYDDDThhmmss+hhmm", "ord|CCYYMMDDThhmmss+hhmm",
                    "week|CCYY-DDDThh:mm:ss+hh:mm", "ord|CCYYWwwDThhmmss+hhmm",
                    "cal|CCYY-MM-DDThh:mm:ssZ", "week|CCYY-Www-DThh:mm:ss+hh")}
LEMMAS = ["wiy.range", "opaque.dby.step", "opaque.dby.range"]
CANARIES = ["canary.week52"]
EXPLANATION = ("PROVED for whole-second points (hh:mm:ss form, incl. 24:00:00) in all three date representations, plain and signed expanded years, every UTC offset: the REAL str(p) (TimePoint.__str__ -> shared dumper map -> TimePoint._get_dump_format -> TimePointDumper.dump -> _get_expression_and_properties -> _dump_expression_with_properties, incl. the re-zoning to the literal zone) and the REAL parser EXECUTED and composed on a symbolic point - the formatted text is a piecewise Text with digit fields (%0Nd of a value proved to fit), the format-string substitutions are the real rec.sub calls (digit-blind patterns, pyvc/textlex.text_sub), parsing as in C07 - parse(str(p)) has exactly p's field values, representation and offset, equals p, and dumps to the same text (ghost program timepoint_text_round_trip); CUSTOM FORMATS: nine complete formats (calendar / ordinal / week date, basic and extended, own zone +hh:mm / +hhmm / +hh or literal Z) dumped from a point in any of the three representations parse back to an equal instant with valid fields - 27 cases, the format's representation change included (ghost program dump_custom_format; quick tier 6 of 27); constructor contracts; memoisation soundness of dumper/parser caches (a cache keyed without an input it depends on is refuted). BOUNDED: str/parse round trip on a grid of TimePoints (3 representations, 5 precision forms incl. 24:00 and decimals, 12 offsets, year boundaries, expanded years) and 5 custom complete formats.")
ASSUMPTIONS = ["decimal hour/minute/second forms (\"%0.6f\" float formatting) and custom formats other than the nine proved ones: bounded grid only",
               "%0Nd of an int in 0..10^N-1 prints its N-digit spelling (CPython axiom); blindness lemma and split lemma of pyvc/textlex.py (prose, hypotheses machine-checked)",
               "the shared dumper map TIMEPOINT_DUMPER_MAP holds the dumpers the real module built at import (read from the imported module); it is a cache (C15 obligations)"]
LEVEL_TEXT = "Whole-second default-format round trip: proof (real dump and parse executed symbolically); nine custom complete formats: proof; decimal forms and other custom formats: bounded grid. Hence other."
LEVEL_NOTE = "see DESIGN.md A.4 (as built) and section 5/C08 (plan)"


def custom(tier, seed, repo):
    from pyvc.source import SourceDB
    from pyvc.footprint import Analysis
    a = Analysis(SourceDB(repo))
    return [{"name": n, "ok": ok, "detail": d, "backend": "ast-footprint", "reproduced": False}
            for (n, ok, d) in a.persistent_store_obligations() + a.memo_obligations()
            if any(m in n for m in ("dumpers:", "parsers:", "TimePoint.__str__"))]


def bounded(tier, seed, repo):
    return text_bounded.check_c08(tier, seed, repo)
