"""C08 — writing a time point out and reading it back is lossless"""
from . import ALL_MODES, T1_CAL, CAL_LEMMAS
from . import text_bounded

ID = "C08"
LEVEL = "other"
MODES = ["gregorian"]
FUNCS = ["data:TimePoint.__init__", "ghost:dump_fields_recompose"]
LEMMAS = ["wiy.range", "opaque.dby.step", "opaque.dby.range"]
CANARIES = ["canary.week52"]
EXPLANATION = ("PROVED: constructor contracts; memoisation soundness of dumper/parser caches (a cache keyed without an input it depends on is refuted). BOUNDED: str/parse round trip on a grid of TimePoints (3 representations, 5 precision forms incl. 24:00 and decimals, 12 offsets, year boundaries, expanded years) and 5 custom complete formats.")
ASSUMPTIONS = ["text formatting (%% templates, \"%%0.6f\") is outside the modelled subset"]
LEVEL_TEXT = "Bounded grid plus proved memo-soundness and constructor obligations: other."
LEVEL_NOTE = "see DESIGN section 5/C08"


def custom(tier, seed, repo):
    from pyvc.source import SourceDB
    from pyvc.footprint import Analysis
    a = Analysis(SourceDB(repo))
    return [{"name": n, "ok": ok, "detail": d, "backend": "ast-footprint", "reproduced": False}
            for (n, ok, d) in a.persistent_store_obligations() + a.memo_obligations()
            if any(m in n for m in ("dumpers:", "parsers:", "TimePoint.__str__"))]


def bounded(tier, seed, repo):
    return text_bounded.check_c08(tier, seed, repo)
