"""C14 — recurrences are values: shifting, equality, hashing, text round trip."""
from . import ALL_MODES, CAL_LEMMAS
from . import rec_bounded

ID = "C14"
LEVEL = "other"
MODES = ALL_MODES
FUNCS = ["data:TimeRecurrence.__add__", "data:TimeRecurrence.__eq__",
         "data:TimeRecurrence.__hash__", "data:TimeRecurrence.__init__",
         "ghost:rec_shift_and_back", "ghost:rec_equal_implies_equal_hash",
         "ghost:rec_unequal_when_one_component_differs",
         "parsers:TimeRecurrenceParser.parse", "ghost:rec_text_round_trip"]
# bounded start/interval recurrences take ~10 min each to generate (nonlinear (n-1) x interval
# in the constructor): thorough tier only
QUICK_FILTER = {"ghost:rec_text_round_trip": lambda c: not c.startswith("fwd-bounded")}
LEMMAS = CAL_LEMMAS
CANARIES = ["canary.week52"]
QUICK_MODES = ["gregorian", "360day"]
EXPLANATION = (
    "PROVED, text -> value: the REAL TimeRecurrenceParser.parse executed on the three "
    "notations as symbolic texts (R[n]/start/end, R[n]/start/interval, R[n]/interval/end; "
    "points CCYY-MM-DDThh:mm:ss with Z or +hh:mm, interval PnDTnH): repetitions, start / "
    "second / end point fields and interval components are exactly those spelled (regex "
    "groups spanning several pieces by the lexing lemma, then the real point and duration "
    "parsers and the real constructor). TEXT ROUND TRIP: the REAL str(r) and the REAL "
    "parse composed on symbolic recurrences (unbounded start/interval and interval/end, "
    "single-point; whole-second points, intervals of days/hours/minutes/seconds; bounded "
    "start/interval in the thorough tier): parse(str(r)) == r and prints the same text "
    "(ghost program rec_text_round_trip; equal hashes by rec_equal_implies_equal_hash). "
    "PROVED (exact shift durations, every notation incl. single-point recurrences): r + d "
    "has the same repetitions and interval and every anchor moved by len(d); d + r == r + d; "
    "(r + d) - d == r; == is exactly agreement of repetitions, start, end (by instant) and "
    "interval (by length), so recurrences differing in one component are unequal; equal "
    "recurrences have component-wise equal hashes. BOUNDED: text round trip "
    "parse(str(r)) == r and 'iterate identically' on a grid (text is outside the proved part).")
ASSUMPTIONS = ["tuple hashing is congruent (equal components => equal hash)",
               "text round trip and nominal intervals: bounded grid only"]
LEVEL_TEXT = "Value part: proof. Text round trip: bounded grid. Hence 'other'."
LEVEL_NOTE = "Quick tier: 2 calendar modes for the recurrence proofs."


def custom(tier, seed, repo):
    """memoisation soundness of any parser-level cache (shared with C15)."""
    from pyvc.source import SourceDB
    from pyvc.footprint import Analysis
    a = Analysis(SourceDB(repo))
    return [{"name": n, "ok": ok, "detail": d, "backend": "ast-footprint",
             "reproduced": False}
            for (n, ok, d) in a.persistent_store_obligations() if "parsers:" in n]


def bounded(tier, seed, repo):
    return rec_bounded.check_c14(tier, seed, repo)
