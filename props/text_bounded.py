"""Bounded stand-ins for the text properties (C07, C08, C10, C17, C19 and the
zone-literal clause of C06): contract claims evaluated natively on grids built
from the form catalogue (props/forms.py).  Labelled bounded, never proof."""
import itertools
import random
import sys
from . import forms as F

YEARS4 = [0, 1, 4, 99, 100, 400, 1582, 1985, 1999, 2000, 2004, 2019, 2020, 9999]
YEARSX = [-999999, -10000, -9999, -2000, -400, -1, 0, 2000, 10000, 123456, 999999]
ZONES = [(0, 0), (5, 30), (-3, -30), (0, -30), (0, 45), (12, 45), (-11, 0), (14, 0),
         (-99, -59), (99, 59), (1, 0), (-1, 0)]
FRACS = ["5", "25", "05", "000001", "999999", "123456", "1", "50"]


def setup(repo):
    if repo not in sys.path:
        sys.path.insert(0, repo)
    import metomi.isodatetime.data as data
    import metomi.isodatetime.parsers as parsers
    import metomi.isodatetime.dumpers as dumpers
    return data, parsers, dumpers


def approx(a, b):
    return abs(float(a) - float(b)) <= 1e-6


def date_samples(kind, data, years, rnd, k):
    out = []
    for _ in range(k * 3):
        y = rnd.choice(years)
        if kind.endswith("cal"):
            m = rnd.choice([1, 2, 2, 3, 6, 11, 12])
            dmax = data.get_days_in_month(m, y)
            out.append(dict(year=y, month_of_year=m, day_of_month=rnd.choice([1, 2, 28, dmax])))
        elif kind.endswith("ord"):
            n = data.get_days_in_year(y)
            out.append(dict(year=y, day_of_year=rnd.choice([1, 59, 60, 61, 365, n])))
        else:
            w = data.get_weeks_in_year(y)
            out.append(dict(year=y, week_of_year=rnd.choice([1, 2, 52, w]),
                            day_of_week=rnd.choice([1, 4, 7])))
        if len(out) >= k:
            break
    return out


def time_samples(tform, rnd, k):
    out = []
    for _ in range(k):
        h = rnd.choice([0, 1, 6, 12, 23])
        f = dict(hour_of_day=h, minute_of_hour=rnd.choice([0, 1, 30, 59]),
                 second_of_minute=rnd.choice([0, 1, 30, 59]), frac=rnd.choice(FRACS))
        out.append(f)
    out.append(dict(hour_of_day=24, minute_of_hour=0, second_of_minute=0, frac="0"))
    return out


def expected_time(tf, f):
    """-> (hour, minute, second) as the public accessors report them."""
    dec = tf.get("decimal")
    fr = float("0." + f["frac"]) if dec else 0.0
    h, m, s = f["hour_of_day"], f.get("minute_of_hour", 0), f.get("second_of_minute", 0)
    fields = tf["fields"]
    if "minute_of_hour" not in fields:
        m = 0
    if "second_of_minute" not in fields:
        s = 0
    if dec == "hour_of_day":
        tot = (h + fr) * 3600.0
        return h + fr, None, None, tot
    if dec == "minute_of_hour":
        return h, m + fr, None, h * 3600.0 + (m + fr) * 60.0
    if dec == "second_of_minute":
        return h, m, s + fr, h * 3600.0 + m * 60.0 + s + fr
    return h, m, s, h * 3600.0 + m * 60.0 + s


def check_c07(tier, seed, repo):
    data, parsers, dumpers = setup(repo)
    rnd = random.Random(seed)
    k = 4 if tier == "thorough" else 2
    fails, n = [], 0
    data.CALENDAR.set_mode("gregorian")

    def fail(id_, inp, obs, exp=None):
        if len(fails) < 25:
            fails.append({"id": id_, "input": inp, "observed": obs, "expected": exp})
    tforms, zforms = F.time_forms(), F.zone_forms()
    for x in (2, 0, 3) if tier == "thorough" else (2, 0):
        P = parsers.TimePointParser(num_expanded_year_digits=x, assumed_time_zone=(5, 30))
        PU = parsers.TimePointParser(num_expanded_year_digits=x,
                                     default_to_unknown_time_zone=True)
        PB = parsers.TimePointParser(num_expanded_year_digits=x, allow_only_basic=True,
                                     assumed_time_zone=(5, 30))
        dforms = F.date_forms(x)
        for dname, df in dforms.items():
            years = YEARS4 if not df["kind"].startswith("x") else [
                y for y in YEARSX if abs(y) < 10 ** (4 + x)]
            dsamples = date_samples(df["kind"], data, years, rnd, k)
            for tname, tf in tforms.items():
                for zname, zf in zforms.items():
                    mixed = tf["style"] != df["style"]
                    zbad = zf["style"] not in ("both", df["style"])
                    for dvals in dsamples:
                        tvals = rnd.choice(time_samples(tf, rnd, k))
                        tz = rnd.choice(ZONES)
                        if zf.get("no_minutes"):
                            tz = (tz[0], 0)
                        if zf.get("fixed"):
                            tz = zf["fixed"]
                        zvals = dict(tzh=tz[0], tzm=tz[1])
                        text = df["render"](dvals) + "T" + tf["render"](tvals) + \
                            zf["render"](zvals)
                        n += 1
                        inp = {"text": text, "expanded_year_digits": x, "date_form": dname,
                               "time_form": tname, "zone_form": zname}
                        if mixed or (zbad and not mixed and False):
                            # basic dates are never combined with extended times
                            try:
                                P.parse(text)
                                # hh / hh,ii exist in both notations: not a mix
                                if tf["fields"] != ("hour_of_day",) and \
                                        tf["fields"] != ("hour_of_day", "frac"):
                                    fail("mix|" + text, inp, "accepted a basic/extended mix")
                            except ValueError:
                                pass
                            continue
                        if zbad:
                            continue
                        try:
                            p = P.parse(text)
                            pd = P.parse(text, dump_as_parsed=True)
                        except Exception as e:
                            fail("parse|" + text, inp, "%s: %s" % (type(e).__name__, e),
                                 "parses")
                            continue
                        kind = df["kind"].lstrip("x")
                        okd = (p.year == dvals["year"] and
                               {"cal": p.get_is_calendar_date(), "ord": p.get_is_ordinal_date(),
                                "week": p.get_is_week_date()}[kind])
                        if kind == "cal":
                            okd = okd and (p.month_of_year, p.day_of_month) == (
                                dvals["month_of_year"], dvals["day_of_month"])
                        elif kind == "ord":
                            okd = okd and p.day_of_year == dvals["day_of_year"]
                        else:
                            okd = okd and (p.week_of_year, p.day_of_week) == (
                                dvals["week_of_year"], dvals["day_of_week"])
                        eh, em, es, tot = expected_time(tf, tvals)
                        okt = approx(p.get_second_of_day(), tot) and approx(p.hour_of_day, eh)
                        if em is not None:
                            okt = okt and approx(p.minute_of_hour, em)
                        if es is not None:
                            okt = okt and approx(p.second_of_minute, es)
                        want_tz = tz if zf["given"] else (5, 30)
                        okz = (p.time_zone.hours, p.time_zone.minutes) == want_tz
                        if not (okd and okt and okz):
                            fail("fields|" + text, inp, {
                                "date": p.get_calendar_date() if kind == "cal" else
                                p.get_ordinal_date() if kind == "ord" else p.get_week_date(),
                                "hms": [p.hour_of_day, p.minute_of_hour, p.second_of_minute],
                                "zone": [p.time_zone.hours, p.time_zone.minutes]},
                                {"date": dvals, "time": [eh, em, es], "zone": want_tz})
                        try:
                            back = str(pd)
                        except Exception as e:
                            fail("asparsed|" + text, inp, "%s: %s" % (type(e).__name__, e), text)
                            continue
                        if back != text:
                            # trailing zeros of a decimal fraction may be dropped
                            a = text.rstrip("0") if tf.get("decimal") and not zf["given"] \
                                else text
                            if not (tf.get("decimal") and _same_upto_frac_zeros(back, text)):
                                fail("asparsed|" + text, inp, back, text)
                        if not zf["given"]:
                            pu = PU.parse(text)
                            if (pu.time_zone.hours, pu.time_zone.minutes) != (0, 0):
                                fail("unknownzone|" + text, inp, "zone %s" % pu.time_zone)
                        try:
                            PB.parse(text)
                            if df["style"] == "extended" and "-" in df["render"](dvals)[1:]:
                                fail("onlybasic|" + text, inp,
                                     "basic-only parser accepted an extended form")
                        except ValueError:
                            if df["style"] == "basic":
                                fail("onlybasic|" + text, inp,
                                     "basic-only parser refused a basic form")
        # reduced-precision dates (date only)
        for rname, rf in F.reduced_date_forms(x).items():
            for y in (YEARS4 if not rname.startswith("x") else [
                    v for v in YEARSX if abs(v) < 10 ** (4 + x)]):
                vals = dict(year=y, month_of_year=rnd.choice([1, 2, 12]),
                            week_of_year=rnd.choice([1, 52]), century=abs(y) // 100 % 100)
                vals = {kk: vals[kk] for kk in rf["fields"]}
                text = rf["render"](vals)
                exp = rf["expect"](vals)
                n += 1
                try:
                    p = P.parse(text)
                except Exception as e:
                    fail("reduced|" + text, {"text": text, "form": rname},
                         "%s: %s" % (type(e).__name__, e))
                    continue
                got = {kk: getattr(p, kk) for kk in exp}
                if got != exp or (p.hour_of_day, p.minute_of_hour, p.second_of_minute) != (0, 0, 0) \
                        or (p.time_zone.hours, p.time_zone.minutes) != (5, 30):
                    fail("reduced|" + text, {"text": text, "form": rname}, got, exp)
                if str(P.parse(text, dump_as_parsed=True)) != text:
                    fail("reduced-asparsed|" + text, {"text": text, "form": rname},
                         str(P.parse(text, dump_as_parsed=True)), text)
    # truncated forms
    PT = parsers.TimePointParser(allow_truncated=True, assumed_time_zone=(5, 30))
    tdf, ttf = F.truncated_date_forms(), F.truncated_time_forms()
    for dname, (dr, dp) in tdf.items():
        for _ in range(k + 1):
            v = dict(yy=rnd.choice([0, 5, 85, 99]), mm=rnd.choice([1, 2, 12]),
                     dd=rnd.choice([1, 28]), ddd=rnd.choice([1, 60, 365]),
                     ww=rnd.choice([1, 52]), d=rnd.choice([1, 7]), z=rnd.choice([0, 5, 9]))
            for tname, (tr, tp) in [(None, (None, None))] + list(ttf.items()):
                tv = dict(hh=rnd.choice([0, 6, 23]), mi=rnd.choice([0, 30, 59]),
                          ss=rnd.choice([0, 15, 59]))
                if tr and tname.startswith("-") and not dr(v).startswith("-"):
                    continue    # truncated times follow truncated ('-'-led) dates only
                text = dr(v) + ("T" + tr(tv) if tr else "")
                want = dict(dp(v))
                if tp:
                    want.update(tp(tv))
                n += 1
                inp = {"text": text, "date_form": dname, "time_form": tname}
                try:
                    p = PT.parse(text)
                    got = p.get_truncated_properties()
                    ok = got == want and p.truncated
                    if not ok:
                        fail("trunc|" + text, inp, got, want)
                    if str(PT.parse(text, dump_as_parsed=True)) != text:
                        fail("trunc-asparsed|" + text, inp,
                             str(PT.parse(text, dump_as_parsed=True)), text)
                except Exception as e:
                    fail("trunc|" + text, inp, "%s: %s" % (type(e).__name__, e))
    return [{"name": "parser.forms.grid", "kind": "grid",
             "bound": "form catalogue (date x time x zone forms, reduced and truncated forms) x "
                      "boundary/random field values (seeded) x parser configurations "
                      "(expanded digits, only-basic, assumed/unknown zone)",
             "evaluations": n, "exhaustive": False, "failures": fails}]


def _same_upto_frac_zeros(a, b):
    import re
    def norm(s):
        return re.sub(r"([,.][0-9]*?)0+(?=[Z+-]|$)", r"\1", s).replace(",", ".")
    na, nb = norm(a), norm(b)
    return na == nb or na.rstrip(".") == nb.rstrip(".")


# ---------------------------------------------------------------- C08
def timepoints(data, rnd, tier, mode="gregorian", years=None):
    """A grid of valid TimePoints: 3 representations x precision forms x offsets."""
    import spec.cal as cal
    cal.set_mode(mode)
    years = years or [0, 1, 4, 100, 1999, 2000, 2004, 2020, 9999]
    out = []
    reps = 3 if tier == "thorough" else 1
    for y in years:
        for _ in range(reps):
            tz = rnd.choice(ZONES)
            times = [dict(hour_of_day=rnd.choice([0, 6, 23]), minute_of_hour=rnd.choice([0, 30, 59]),
                          second_of_minute=rnd.choice([0, 1, 59])),
                     dict(hour_of_day=24, minute_of_hour=0, second_of_minute=0),
                     dict(hour_of_day=rnd.choice([0, 23]), minute_of_hour=rnd.choice([0, 59]),
                          second_of_minute=rnd.choice([0, 59]),
                          second_of_minute_decimal=rnd.choice([0.5, 0.25, 0.000001, 0.999999])),
                     dict(hour_of_day=rnd.choice([0, 23]), minute_of_hour=rnd.choice([0, 59]),
                          minute_of_hour_decimal=rnd.choice([0.5, 0.0625, 0.25])),
                     dict(hour_of_day=rnd.choice([0, 6, 23]),
                          hour_of_day_decimal=rnd.choice([0.5, 0.0625, 0.75]))]
            m = rnd.choice([1, 2, 12])
            dates = [dict(month_of_year=m, day_of_month=rnd.choice([1, cal.dim(y, m)])),
                     dict(day_of_year=rnd.choice([1, 60, cal.diy(y)])),
                     dict(week_of_year=rnd.choice([1, cal.wiy(y)]), day_of_week=rnd.choice([1, 7]))]
            for d in dates:
                for t in times:
                    kw = dict(year=y, time_zone_hour=tz[0], time_zone_minute=tz[1])
                    kw.update(d)
                    kw.update(t)
                    out.append(kw)
    return out


def check_c08(tier, seed, repo):
    data, parsers, dumpers = setup(repo)
    rnd = random.Random(seed)
    fails, n = [], 0

    def fail(id_, inp, obs, exp=None):
        if len(fails) < 25:
            fails.append({"id": id_, "input": inp, "observed": obs, "expected": exp})
    for mode in ("gregorian", "360day") if tier == "quick" else (
            "gregorian", "360day", "365day", "366day"):
        data.CALENDAR.set_mode(mode)
        for x, years in ((0, None), (2, [-999999, -400, -1, 0, 2000, 10000, 999999])):
            P = parsers.TimePointParser(num_expanded_year_digits=x)
            for kw in timepoints(data, rnd, tier, mode, years):
                n += 1
                inp = dict(kw, mode=mode, num_expanded_year_digits=x)
                try:
                    p = data.TimePoint(num_expanded_year_digits=x, **kw)
                    s = str(p)
                    q = P.parse(s)
                    same = (q == p and hash(q) == hash(p) and str(q) == s and
                            q.get_is_calendar_date() == p.get_is_calendar_date() and
                            q.get_is_ordinal_date() == p.get_is_ordinal_date() and
                            q.get_is_week_date() == p.get_is_week_date() and
                            (q.time_zone.hours, q.time_zone.minutes) ==
                            (p.time_zone.hours, p.time_zone.minutes) and
                            q.year == p.year and
                            approx(q.get_second_of_day(), p.get_second_of_day()) and
                            q.get_calendar_date() == p.get_calendar_date())
                    if not same:
                        fail("roundtrip|%s" % s, inp, {"str": s, "reparsed": str(q)})
                    # custom complete formats
                    for fmt in ("CCYYMMDDThhmmss+hhmm", "CCYY-DDDThh:mm:ss+hh:mm",
                                "CCYY-Www-DThh:mm:ssZ", "CCYYMMDDThhmmss-0330",
                                "+XCCYY-MM-DDThh:mm:ss-00:30") if x == 2 or True else ():
                        if "X" in fmt and not x:
                            continue
                        if not (0 <= p.year <= 9999) and "X" not in fmt:
                            continue
                        if "second_of_minute_decimal" in kw or "minute_of_hour_decimal" in kw \
                                or "hour_of_day_decimal" in kw:
                            continue
                        n += 1
                        try:
                            t = dumpers.TimePointDumper(x).dump(p, fmt)
                        except data.dumpers.TimePointDumperBoundsError:
                            continue   # re-zoned year outside the agreed digits: refused
                        r = P.parse(t)
                        if r != p:
                            fail("custom|%s|%s" % (fmt, s), dict(inp, format=fmt),
                                 {"dumped": t, "reparsed": str(r)}, s)
                except Exception as e:
                    fail("exc|%s" % sorted(kw.items()), inp, "%s: %s" % (type(e).__name__, e))
    data.CALENDAR.set_mode("gregorian")
    return [{"name": "timepoint.str-parse.roundtrip", "kind": "grid",
             "bound": "years {0..9999 boundaries; +-999999 with 2 expanded digits} x 3 "
                      "representations x 5 precision forms (incl. 24:00, decimals <= 6 digits) x "
                      "12 offsets x modes; default str and 5 custom complete formats",
             "evaluations": n, "exhaustive": False, "failures": fails}]


# ---------------------------------------------------------------- C10
def check_c10(tier, seed, repo):
    data, parsers, dumpers = setup(repo)
    rnd = random.Random(seed)
    D = parsers.DurationParser()
    fails, n = [], 0

    def fail(id_, inp, obs, exp=None):
        if len(fails) < 25:
            fails.append({"id": id_, "input": inp, "observed": obs, "expected": exp})
    ints = [0, 1, 2, 7, 12, 59, 60, 365, 1000]
    decs = [0.5, 0.25, 1.5, 12.125, 0.001, 59.999]
    combos = []
    for mask in range(1, 64):
        for sign in (1, -1):
            for _ in range(2 if tier == "thorough" else 1):
                kw = {}
                names = ["years", "months", "days", "hours", "minutes", "seconds"]
                for i, nm in enumerate(names):
                    if mask >> i & 1:
                        v = rnd.choice(ints[1:])
                        if nm in ("hours", "minutes", "seconds") and rnd.random() < 0.3:
                            v = rnd.choice(decs)
                        kw[nm] = sign * v
                combos.append(kw)
    # decimal values: every 1..6-place decimal must come back as the float its text denotes
    for nm in ("hours", "minutes", "seconds"):
        for _ in range(4000 if tier == "thorough" else 800):
            places = rnd.randint(1, 6)
            v = round(rnd.choice([1, 10, 60, 1000]) * rnd.random(), places)
            combos.append({nm: rnd.choice([1, -1]) * v})
        # very small values, which str() spells with an exponent
        for v in (0.00005, 1e-05, 1.5e-07, 0.0001, 0.00012345):
            for sg in (1, -1):
                combos.append({nm: sg * v})
                combos.append({"days": sg * 2, nm: sg * v})
    for w in (1, 2, 52, 1000, -3):
        combos.append({"weeks": w})
    combos.append({})
    for kw in combos:
        n += 1
        try:
            d = data.Duration(**kw)
            s = str(d)
            q = D.parse(s)
            if q != d or str(q) != s or hash(q) != hash(d):
                fail("roundtrip|%s" % s, kw, {"str": s, "reparsed": str(q)})
        except Exception as e:
            fail("exc|%s" % sorted(kw.items()), kw, "%s: %s" % (type(e).__name__, e))
    # designator faithfulness and the date-time-like spelling
    texts = {
        "P1Y2M3DT4H5M6S": dict(years=1, months=2, days=3, hours=4, minutes=5, seconds=6),
        "P3W": dict(weeks=3), "-P1DT12H": dict(days=-1, hours=-12),
        "PT0,5S": dict(seconds=0.5), "PT0.5S": dict(seconds=0.5), "PT1,25H": dict(hours=1.25),
        "P1M": dict(months=1), "PT1M": dict(minutes=1), "P0Y": dict(),
        "P0001-02-03T04:05:06": dict(years=1, months=2, days=3, hours=4, minutes=5, seconds=6),
        "P00010203T040506": dict(years=1, months=2, days=3, hours=4, minutes=5, seconds=6),
        "P0000-00-01T00:00:00": dict(days=1),
        "P0001-045T01:30": dict(years=1, days=45, hours=1, minutes=30),
        # the date-time-like spelling with reduced time precision and decimal last units
        "P0004-03-02T01:30,5": dict(years=4, months=3, days=2, hours=1, minutes=30.5),
        "P00040302T0130.5": dict(years=4, months=3, days=2, hours=1, minutes=30.5),
        "P0004-078T10:15,25": dict(years=4, days=78, hours=10, minutes=15.25),
        "P0004-078T10,5": dict(years=4, days=78, hours=10.5),
        "P0000-00-00T00:00,5": dict(minutes=0.5),
        "P0001-02-03T04:05:06,5": dict(years=1, months=2, days=3, hours=4, minutes=5,
                                       seconds=6.5),
        "P00010203T040506.25": dict(years=1, months=2, days=3, hours=4, minutes=5,
                                    seconds=6.25),
        "P0001-02-03T04": dict(years=1, months=2, days=3, hours=4),
        "P0001-02-03T04:05": dict(years=1, months=2, days=3, hours=4, minutes=5),
    }
    for t, kw in texts.items():
        n += 1
        try:
            got, want = D.parse(t), data.Duration(**kw)
            same = all(float(getattr(got, k) or 0) == float(getattr(want, k) or 0)
                       for k in ("years", "months", "days", "hours", "minutes", "seconds"))
            if got != want or (not got.get_is_in_weeks() and not same):
                fail("designators|" + t, {"text": t}, str(got), kw)
        except Exception as e:
            fail("designators|" + t, {"text": t}, "%s: %s" % (type(e).__name__, e), kw)
    for y, mo, dd, hh, mi, ss in itertools.product((0, 1, 9999), (0, 11), (0, 1, 28),
                                                   (0, 23), (0, 59), (0, 59)):
        n += 1
        kw = dict(years=y, months=mo, days=dd, hours=hh, minutes=mi, seconds=ss)
        for t in ("P%04d-%02d-%02dT%02d:%02d:%02d" % (y, mo, dd, hh, mi, ss),
                  "P%04d%02d%02dT%02d%02d%02d" % (y, mo, dd, hh, mi, ss)):
            try:
                if D.parse(t) != data.Duration(**kw):
                    fail("datetime-like|" + t, {"text": t}, str(D.parse(t)), kw)
            except Exception as e:
                fail("datetime-like|" + t, {"text": t}, "%s: %s" % (type(e).__name__, e), kw)
    return [{"name": "duration.str-parse.roundtrip", "kind": "grid",
             "bound": "all 63 unit subsets x both signs x integer/decimal values (seeded), 2400 random 1-6 place decimals (12000 thorough), weeks, "
                      "empty; 22 designator / date-time-like texts incl. reduced precision and decimal last units (field by field); 432 date-time-like spellings (basic+extended)",
             "evaluations": n, "exhaustive": False, "failures": fails}]


# ---------------------------------------------------------------- C06: zone literal in dump formats
def check_c06_zone_literals(tier, seed, repo):
    data, parsers, dumpers = setup(repo)
    rnd = random.Random(seed)
    fails, n = [], 0
    dumper = dumpers.TimePointDumper(2)
    P = parsers.TimePointParser()
    points = [data.TimePoint(year=1999, month_of_year=12, day_of_month=31, hour_of_day=23,
                             minute_of_hour=30, time_zone_hour=0, time_zone_minute=0),
              data.TimePoint(year=2004, day_of_year=60, hour_of_day=0, minute_of_hour=15,
                             time_zone_hour=-3, time_zone_minute=-30),
              data.TimePoint(year=2020, week_of_year=53, day_of_week=7, hour_of_day=12,
                             time_zone_hour=12, time_zone_minute=45)]
    lits = ["Z"]
    for sign in "+-":
        for h in range(0, 100):
            lits.append("%s%02d" % (sign, h))
            for m in (range(0, 60) if tier == "thorough" else (0, 1, 29, 30, 45, 59)):
                lits.append("%s%02d%02d" % (sign, h, m))
                lits.append("%s%02d:%02d" % (sign, h, m))
    for lit in lits:
        if lit == "Z":
            want = (0, 0)
        else:
            sg = -1 if lit[0] == "-" else 1
            digits = lit[1:].replace(":", "")
            want = (sg * int(digits[:2]), sg * int(digits[2:4] or 0))
        ext = ":" in lit
        fmt = ("CCYY-MM-DDThh:mm:ss" if ext or len(lit) <= 3 else "CCYYMMDDThhmmss") + lit
        for p in points:
            n += 1
            try:
                t = dumper.dump(p, fmt)
                q = P.parse(t)
                ok = (q == p and hash(q) == hash(p) and t.endswith(lit) and
                      (q.time_zone.hours, q.time_zone.minutes) == want and
                      (q - p).get_seconds() == 0)
                if not ok:
                    if len(fails) < 10:
                        fails.append({"id": "%s|%s" % (lit, p), "input": {"format": fmt,
                                                                         "point": str(p)},
                                      "observed": t, "expected": "same instant at offset %s" % (want,)})
            except Exception as e:
                if len(fails) < 10:
                    fails.append({"id": "%s|%s" % (lit, p), "input": {"format": fmt, "point": str(p)},
                                  "observed": "%s: %s" % (type(e).__name__, e)})
    return [{"name": "dump.zone-literals", "kind": "exhaustive-finite" if tier == "thorough"
             else "grid",
             "bound": "every literal Z, +-hh, +-hhmm, +-hh:mm with hh 00..99 and mm %s x 3 points "
                      "(calendar/ordinal/week, year/leap-day/week-53 boundaries)" % (
                          "00..59" if tier == "thorough" else "in {00,01,29,30,45,59}"),
             "evaluations": n, "exhaustive": tier == "thorough", "failures": fails}]


# ---------------------------------------------------------------- C17
def posix_fields(p, cal):
    """POSIX strftime values of TimePoint p's civil date-time, from the spec."""
    a = cal.date_abs(p)
    y = p._year
    # civil (calendar) year of the day number
    while a <= cal.dby(y):
        y -= 1
    while a > cal.dby(y + 1):
        y += 1
    n = a - cal.dby(y)
    m, d = cal.md_of(y, n)
    sod = cal.sod(p)
    h, mi, s = int(sod // 3600), int(sod % 3600 // 60), int(sod % 60)
    tz = 3600 * p._time_zone._hours + 60 * p._time_zone._minutes
    sign = "-" if tz < 0 else "+"
    epoch = 86400 * cal.absday(1970, 1)
    import math
    return {"%Y": "%04d" % y, "%m": "%02d" % m, "%d": "%02d" % d, "%j": "%03d" % n,
            "%H": "%02d" % h, "%M": "%02d" % mi, "%S": "%02d" % s,
            "%F": "%04d-%02d-%02d" % (y, m, d), "%X": "%02d:%02d:%02d" % (h, mi, s),
            "%z": "%s%02d%02d" % (sign, abs(tz) // 3600, abs(tz) % 3600 // 60),
            "%s": str(int(math.floor(86400 * a + sod - tz - epoch)))}


FORMATS = ["%Y", "%Y-%m-%d", "%F", "%j", "%Y %j", "%H:%M:%S", "%X", "%z", "%s",
           "%Y%m%dT%H%M%S%z", "%FT%X%z", "day %j of %Y at %H", "%Y-%jT%H:%M:%S%z",
           "%d.%m.%Y %H:%M", "literal", "%Y %H", "100%% %m" if False else "%m/%d"]


def check_c17(tier, seed, repo):
    data, parsers, dumpers = setup(repo)
    import spec.cal as cal
    rnd = random.Random(seed)
    fails, n = [], 0

    def fail(id_, inp, obs, exp=None):
        if len(fails) < 25:
            fails.append({"id": id_, "input": inp, "observed": obs, "expected": exp})
    P = parsers.TimePointParser(assumed_time_zone=(0, 0))
    for mode in ("gregorian", "360day") if tier == "quick" else (
            "gregorian", "360day", "365day", "366day"):
        data.CALENDAR.set_mode(mode)
        cal.set_mode(mode)
        for kw in timepoints(data, rnd, tier, mode, [0, 1, 99, 1969, 1970, 2000, 2008, 2020, 9999]):
            if any(k.endswith("_decimal") for k in kw) or kw["hour_of_day"] == 24:
                continue
            p = data.TimePoint(**kw)
            ref = posix_fields(p, cal)
            if not 0 <= int(ref["%Y"]) <= 9999:
                continue        # civil year outside 0000-9999 (e.g. 9999-W52-7): not quantified over
            for fmt in FORMATS:
                n += 1
                want = fmt
                for k, v in ref.items():
                    want = want.replace(k, v)
                inp = {"mode": mode, "point": str(p), "format": fmt}
                try:
                    got = p.strftime(fmt)
                except Exception as e:
                    fail("strftime|%s|%s" % (fmt, p), inp, "%s: %s" % (type(e).__name__, e), want)
                    continue
                if got != want:
                    fail("strftime|%s|%s" % (fmt, p), inp, got, want)
                    continue
                full = (("%Y" in fmt and ("%m" in fmt and "%d" in fmt or "%j" in fmt) or "%F" in fmt)
                        and ("%H" in fmt and "%M" in fmt and "%S" in fmt or "%X" in fmt)
                        and "%z" in fmt) or fmt == "%s"
                if full:
                    try:
                        q = P.strptime(got, fmt)
                        if q != p:
                            fail("strptime|%s|%s" % (fmt, p), inp, str(q), str(p))
                    except Exception as e:
                        fail("strptime|%s|%s" % (fmt, p), inp,
                             "%s: %s" % (type(e).__name__, e), str(p))
        # defaults for omitted parts
        n += 1
        q = P.strptime("2002-03", "%Y-%m")
        if (q.get_calendar_date(), q.get_hour_minute_second(), q.time_zone.hours) != (
                (2002, 3, 1), (0, 0, 0), 0):
            fail("strptime-defaults", {"text": "2002-03"}, str(q))
    # unsupported directives are refused with a ValueError-derived error
    # ... at every entry point: the dumper, TimePoint.strftime, and strptime; alone and
    # next to supported directives
    from metomi.isodatetime.exceptions import StrftimeSyntaxError
    entries = (
        ("TimePointDumper.strftime",
         lambda f: dumpers.TimePointDumper().strftime(data.TimePoint(year=2000), f)),
        ("TimePoint.strftime",
         lambda f: data.TimePoint(year=2000, month_of_year=3, day_of_month=4,
                                  hour_of_day=5, time_zone_hour=0).strftime(f)),
        ("TimePointParser.strptime", lambda f: P.strptime("2000", f)))
    for bad in "aAbBcCDeGghIlnpPrRtTuUVwWxyZ":
        for (ename, call) in entries:
            for f in ("%" + bad, "%Y-%m-%dT%H:%M:%S %" + bad):
                if ename.endswith("strptime") and f != "%" + bad:
                    continue
                n += 1
                try:
                    got = call(f)
                    fail("unsupported|%s|%s" % (ename, f), {"format": f, "entry": ename},
                         str(got), "the library's ValueError-derived StrftimeSyntaxError")
                except StrftimeSyntaxError:
                    pass
                except Exception as e:
                    fail("unsupported|%s|%s" % (ename, f), {"format": f, "entry": ename},
                         "%s: %s" % (type(e).__name__, str(e)[:80]),
                         "the library's ValueError-derived StrftimeSyntaxError")
    # literal text is printed as it stands (also text that looks like a dump template)
    for lit in ("CCYY-MM-DD", "at hh:mm", "week Www", "100%% done"):
        n += 1
        p0 = data.TimePoint(year=2008, month_of_year=12, day_of_month=29, hour_of_day=23,
                            time_zone_hour=0)
        try:
            got = p0.strftime(lit)
            if got != lit.replace("%%", "%"):
                fail("literal|" + lit, {"format": lit, "entry": "TimePoint.strftime"}, got,
                     lit.replace("%%", "%"))
        except Exception as e:
            fail("literal|" + lit, {"format": lit, "entry": "TimePoint.strftime"},
                 "%s: %s" % (type(e).__name__, str(e)[:80]), lit.replace("%%", "%"))
    data.CALENDAR.set_mode("gregorian")
    cal.set_mode("gregorian")
    return [{"name": "strftime.vs.posix", "kind": "grid",
             "bound": "years 0000..9999 boundaries x 3 representations x 12 offsets x %d format "
                      "strings over the supported directives and literals; strptime inverse for "
                      "full formats; 28 unsupported directives x 3 entry points (dumper, TimePoint."
                      "strftime, strptime), alone and after supported ones; 4 literal texts"
                      % len(FORMATS),
             "evaluations": n, "exhaustive": False, "failures": fails}]


# ---------------------------------------------------------------- C19
def run_cli(main, argv, env=None):
    import io
    import contextlib
    import os
    out = io.StringIO()
    err = io.StringIO()
    saved = dict(os.environ)
    os.environ.pop("ISODATETIMECALENDAR", None)
    os.environ.pop("ISODATETIMEREF", None)
    if env:
        os.environ.update(env)
    code = 0
    try:
        with contextlib.redirect_stdout(out), contextlib.redirect_stderr(err):
            try:
                main(list(argv))
            except SystemExit as e:
                code = e.code if e.code is not None else 0
    finally:
        os.environ.clear()
        os.environ.update(saved)
    return code, out.getvalue(), err.getvalue()


def check_c19(tier, seed, repo):
    data, parsers, dumpers = setup(repo)
    from metomi.isodatetime.main import main
    rnd = random.Random(seed)
    fails, n = [], 0

    def fail(id_, inp, obs, exp=None):
        if len(fails) < 25:
            fails.append({"id": id_, "input": inp, "observed": obs, "expected": exp})
    points = ["2020-02-28T12:00:00Z", "20200228T120000Z", "2019-12-31T23:30:00+05:30",
              "2020-060T00:00:00-03:30", "2020-W53-7T06:00:00Z", "20200229T0600Z",
              "+0020200229T06,5Z", "2020-02-29T06:00Z", "2000-01-01T00:00:00Z"]
    offsets = ["P1D", "-P1D", "PT36H", "-PT30M", "P1M", "-P1Y", "P1W", "PT1S", "+P2D"]
    for mode in (None, "360day", "365day", "366day", "gregorian"):
        m = mode or "gregorian"
        data.CALENDAR.set_mode(m)
        P = parsers.TimePointParser()
        D = parsers.DurationParser()
        calarg = ["--calendar=" + mode] if mode else []
        valid_points = []
        for pt in points:
            try:
                data.CALENDAR.set_mode(m)
                P.parse(pt)
                valid_points.append(pt)
            except ValueError:
                pass            # not a date of this calendar mode
        for pt in valid_points:
            # shifted by any number of offsets, same notation
            for k in (0, 1, 2, 3):
                offs = [rnd.choice(offsets) for _ in range(k)]
                argv = calarg + [pt] + ["--offset=" + o for o in offs]
                n += 1
                data.CALENDAR.set_mode(m)
                q = P.parse(pt, dump_as_parsed=True)
                for o in offs:
                    sgn_ = -1 if o.startswith("-") else 1
                    q = q + D.parse(o.lstrip("+-")) * sgn_
                want = str(q)
                code, out, err = run_cli(main, argv)
                if code != 0 or out.strip() != want:
                    fail("shift|%s" % argv, {"argv": argv}, {"exit": code, "stdout": out.strip()},
                         want)
            # two points: d with first + d == second; --as-total
            for pt2 in rnd.sample(valid_points, min(3, len(valid_points))):
                n += 1
                data.CALENDAR.set_mode(m)
                a, b = P.parse(pt), P.parse(pt2)
                code, out, err = run_cli(main, calarg + [pt, pt2])
                txt = out.strip()
                try:
                    data.CALENDAR.set_mode(m)
                    d = D.parse(txt.lstrip("-"))
                    d = d * (-1 if txt.startswith("-") else 1)
                    ok = code == 0 and (a + d) == b
                except Exception:
                    ok = False
                if not ok:
                    fail("diff|%s|%s" % (pt, pt2), {"argv": calarg + [pt, pt2]},
                         {"exit": code, "stdout": txt}, "d with first + d == second")
                else:
                    for unit, div in (("S", 1), ("M", 60), ("h", 3600)):
                        n += 1
                        code2, out2, _ = run_cli(main, calarg + [pt, pt2, "--as-total=" + unit])
                        try:
                            tot = float(out2.strip())
                            ok2 = code2 == 0 and abs(tot - d.get_seconds() / div) < 1e-6
                        except ValueError:
                            ok2 = False
                        if not ok2:
                            fail("total|%s|%s|%s" % (pt, pt2, unit),
                                 {"argv": calarg + [pt, pt2, "--as-total=" + unit]},
                                 out2.strip(), d.get_seconds() / div)
        # recurrences: first N points, one per line
        for rec in ("R/2020-02-27T00Z/P1D", "R4/2020-01-31T00Z/P1M", "R3/P1W/2020-03-01T00Z",
                    "R/2019-12-30T00:00:00+01:00/PT12H"):
            for N in (1, 3, 10):
                n += 1
                data.CALENDAR.set_mode(m)
                R = parsers.TimeRecurrenceParser()
                try:
                    want = [str(x) for x in itertools.islice(iter(R.parse(rec)), N)]
                except ValueError:
                    continue        # not a recurrence of this calendar mode
                code, out, err = run_cli(main, calarg + [rec, "--max=%d" % N])
                if code != 0 or out.strip().splitlines() != want:
                    fail("rec|%s|%d" % (rec, N), {"argv": calarg + [rec, "--max=%d" % N]},
                         out.strip().splitlines(), want)
    # --utc, --ref, environment variables
    data.CALENDAR.set_mode("gregorian")
    for argv, env, want in (
            (["--utc", "2020-01-01T00:00:00+05:30"], None, "2019-12-31T18:30:00+00:00"),
            (["ref", "--ref=2020-02-29T00:00:00Z", "--offset=P1D"], None, "2020-03-01T00:00:00Z"),
            (["ref", "--offset=P1D"], {"ISODATETIMEREF": "2020-02-29T00:00:00Z"},
             "2020-03-01T00:00:00Z"),
            (["20200228", "--offset=P2D"], {"ISODATETIMECALENDAR": "360day"}, "20200230"),
            (["--calendar=gregorian", "20200228", "--offset=P2D"],
             {"ISODATETIMECALENDAR": "360day"}, "20200301"),
            (["2020-02-28T00:00:00Z", "--print-format=CCYY-DDD"], None, "2020-059"),
            (["2020-02-28T00:00:00Z", "--offset=-PT1S", "-f", "%Y%m%dT%H%M%S"], None,
             "20200227T235959")):
        n += 1
        code, out, err = run_cli(main, argv, env)
        if code != 0 or out.strip() != want:
            fail("option|%s" % argv, {"argv": argv, "env": env},
                 {"exit": code, "stdout": out.strip()}, want)
    # malformed arguments: non-zero exit with a message, never a traceback
    bads = ["2020-13-01", "2020-02-30T00Z", "garbage", "R/garbage/P1D", "R5/2020-01-01T00Z/XX",
            "2020-01-01T25Z", "P1Q", "٢٠٢٠-01-01", "20200101T"]
    slots = [lambda b: [b], lambda b: ["2020-01-01T00Z", b], lambda b: [b, "2020-01-01T00Z"],
             lambda b: ["2020-01-01T00Z", "--offset=" + b],
             lambda b: ["2020-01-01T00Z", "2021-01-01T00Z", "--offset2=" + b]]
    for b in bads:
        for sl in slots:
            argv = sl(b)
            if b == "" and argv == [""]:
                continue
            n += 1
            try:
                code, out, err = run_cli(main, argv)
            except Exception as e:
                fail("malformed|%s" % argv, {"argv": argv},
                     "traceback: %s: %s" % (type(e).__name__, e), "non-zero exit with a message")
                continue
            if code in (0, None) and not (b.startswith("P") and argv[-1].endswith(b) is False):
                if not _argv_valid(argv):
                    fail("malformed|%s" % argv, {"argv": argv},
                         {"exit": code, "stdout": out.strip()}, "non-zero exit")
    data.CALENDAR.set_mode("gregorian")
    return [{"name": "cli.main.vs.library", "kind": "grid",
             "bound": "9 date-times in different notations x 0..3 offsets x 5 calendar selections; "
                      "pairs and --as-total; 4 recurrences x --max; --utc/--ref/env; 10 malformed "
                      "arguments x 5 positional slots",
             "evaluations": n, "exhaustive": False, "failures": fails}]


def _argv_valid(argv):
    return False
