"""C13 — recurrence queries agree with iteration."""
from . import ALL_MODES, CAL_LEMMAS
from . import rec_bounded

ID = "C13"
LEVEL = "other"
MODES = ALL_MODES
FUNCS = ["data:TimeRecurrence.get_is_valid", "data:TimeRecurrence.__getitem__",
         "data:TimeRecurrence.get_next", "data:TimeRecurrence.get_prev",
         "data:TimeRecurrence.get_first_after", "data:TimeRecurrence._get_is_in_bounds",
         "data:TimeRecurrence.__iter__"]
LEMMAS = CAL_LEMMAS + ["mul.mono"]
CANARIES = ["canary.week52"]
QUICK_MODES = ["gregorian", "360day"]
EXPLANATION = (
    "PROVED for exact intervals, over the iteration contract (the k-th point has instant "
    "anchor +- k x len(d)), never over __iter__'s body: get_is_valid(p) is true exactly when "
    "some member has p's instant (both directions, with a universally quantified member index "
    "and the loop index as witness), whatever shape/offset p has; r[i] is the i-th point or "
    "IndexError; get_next/get_prev return the adjacent instant or None out of bounds; "
    "get_first_after (start-anchored, whole-second probe/anchor/interval) returns the "
    "earliest member strictly later than p, the start when p precedes it, None when no later "
    "member exists. BOUNDED: nominal intervals on a grid.")
ASSUMPTIONS = ["min_point/max_point None", "nominal intervals: bounded grid only"]
LEVEL_TEXT = "Exact intervals: proof. Nominal intervals: bounded grid. Hence 'other'."
LEVEL_NOTE = "Quick tier: 2 calendar modes for the recurrence proofs."


def bounded(tier, seed, repo):
    return rec_bounded.check_c13(tier, seed, repo)
