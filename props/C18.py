"""C18 — Unix time and the system's local UTC offset are converted exactly."""
import sys
from . import ALL_MODES, T1_CAL, TICK, ADD_EXACT, REZONE, CAL_LEMMAS

ID = "C18"
LEVEL = "other"
MODES = ALL_MODES
FUNCS = ["timezone:get_local_time_zone",
         "data:get_timepoint_from_seconds_since_unix_epoch",
         "data:TimePoint.seconds_since_unix_epoch", "data:TimePoint.to_local_time_zone",
         ("data:TimePoint.__sub__", r"^tp:(cal-hms/cal-hms|ord-hm/cal-hms|week-h/cal-hms)$"),
         "data:Duration.get_days_and_seconds", "data:TimeZone.__init__",
         ] + T1_CAL + TICK + ADD_EXACT + REZONE
LEMMAS = CAL_LEMMAS
CANARIES = ["canary.dby.step.wrong"]
EXPLANATION = (
    "PROVED: get_local_time_zone over SYMBOLIC time.timezone/altzone/daylight/tm_isdst: for "
    "every whole-minute offset of either sign and any magnitude the (hours, minutes) pair "
    "spells exactly that offset, |minutes| < 60, both parts carry the offset's sign; "
    "get_timepoint_from_seconds_since_unix_epoch(n, utc) denotes 1970-01-01T00Z + n s in "
    "UTC or in the local pair (n integer or real, either sign, unbounded); "
    "seconds_since_unix_epoch of a whole-second point in any shape/offset is the text of the "
    "exact integer distance. BOUNDED (exhaustive over a finite domain, not proved): the three "
    "text forms of get_local_time_zone_format over every whole-minute offset within +-24 h.")
ASSUMPTIONS = ["time.* is the (symbolic) environment; str(int) by builtin axiom",
               "fractional second counts: proved over reals"]
LEVEL_TEXT = ("Proof for the numeric conversions; the three text renderings are enumerated "
              "exhaustively over the finite offset domain (labelled bounded): 'other'.")
LEVEL_NOTE = "Text formatting of the offset is enumerated, not proved."


def bounded(tier, seed, repo):
    if repo not in sys.path:
        sys.path.insert(0, repo)
    import time as _time
    import metomi.isodatetime.timezone as tz
    saved = (_time.timezone, _time.altzone, _time.daylight, _time.localtime)
    fails, n = [], 0

    class LT:
        def __init__(self, isdst):
            self.tm_isdst = isdst
    try:
        for off_min in range(-1440, 1441):
            off = off_min * 60
            for (daylight, isdst) in ((0, 0), (1, 1), (1, 0), (0, 1)):
                # the chosen offset is `off`; the other one is a decoy
                use_alt = (isdst == 1 and daylight)
                _time.timezone = -off if not use_alt else 7 * 3600
                _time.altzone = -off if use_alt else -5 * 3600 - 1800
                _time.daylight = daylight
                _time.localtime = lambda isdst=isdst: LT(isdst)
                h, m = tz.get_local_time_zone()
                n += 1
                ok = (3600 * h + 60 * m == off and abs(m) < 60 and h * off >= 0 and m * off >= 0)
                sign = "-" if off < 0 else "+"
                ah, am = abs(off) // 3600, (abs(off) % 3600) // 60
                want = {
                    "normal": "Z" if off == 0 else "%s%02d%02d" % (sign, ah, am),
                    "extended": "Z" if off == 0 else "%s%02d:%02d" % (sign, ah, am),
                    "reduced": "Z" if off == 0 else (
                        "%s%02d" % (sign, ah) if am == 0 else "%s%02d%02d" % (sign, ah, am)),
                }
                got = {k: tz.get_local_time_zone_format(getattr(tz.TimeZoneFormatMode, k))
                       for k in want}
                if (not ok or got != want) and len(fails) < 5:
                    fails.append({"id": "%d-%d-%d" % (off, daylight, isdst),
                                  "input": {"utc_offset_seconds": off, "daylight": daylight,
                                            "tm_isdst": isdst},
                                  "observed": {"pair": [h, m], "text": got},
                                  "expected": {"text": want}})
    finally:
        _time.timezone, _time.altzone, _time.daylight, _time.localtime = saved
    return [{"name": "local-zone.pair-and-text.exhaustive", "kind": "exhaustive-finite",
             "bound": "every whole-minute offset in [-24h, +24h] (2881) x 4 daylight/is-dst "
                      "flag combinations; pair and basic/extended/reduced text",
             "evaluations": n, "exhaustive": True, "failures": fails}]
