ALL_MODES = ["gregorian", "360day", "365day", "366day"]
