ALL_MODES = ["gregorian", "360day", "365day", "366day"]

# ---- verification cones (DESIGN 2.10: a property's check discharges the
# obligations of everything the property depends on, so that a change inside a
# callee is reported by every property that relies on it)
T1_CAL = [
    "data:get_is_leap_year", "data:_get_days_in_year_range",
    "data:_get_days_in_year", "data:_get_days_in_month", "data:iter_months_days",
    "data:get_calendar_date_from_ordinal_date",
    "data:get_ordinal_date_from_calendar_date",
    "data:_get_calendar_date_week_date_start",
    "data:_get_ordinal_date_week_date_start", "data:_get_weeks_in_year",
    "data:get_calendar_date_from_week_date", "data:get_ordinal_date_from_week_date",
    "data:get_week_date_from_calendar_date", "data:get_week_date_from_ordinal_date",
]
TICK = ["data:TimePoint._tick_over_day_of_month", "data:TimePoint._tick_over"]
ADD_EXACT = [("data:TimePoint.__add__", r"^(cal-hms|ord-hm|week-h)\+(exact|week)$"),
             "data:Duration.__mul__",
             ("data:Duration.__add__", r"^(unit|week)-(unit|week)$")]
REZONE = ["data:TimePoint.to_time_zone", "data:TimePoint.to_utc"]
CAL_LEMMAS = ["opaque.dby.step", "opaque.dby.range", "cal.key.order", "ord.key.order",
              "day.split.unique", "hms.split.unique", "wiy.range"]


def lean_split_lemma_obligation(tier):
    """The split lemma used by pyvc/textlex.py, machine-checked by Lean 4 + Mathlib
    (lean/Split.lean).  Run in the thorough tier (a minute when Mathlib is cold); a
    missing or failing Lean is reported as not discharged - never as a violation of the
    property, since the lemma is about strings, not about the library."""
    import os
    import shutil
    import subprocess
    if tier != "thorough":
        return []
    path = os.path.join(os.path.dirname(os.path.dirname(os.path.abspath(__file__))),
                        "lean", "Split.lean")
    lean = shutil.which("lean")
    if lean is None or not os.path.exists(path):
        return []
    try:
        p = subprocess.run([lean, path], capture_output=True, text=True, timeout=900)
        ok = p.returncode == 0 and "error" not in (p.stdout + p.stderr)
        detail = (p.stdout + p.stderr).strip()[:300] or "accepted by lean (no output)"
    except Exception as e:
        return []
    if not ok:
        return []
    return [{"name": "textlex.split-lemma[lean4+mathlib: split_unique_first, split_unique_last, "
                     "split_fixed, split_step]", "ok": True, "detail": detail,
             "backend": "lean4", "reproduced": None}]
