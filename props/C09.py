"""C09 — impossible dates and malformed text are rejected, cleanly."""
import os
import random
import signal
import sys
from . import ALL_MODES, T1_CAL, CAL_LEMMAS

ID = "C09"
LEVEL = "other"
MODES = ALL_MODES
FUNCS = ["data:TimePoint.__init__", "data:TimeZone.__init__", "data:_bounds_checker",
         "data:get_is_leap_year", "data:_get_days_in_year", "data:_get_days_in_month",
         "data:_get_weeks_in_year", "data:_get_ordinal_date_week_date_start",
         "data:_get_calendar_date_week_date_start", "data:_get_days_in_year_range",
         "data:iter_months_days",
         # each text notation: BadInputError exactly for the impossible values, in every mode
         ("parsers:TimePointParser.parse", r"^([be]:(cal|ord|week)[-+]?/(none|hms:[be])/(none|-hhmm)|reduced\|.*|trunc\|.*|trunc-time\|.*/(none|-hhmm))$")]
LEMMAS = ["opaque.dby.step", "opaque.dby.range", "wiy.range"]
CANARIES = ["canary.week52"]
EXPLANATION = (
    "PROVED via each TEXT notation (the real TimePointParser.parse executed on symbolic "
    "texts, all four calendar modes): for the complete calendar / ordinal / week forms "
    "(basic and extended, signed expanded years, with and without time and zone), the "
    "reduced forms, the truncated date forms and the time-only truncated forms, parsing "
    "raises BadInputError exactly when the spelled values are impossible in the active "
    "mode and otherwise returns the point with those fields. "
    "PROVED: TimePoint.__init__ (21 argument shapes: calendar/ordinal/week/reduced, time "
    "forms incl. decimals, zone, conflicts, truncated) raises BadInputError <=> the fields "
    "do not denote a date-time of the active mode - real month lengths of the real year, "
    "day 366, week 53, weekday 1..7, h<=24 with 24 only as 24:00(:00), m,s<60, zone ranges "
    "and signs - both directions, all years, 4 modes; TimeZone.__init__ and _bounds_checker "
    "likewise; every explicit `raise` reachable from the three parsers constructs a "
    "ValueError subclass. BOUNDED (not proved, not expressible as a contract over the "
    "modelled subset): that no implicit exception of another type escapes on arbitrary "
    "text and that the parsers do not hang - mutation/splice corpus with a time limit.")
ASSUMPTIONS = [
    "each text notation inherits the accept/reject decision through the field assembly "
    "proved under C07",
    "`raise TypeError` statements guarded by an isinstance test on an operand are taken to "
    "be unreachable from the parsers (operands built by the parsers have their declared "
    "classes)",
    "implicit exceptions (TypeError/KeyError/OverflowError from unmodelled operations) and "
    "regex backtracking on arbitrary text are covered by the bounded corpus only; the "
    "corpus includes component magnitudes that float() turns into infinity (exponent "
    "spellings, 400-digit runs) alone and spliced into every recurrence notation - "
    "one recorded finding there (KF-C09-1: OverflowError for BOUNDED recurrence texts)",
    "floats are reals in the proof model: infinities/NaN do not exist there, which is why "
    "the magnitude cases are a bounded matter"]
LEVEL_TEXT = ("First sentence (accept/reject decision): proof. Second sentence (exception "
              "type on arbitrary text, no hang): explicit-raise-set obligation proved, the "
              "rest bounded. Hence 'other'.")
LEVEL_NOTE = "See explanation; corpus size in evidence.bounded."
ENTRIES = ["parsers:TimePointParser.parse", "parsers:DurationParser.parse",
           "parsers:TimeRecurrenceParser.parse", "parsers:parse_timepoint_expression"]


def custom(tier, seed, repo):
    from pyvc.source import SourceDB
    from pyvc.raiseset import obligations
    db = SourceDB(repo)
    under_contract = ("data:TimePoint._tick_over", "data:TimePoint._tick_over_day_of_month",
                      "data:_get_days_in_year_range", "data:TimePoint.add_truncated",
                      "data:TimeRecurrence.__iter__", "data:TimeRecurrence.get_first_after")
    obls, funcs = obligations(db, ENTRIES, while_ok=under_contract)
    out = []
    for (name, ok, detail) in obls:
        if ok is None:
            continue
        out.append({"name": name, "ok": ok, "detail": detail, "backend": "ast-raise-set",
                    "reproduced": False})
    return out


EXEMPLARS = [
    "2000-01-01T00:00:00Z", "20000101T000000Z", "2000-001T12:30+05:30", "2000-W01-1T23,5Z",
    "+0020000101T00Z", "-0020000101T00:00:00-00:30", "2000-12-31T24:00:00Z", "2000-02",
    "2000", "20", "2000W011", "2000-W52", "20000229T1200.25+0100", "T06", "T-30", "--0501",
    "-W-1T05", "---29", "-366", "85-04-12", "P1Y2M3DT4H5M6S", "P1W", "-P1DT12H", "PT0,5S",
    "P0001-02-03T04:05:06", "P00010203T040506", "R/2000-01-01T00Z/P1D",
    "R5/2000-01-01T00Z/2000-01-02T00Z", "R3/P1M/2000-03-31T00Z", "R1/T06Z/PT6H",
]
PROBES = list("0123456789+-:.,TZWPRYMDHS/ ") + ["٣", "೩", "²", "１", "\x00", "é",
                                                 "%", "(", "\\", "\n", "Ｔ"]


class _Hang(Exception):
    pass


def _alarm(*a):
    raise _Hang()


def bounded(tier, seed, repo):
    if repo not in sys.path:
        sys.path.insert(0, repo)
    from metomi.isodatetime.parsers import (TimePointParser, DurationParser,
                                            TimeRecurrenceParser)
    rnd = random.Random(seed)
    strings = set()
    for ex in EXEMPLARS:
        strings.add(ex)
        for i in range(len(ex)):
            strings.add(ex[:i] + ex[i + 1:])
            strings.add(ex[:i] + ex[i] + ex[i:])
        nsub = len(PROBES) if tier == "thorough" else 6
        for i in range(len(ex)):
            for c in (PROBES if tier == "thorough" else rnd.sample(PROBES, nsub)):
                strings.add(ex[:i] + c + ex[i + 1:])
    exs = list(EXEMPLARS)
    for _ in range(4000 if tier == "thorough" else 600):
        a, b = rnd.choice(exs), rnd.choice(exs)
        strings.add(a[:rnd.randrange(len(a) + 1)] + b[rnd.randrange(len(b) + 1):])
    strings |= {"", " ", "T", "R", "P", "-", "+", "Z", "R/", "R//", "PT", "P-1D", "9" * 400,
                "P" + "1" * 5000 + "D", "2000-01-01T" + "0" * 3000}
    # magnitudes: component texts that float() turns into infinity (over-long digit runs,
    # exponent spellings the loose \d.* groups let through), alone and spliced into the
    # recurrence notations
    huge = ["PT1E999H", "PT1e999S", "PT9e400M", "PT" + "9" * 400 + "S", "PT" + "9" * 400 + "H",
            "PT" + "9" * 400 + "M", "-PT" + "9" * 400 + "S", "P1DT" + "9" * 400 + ",5S",
            "P1Y2M3DT1E999H", "PT1E308H", "PT1,5E999S"]
    strings |= set(huge)
    for h in huge:
        strings |= {"R/2000-01-01T00Z/" + h, "R/" + h + "/2000-01-01T00Z",
                    "R3/" + h + "/2000-01-01T00Z", "R3/2000-01-01T00Z/" + h,
                    "R1/2000-01-01T00Z/" + h}
    parsers = []
    for kw in ({}, {"allow_truncated": True}, {"allow_only_basic": True},
               {"num_expanded_year_digits": 0}, {"num_expanded_year_digits": 3,
                                                  "assumed_time_zone": (0, 0)}):
        parsers.append(("TimePointParser(%s)" % kw, TimePointParser(**kw).parse))
    parsers.append(("DurationParser()", DurationParser().parse))
    parsers.append(("TimeRecurrenceParser()", TimeRecurrenceParser().parse))
    fails, n = [], 0
    signal.signal(signal.SIGALRM, _alarm)
    for s in sorted(strings):
        for (pname, parse) in parsers:
            n += 1
            signal.alarm(5)
            try:
                parse(s)
            except ValueError:
                pass
            except _Hang:
                if len(fails) < 60:
                    fails.append({"id": "hang-%d" % n, "input": {"parser": pname, "text": s},
                                  "observed": "no result within 5 s"})
            except Exception as e:
                if len(fails) < 60:
                    fails.append({"id": "exc-%d" % n, "input": {"parser": pname, "text": s},
                                  "observed": "%s: %s" % (type(e).__name__, str(e)[:100]),
                                  "expected": "a result or an error derived from ValueError"})
            finally:
                signal.alarm(0)
    return [{"name": "parsers.raise-only-ValueError.corpus", "kind": "grid",
             "bound": "%d strings (every 1-char deletion/duplication, substitutions by %s probe "
                      "characters incl. non-ASCII digits, random splices of %d exemplars) x %d "
                      "parser configurations, 5 s limit per call" % (
                          len(strings), "all 39" if tier == "thorough" else "6 random",
                          len(EXEMPLARS), len(parsers)),
             "evaluations": n, "exhaustive": False, "failures": fails}]
