"""Bounded stand-in for C02 (and the comparison part of C04): the same instant spelled in
every representation / UTC offset / precision form must compare equal, hash equally and sit
in the timeline order given by /verif/spec/cal.py's `instant`.  The proof obligations decide
the property on the unchanged tree; this grid is the safety net for a changed tree on which
a function has fallen OUT OF THE VERIFIER'S REACH (e.g. a rewritten __hash__ with a loop that
has no invariant): then the proof reports `undecided`, and this stand-in still looks.
Labelled bounded, never counted as proved."""
import itertools
import random
import sys


def _spellings(data, inst, offsets, forms):
    """All spellings of the integer instant `inst` (seconds; day 0 = 0000-01-01)."""
    from spec import cal
    out = []
    for (oh, om) in offsets:
        loc = inst + 3600 * oh + 60 * om
        day, sod = divmod(loc, 86400)
        # calendar date of day number `day` (spec closed forms, natively)
        y = day // 366
        while cal.dby(y + 1) <= day:
            y += 1
        while cal.dby(y) > day:
            y -= 1
        n = day - cal.dby(y) + 1
        m, d = cal.md_of(y, n)
        wy, w, wd = cal.week_of(y, day + 1)      # absday = dby(y) + n
        h, rem = divmod(sod, 3600)
        mi, s = divmod(rem, 60)
        tz = data.TimeZone(hours=oh, minutes=om)
        dates = {"cal": dict(year=y, month_of_year=m, day_of_month=d),
                 "ord": dict(year=y, day_of_year=n),
                 "week": dict(year=wy, week_of_year=w, day_of_week=wd)}
        times = {"hms": dict(hour_of_day=h, minute_of_hour=mi, second_of_minute=s)}
        # decimal forms only where the re-zoning arithmetic is exact in binary floating
        # point (offset minutes 0 or 30): float rounding is outside the property's proof
        # model and is not what this grid is for
        if s in (0, 30) and om in (0, 30, -30):
            times["hm"] = dict(hour_of_day=h, minute_of_hour=mi,
                               minute_of_hour_decimal=s / 60.0)
        if s == 0 and mi in (0, 30) and om in (0, 30, -30):
            times["h"] = dict(hour_of_day=h, hour_of_day_decimal=mi / 60.0)
        for (dn, dk), (tn, tk) in itertools.product(dates.items(), times.items()):
            if (dn, tn) not in forms:
                continue
            kw = dict(dk)
            kw.update(tk)
            if y < 0 or y > 9999 or wy < 0 or wy > 9999:
                kw["num_expanded_year_digits"] = 2
            out.append(("%s-%s%+03d:%02d" % (dn, tn, oh, abs(om)),
                        data.TimePoint(time_zone_hour=oh, time_zone_minute=om, **kw)))
        if sod == 0:
            # the 24:00 spelling of the previous local day
            pd = day - 1
            py = y if n > 1 else y - 1
            pn = pd - cal.dby(py) + 1
            out.append(("ord-24:00%+03d:%02d" % (oh, abs(om)), data.TimePoint(
                year=py, day_of_year=pn, hour_of_day=24, time_zone_hour=oh,
                time_zone_minute=om,
                **({"num_expanded_year_digits": 2} if py < 0 or py > 9999 else {}))))
    return out


def check_c02(tier, seed, repo):
    if repo not in sys.path:
        sys.path.insert(0, repo)
    import metomi.isodatetime.data as data
    from spec import cal
    rnd = random.Random(seed)
    forms = {(d, t) for d in ("cal", "ord", "week") for t in ("hms", "hm", "h")}
    offsets = [(0, 0), (1, 0), (-1, 0), (5, 30), (-3, -30), (0, -30), (14, 0), (-12, 0),
               (23, 59), (-23, -59)]
    fails, n = [], 0
    modes = ["gregorian", "360day", "365day", "366day"]
    for mode in modes if tier == "thorough" else modes[:2]:
        data.CALENDAR.set_mode(mode)
        cal.set_mode(mode)
        years = [1999, 2000, 2001, 2004, 2015, 2016, 2020, 2021, 0, 1, -1, 9999, 1900]
        if tier != "thorough":
            years = years[:8] + [rnd.choice([0, 1, -1, 1900, 1996, 2100])]
        bases = []
        for y in years:
            j1 = cal.dby(y) * 86400
            # around New Year (both sides), the leap day, and mid-year
            for off in (0, -3600, 1800, -86400, 59 * 86400, 60 * 86400 - 1800,
                        182 * 86400 + 45296):
                bases.append(j1 + off)
        bases = sorted(set(bases))
        if tier != "thorough":
            bases = rnd.sample(bases, min(len(bases), 24))
            bases.sort()
        prev = None
        for inst in bases:
            try:
                # UTC first: it is the reference every other spelling is compared with, so
                # every re-zoning of a decimal form is by a multiple of 30 minutes (exact)
                sp = _spellings(data, inst, offsets if tier == "thorough"
                                else [offsets[0]] + rnd.sample(offsets[1:], 4), forms)
            except Exception as e:     # construction of a valid spelling must not fail
                fails.append({"id": "ctor-%d" % inst, "input": {"mode": mode, "instant": inst},
                              "observed": "%s: %s" % (type(e).__name__, e)})
                continue
            ref_name, ref = sp[0]
            hs = None
            for (nm, p) in sp:
                n += 1
                try:
                    ok = (p == ref and ref == p and not (p != ref) and not (p < ref)
                          and not (p > ref) and p <= ref and p >= ref
                          and hash(p) == hash(ref))
                    ok = ok and (p - ref).get_seconds() == 0
                    if prev is not None:
                        ok = ok and prev < p and p > prev and prev != p and not (prev >= p) \
                            and (p - prev).get_seconds() > 0 and (prev - p).get_seconds() < 0
                except Exception as e:
                    ok = False
                    nm += " [%s: %s]" % (type(e).__name__, str(e)[:80])
                if not ok and len(fails) < 10:
                    fails.append({
                        "id": "%s-%d-%s" % (mode, inst, nm),
                        "input": {"mode": mode, "instant_seconds_from_0000-01-01": inst,
                                  "a": "%s = %s" % (ref_name, _s(ref)),
                                  "b": "%s = %s" % (nm, _s(p)),
                                  "earlier": _s(prev) if prev is not None else None},
                        "observed": "a == b: %s, hash equal: %s, a < b: %s, a > b: %s%s" % (
                            _t(lambda: p == ref), _t(lambda: hash(p) == hash(ref)),
                            _t(lambda: ref < p), _t(lambda: ref > p),
                            ("; earlier < b: %s" % _t(lambda: prev < p))
                            if prev is not None else ""),
                        "expected": "a and b spell the same instant: equal, equal hashes, "
                                    "neither less nor greater, zero difference; the earlier "
                                    "point is strictly less"})
            prev = sp[-1][1]
        data.CALENDAR.set_mode("gregorian")
        cal.set_mode("gregorian")
    return [{"name": "timepoint.same-instant-spellings", "kind": "grid",
             "bound": "instants around New Year, the leap day and mid-year of %s years x %s UTC "
                      "offsets x calendar/ordinal/week x hh:mm:ss / decimal minute / decimal "
                      "hour / 24:00 spellings, %d calendar modes: ==, !=, <, >, <=, >=, hash, "
                      "sign of the difference, against the neighbouring instant" % (
                          "13" if tier == "thorough" else "9", "10" if tier == "thorough"
                          else "5 of 10", 4 if tier == "thorough" else 2),
             "evaluations": n, "exhaustive": False, "failures": fails}]


def _s(p):
    try:
        return str(p)
    except Exception:
        try:
            return repr(p)
        except Exception:
            return "<%s %s>" % (type(p).__name__, [
                (k, getattr(p, k, None)) for k in getattr(type(p), "__slots__", [])
                if getattr(p, k, None) is not None and not k.startswith("_dump")
                and not k.startswith("_trunc")])


def _t(f):
    try:
        return f()
    except Exception as e:
        return "%s" % type(e).__name__


def check_c01(tier, seed, repo):
    """Safety net for C01 (see the module docstring): p + d for exact durations against the
    spec's `instant`, validity, representation and zone kept, p - d == p + (-d), d + p."""
    if repo not in sys.path:
        sys.path.insert(0, repo)
    import metomi.isodatetime.data as data
    from spec import cal
    rnd = random.Random(seed)
    fails, n = [], 0
    durs = [dict(days=1), dict(days=-1), dict(days=-1096), dict(days=1461), dict(weeks=-53),
            dict(weeks=105), dict(hours=-100000), dict(hours=25, minutes=-61, seconds=3601),
            dict(seconds=86399), dict(seconds=-86401), dict(minutes=527040),
            dict(days=-366, hours=-23, minutes=-59, seconds=-59), dict(days=146097),
            dict(days=-146098)]
    modes = ["gregorian", "360day", "365day", "366day"]
    forms = {(d, "hms") for d in ("cal", "ord", "week")}
    for mode in modes if tier == "thorough" else modes[:2]:
        data.CALENDAR.set_mode(mode)
        cal.set_mode(mode)
        years = [2019, 2016, 2000, 1900, 2004, 0, -1, 2021]
        bases = []
        for y in years if tier == "thorough" else rnd.sample(years, 4):
            j1 = cal.dby(y) * 86400
            for off in (0, 86399, 59 * 86400 + 43200, 364 * 86400 + 7):
                bases.append(j1 + off)
        for inst in bases:
            try:
                sp = _spellings(data, inst, [(0, 0), (5, 30), (-3, -30)], forms)
            except Exception as e:     # construction of a valid spelling must not fail
                fails.append({"id": "ctor-%s-%d" % (mode, inst),
                              "input": {"mode": mode, "instant": inst},
                              "observed": "%s: %s" % (type(e).__name__, str(e)[:100]),
                              "expected": "every spelling of a valid date-time is accepted"})
                continue
            sp = [x for x in sp if "24:00" not in x[0]]
            for (nm, p) in (sp if tier == "thorough" else rnd.sample(sp, 4)):
                for kw in (durs if tier == "thorough" else rnd.sample(durs, 6)):
                    n += 1
                    d = data.Duration(**kw)
                    try:
                        r = p + d
                        want = cal.instant(p) + cal.dlen(d)
                        ok = (cal.instant(r) == want and cal.valid_date(r)
                              and cal.time_normal(r)
                              and r.get_is_calendar_date() == p.get_is_calendar_date()
                              and r.get_is_ordinal_date() == p.get_is_ordinal_date()
                              and r.time_zone == p.time_zone
                              and cal.instant(p - (d * -1)) == want
                              and cal.instant(d + p) == want
                              and cal.instant(p - d) == cal.instant(p + d * -1))
                        obs = str(_s(r))
                    except Exception as e:
                        ok, obs = False, "%s: %s" % (type(e).__name__, str(e)[:80])
                    if not ok and len(fails) < 10:
                        fails.append({"id": "%s-%s-%s" % (mode, nm, sorted(kw.items())),
                                      "input": {"mode": mode, "p": "%s = %s" % (nm, _s(p)),
                                                "d": kw},
                                      "observed": obs,
                                      "expected": "the instant of p moved by exactly the "
                                                  "length of d, a valid date, normal time, "
                                                  "p's representation and offset; p - d == "
                                                  "p + (-d); d + p the same"})
        data.CALENDAR.set_mode("gregorian")
        cal.set_mode("gregorian")
    return [{"name": "timepoint.plus-exact-duration.vs-instant", "kind": "grid",
             "bound": "points around New Year / leap day / year end of up to 8 years (incl. 0 "
                      "and -1) x 3 representations x 3 offsets x 14 exact durations (multi-year, "
                      "negative, week form, mixed signs), %d calendar modes"
                      % (4 if tier == "thorough" else 2),
             "evaluations": n, "exhaustive": False, "failures": fails}]


def check_c04(tier, seed, repo):
    """Safety net for C04: a - b for points spelled in different representations and
    offsets, against the spec's `instant`; field ranges, one sign; b + (a - b) == a."""
    if repo not in sys.path:
        sys.path.insert(0, repo)
    import metomi.isodatetime.data as data
    from spec import cal
    rnd = random.Random(seed)
    fails, n = [], 0
    forms = {(d, "hms") for d in ("cal", "ord", "week")}
    offsets = [(0, 0), (5, 30), (-3, -30), (0, -30), (0, -44), (14, 0), (-12, 0)]
    modes = ["gregorian", "360day", "365day", "366day"]
    for mode in modes if tier == "thorough" else modes[:2]:
        data.CALENDAR.set_mode(mode)
        cal.set_mode(mode)
        insts = []
        for y in (2000, 2001, 2019, 2400, 1600, 0, 1999):
            j1 = cal.dby(y) * 86400
            insts += [j1, j1 + 86399, j1 + 59 * 86400 + 3661, j1 - 1]
        pts = []
        for inst in (insts if tier == "thorough" else rnd.sample(insts, 10)):
            try:
                sp = [x for x in _spellings(data, inst, offsets if tier == "thorough"
                                             else rnd.sample(offsets, 3), forms)]
            except Exception as e:     # construction of a valid spelling must not fail
                fails.append({"id": "ctor-%s-%d" % (mode, inst),
                              "input": {"mode": mode, "instant": inst},
                              "observed": "%s: %s" % (type(e).__name__, str(e)[:100]),
                              "expected": "every spelling of a valid date-time is accepted"})
                continue
            pts += [(inst, nm, p) for (nm, p) in (sp if tier == "thorough"
                                                  else rnd.sample(sp, 3))]
        pairs = [(a, b) for a in pts for b in pts]
        pairs = rnd.sample(pairs, min(len(pairs), 6000 if tier == "thorough" else 400))
        for ((ia, na, a), (ib, nb, b)) in pairs:
            n += 1
            try:
                d = a - b
                neg = ia < ib
                comps = [d.days, d.hours, d.minutes, d.seconds]
                ok = (d.get_seconds() == ia - ib and d.years == 0 and d.months == 0
                      and not d.get_is_in_weeks()
                      and all((c <= 0) if neg else (c >= 0) for c in comps)
                      and abs(d.hours) < 24 and abs(d.minutes) < 60 and abs(d.seconds) < 60
                      and (b + d) == a and (a - b) == (b - a) * -1)
                obs = str(d)
            except Exception as e:
                ok, obs = False, "%s: %s" % (type(e).__name__, str(e)[:80])
            if not ok and len(fails) < 10:
                fails.append({"id": "%s-%s-%s-%d-%d" % (mode, na, nb, ia, ib),
                              "input": {"mode": mode, "a": "%s = %s" % (na, _s(a)),
                                        "b": "%s = %s" % (nb, _s(b))},
                              "observed": obs,
                              "expected": "an exact Duration of %d s (days, hours, minutes, "
                                          "seconds in range, one sign) with b + (a - b) == a"
                                          % (ia - ib)})
        data.CALENDAR.set_mode("gregorian")
        cal.set_mode("gregorian")
    return [{"name": "timepoint.difference.vs-instant", "kind": "grid",
             "bound": "pairs of points (year ends, leap days, years 0 / 1600 / 2400: up to 400 "
                      "years apart) x 3 representations x up to 7 offsets incl. -00:30 and "
                      "-00:44, %d calendar modes" % (4 if tier == "thorough" else 2),
             "evaluations": n, "exhaustive": False, "failures": fails}]
