"""C11 — duration arithmetic, equality, ordering and hashing are coherent."""
from . import ALL_MODES

ID = "C11"
LEVEL = "proof"
MODES = ALL_MODES
FUNCS = ["data:Duration.__add__", "data:Duration.__mul__", "data:Duration.__abs__",
         "data:Duration.get_days_and_seconds", "data:Duration.to_weeks",
         "data:Duration.__eq__", "data:Duration.__lt__", "data:Duration.__le__",
         "data:Duration.__gt__", "data:Duration.__ge__", "data:Duration.__hash__",
         "ghost:dur_add_commutes", "ghost:dur_add_associative",
         "ghost:dur_identity_and_inverse", "ghost:dur_mul_is_repeated_addition",
         "ghost:dur_sub_is_add_negation", "ghost:dur_exact_equal_by_length",
         "ghost:dur_equal_implies_equal_hash", "ghost:dur_order_consistent",
         "ghost:dur_order_transitive", "ghost:dur_unit_ratios"]
FUNCS[0] = ("data:Duration.__add__", r"^(unit|week)-(unit|week)$")
LEMMAS = []
CANARIES = ["canary.week52"]
EXPLANATION = (
    "Contracts of Duration.__add__/__mul__/__abs__/__eq__/__lt__..__ge__/__hash__/"
    "get_days_and_seconds/to_weeks are proved for unit-form and week-form operands with "
    "integer years/months/days/weeks and real hours/minutes/seconds of either sign; the "
    "algebraic laws (commutativity, associativity, identity, inverse, n*d as repeated "
    "addition, subtraction as addition of the negation, equality by length, equal => "
    "equal hash, mutual consistency and transitivity of the order, the 7/24/60/60 ratios) "
    "are ghost programs proved over those contracts. TimeZone is excluded as the property says.")
ASSUMPTIONS = [
    "the bounded grid in this check adds nothing on a tree where every obligation is discharged; it is a safety net for changed code that leaves the verifier's reach (reported `undecided` by the proof part), labelled bounded, never counted as proved",
   "decimal components are proved over mathematical reals (float rounding not modelled)",
               "hash() is an uninterpreted function with congruence"]
LEVEL_TEXT = "Proof over Int/Real for all component values; laws as lemmas over contracts."
LEVEL_NOTE = "Floats as reals; PyVC/z3 trusted."


def bounded(tier, seed, repo):
    """Safety net for a changed tree on which a function of the cone has fallen out of the
    verifier's reach (the proof then says `undecided`); never counted as proved."""
    from . import safety_bounded
    return safety_bounded.check_c11(tier, seed, repo)
