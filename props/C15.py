"""C15 — the active calendar mode alone determines calendar results."""
import json
import os
import subprocess
import sys
from . import ALL_MODES, T1_CAL, CAL_LEMMAS

ID = "C15"
LEVEL = "proof"
MODES = ALL_MODES
FUNCS = T1_CAL
LEMMAS = CAL_LEMMAS
CANARIES = ["canary.dby.step.wrong"]
SPELLINGS = ["360day", "360_day", "365day", "365_day", "366day", "366_day", "gregorian"]
EXPLANATION = (
    "The history quantifier is reduced (DESIGN 5, C15) to: (1) set_mode is total, "
    "history-free (static def-before-use obligation on its AST) and establishes exactly the "
    "spec tables for each of the 7 spellings from every previous mode (8 x 7 exhaustive); "
    "(2) footprint obligations on the real AST: every lru_cache'd function whose transitive "
    "reads meet mode-dependent Calendar state receives CALENDAR.mode in a key position at "
    "every call site; every hand-rolled persistent cache store has a key covering the "
    "stored value's mutable inputs; nothing but set_mode writes Calendar state; "
    "(3) the per-mode semantics of every helper is proved (C03 obligations, 4 modes). "
    "The induction over histories is the written argument of DESIGN 5/C15. A bounded "
    "differential (mode-switching process vs fresh process per mode) stands by as replay "
    "source and as stand-in for what the static obligations abstract.")
ASSUMPTIONS = [
    "call resolution in the footprint analysis is by name within the package "
    "(over-approximate); operator dunder edges are followed only from functions that "
    "handle value objects",
    "the induction from the obligations to 'every history' is a prose argument (DESIGN.md)",
    "os.getenv / argparse are external; mode selection is enumerated, not proved"]
LEVEL_TEXT = ("Proof by footprint (reads-set) obligations over the real AST plus per-mode "
              "semantic proofs; finite parts enumerated exhaustively.")
LEVEL_NOTE = ("The reduction from obligations to all histories is a written induction; call "
              "graph resolution is name-based.")

BATTERY = r'''
import json, sys
sys.path.insert(0, sys.argv[1])
import metomi.isodatetime.data as d
from metomi.isodatetime.parsers import TimePointParser, DurationParser, TimeRecurrenceParser
from metomi.isodatetime.main import main as cli
import io, contextlib
P = TimePointParser(assumed_time_zone=(0, 0)); D = DurationParser()
R = TimeRecurrenceParser(P, D)
def battery():
    out = {}
    for y in (-1, 0, 1, 4, 100, 1896, 1900, 1999, 2000, 2001, 2003, 2004, 2019, 2020):
        out["diy%d" % y] = d.get_days_in_year(y)
        out["wiy%d" % y] = d.get_weeks_in_year(y)
        out["leap%d" % y] = d.get_is_leap_year(y)
        out["s1ad%d" % y] = d.get_days_since_1_ad(y)
        out["wds%d" % y] = d.get_calendar_date_week_date_start(y)
        out["ods%d" % y] = d.get_ordinal_date_week_date_start(y)
        out["rng%d" % y] = d.get_days_in_year_range(y - 3, y + 2)
        for m in (1, 2, 3, 12):
            out["dim%d-%d" % (y, m)] = d.get_days_in_month(m, y)
        out["imd%d" % y] = list(d.iter_months_days(y, 2, 20))[:15]
        for n in (1, 59, 60, 61, 360):
            out["cfo%d-%d" % (y, n)] = d.get_calendar_date_from_ordinal_date(y, n)
            out["wfo%d-%d" % (y, n)] = d.get_week_date_from_ordinal_date(y, n)
        for (m, dd) in ((2, 28), (3, 1), (12, 30)):
            out["ofc%d-%d-%d" % (y, m, dd)] = d.get_ordinal_date_from_calendar_date(y, m, dd)
            out["wfc%d-%d-%d" % (y, m, dd)] = d.get_week_date_from_calendar_date(y, m, dd)
        for w in (1, 30, 51):
            out["cfw%d-%d" % (y, w)] = d.get_calendar_date_from_week_date(y, w, 3)
    for s in ("2004-02-28T12:00:00Z", "2019-12-30T00:00:00Z", "+0020000228T230000+0530",
              "2001-060T00:00:00Z", "2020W527T00Z", "1896-02-28T00Z"):
        p = P.parse(s)
        for dur in ("P1D", "P2D", "-P1D", "P1M", "P1Y", "P4Y", "PT36H", "P1W", "-P59D", "P400D"):
            q = p + D.parse(dur)
            out["add %s %s" % (s, dur)] = str(q)
            out["sub %s %s" % (s, dur)] = str(q - p)
        out["wk " + s] = str(p.to_week_date()); out["od " + s] = str(p.to_ordinal_date())
        out["cd " + s] = str(p.to_calendar_date())
    for bad in ("2019-02-29", "2020-02-30", "2001-366", "2020-12-31", "2019-W53-1", "2004-02-29"):
        try:
            P.parse(bad); out["ok " + bad] = True
        except ValueError:
            out["ok " + bad] = False
    for r in ("R5/2020-02-27T00Z/P1D", "R4/2019-12-01T00Z/P1M", "R3/P1Y/2021-03-01T00Z"):
        out["rec " + r] = [str(x) for x in R.parse(r)]
    return out
'''

SWITCH = BATTERY + r'''
modes = json.loads(sys.argv[2])
res = {}
for a in modes:
    for b in modes:
        if a == b: continue
        d.CALENDAR.set_mode(a); battery()
        d.CALENDAR.set_mode(b); res[a + ">" + b] = battery()
print(json.dumps(res, default=str))
'''
FRESH = BATTERY + r'''
d.CALENDAR.set_mode(sys.argv[2])
print(json.dumps(battery(), default=str))
'''


def custom(tier, seed, repo):
    """Footprint / memoisation / set_mode obligations over the real AST."""
    from pyvc.source import SourceDB
    from pyvc.footprint import Analysis
    db = SourceDB(repo)
    a = Analysis(db)
    out = []
    obls = (a.set_mode_history_free() + a.calendar_single_writer() +
            a.memo_obligations() + a.persistent_store_obligations())
    diffs = None
    for (name, ok, detail) in obls:
        r = {"name": name, "ok": ok, "detail": detail, "backend": "ast-footprint"}
        if not ok:
            if diffs is None:
                diffs = history_differential(repo, SPELLINGS if tier == "thorough"
                                             else ["gregorian", "360day", "365day", "366day"])
            if diffs["failures"]:
                r["replay"] = {"kind": "mode-history", "failures": diffs["failures"][:3],
                               "replay_cmd": "python3-vt -c 'import props.C15 as c; "
                                             "print(c.history_differential(\"%s\"))'" % repo}
                r["reproduced"] = True
            else:
                r["reproduced"] = False
        out.append(r)
    return out


def history_differential(repo, modes):
    py = "/venv/bin/python" if os.path.exists("/venv/bin/python") else sys.executable
    env = dict(os.environ)
    env.pop("ISODATETIMECALENDAR", None)
    fresh = {}
    for m in modes:
        p = subprocess.run([py, "-c", FRESH, repo, m], capture_output=True, text=True,
                           env=env, timeout=300)
        if p.returncode != 0:
            return {"evaluations": 0, "failures": [
                {"id": "fresh-" + m, "input": m, "observed": p.stderr[-500:]}]}
        fresh[m] = json.loads(p.stdout)
    p = subprocess.run([py, "-c", SWITCH, repo, json.dumps(modes)], capture_output=True,
                       text=True, env=env, timeout=600)
    if p.returncode != 0:
        return {"evaluations": 0, "failures": [
            {"id": "switching", "input": modes, "observed": p.stderr[-800:]}]}
    sw = json.loads(p.stdout)
    fails, n = [], 0
    for hist, res in sw.items():
        b = hist.split(">")[1]
        for k, v in res.items():
            n += 1
            if fresh[b].get(k) != v and len(fails) < 10:
                fails.append({"id": "%s:%s" % (hist, k),
                              "input": {"history": "set_mode(%s); battery; set_mode(%s)"
                                        % tuple(hist.split(">")), "computation": k},
                              "observed": v, "expected": fresh[b].get(k)})
    return {"evaluations": n, "failures": fails}


def bounded(tier, seed, repo):
    out = []
    if repo not in sys.path:
        sys.path.insert(0, repo)
    import metomi.isodatetime.data as data
    import spec.cal as cal
    # (1) set_mode establishes exactly F(mode) from every previous mode
    fails, n = [], 0
    C = data.CALENDAR
    for prev in [None] + SPELLINGS:
        for new in SPELLINGS + [None]:
            if prev is not None:
                C.set_mode(prev)
            C.set_mode(new)
            n += 1
            dim, diml = cal.TABLES[new or "gregorian"]
            want = {"DAYS_IN_MONTHS": tuple(dim), "DAYS_IN_MONTHS_LEAP": tuple(diml),
                    "DAYS_IN_YEAR": sum(dim), "DAYS_IN_YEAR_LEAP": sum(diml),
                    "MONTHS_IN_YEAR": 12, "MAX_DAYS_IN_MONTH": max(dim),
                    "MAX_WEEKS_IN_YEAR": -(-sum(diml) // 7),
                    "ROUGH_DAYS_IN_YEAR": sum(dim), "SECONDS_IN_DAY": 86400,
                    "SECONDS_IN_HOUR": 3600, "MINUTES_IN_DAY": 1440,
                    "INDEXED_DAYS_IN_MONTHS": [(i + 1, x) for i, x in enumerate(dim)],
                    "INDEXED_DAYS_IN_MONTHS_LEAP": [(i + 1, x) for i, x in enumerate(diml)],
                    "mode": new or "gregorian"}
            got = {k: (tuple(getattr(C, k)) if k.startswith("DAYS_IN_MONTHS")
                       else getattr(C, k)) for k in want}
            if got != want and len(fails) < 5:
                fails.append({"id": "%s-%s" % (prev, new),
                              "input": {"previous": prev, "new": new},
                              "observed": {k: got[k] for k in got if got[k] != want[k]},
                              "expected": {k: want[k] for k in got if got[k] != want[k]}})
    bad_ok = False
    try:
        C.set_mode("gregorian")
        C.set_mode("nonsense")
    except KeyError:
        bad_ok = (C.mode == "gregorian" and C.DAYS_IN_YEAR == 365)
    if not bad_ok:
        fails.append({"id": "bad-spelling", "input": "set_mode('nonsense')",
                      "observed": "no KeyError or state changed"})
    C.set_mode("gregorian")
    out.append({"name": "set_mode.establishes-spec-tables", "kind": "exhaustive-finite",
                "bound": "(fresh + 7 previous spellings) x (7 spellings + None), every derived attribute",
                "evaluations": n, "exhaustive": True, "failures": fails})
    # (2) mode selection: option, else environment variable, else gregorian
    out.append(mode_selection(repo))
    # (3) history differential (bounded stand-in for the history quantifier)
    modes = SPELLINGS if tier == "thorough" else ["gregorian", "360day", "365_day", "366day"]
    hd = history_differential(repo, modes)
    out.append({"name": "mode-history-differential", "kind": "grid",
                "bound": "all ordered pairs of %d mode spellings, battery of ~900 calendar "
                         "computations after each switch vs a fresh process per mode" % len(modes),
                "evaluations": hd["evaluations"], "exhaustive": False,
                "failures": hd["failures"]})
    return out


def mode_selection(repo):
    """option, else environment variable, else gregorian - whatever mode an earlier
    operator left behind (finite domain, enumerated completely)"""
    import os
    import sys
    if repo not in sys.path:
        sys.path.insert(0, repo)
    from metomi.isodatetime.data import CALENDAR as C
    from metomi.isodatetime.datetimeoper import DateTimeOperator
    fails, n = [], 0
    saved = os.environ.pop("ISODATETIMECALENDAR", None)
    try:
        for prev in ["gregorian", "360day", "365day", "366day"]:
            for opt in [None, ""] + ["360day", "365day", "366day", "gregorian"]:
                for envv in [None, "", "360day", "365day", "366day", "gregorian"]:
                    n += 1
                    if envv is None:
                        os.environ.pop("ISODATETIMECALENDAR", None)
                    else:
                        os.environ["ISODATETIMECALENDAR"] = envv
                    C.set_mode(prev)
                    DateTimeOperator(calendar_mode=opt)
                    want = opt or envv or "gregorian"
                    if C.mode != want and len(fails) < 5:
                        fails.append({"id": "%s-%s-%s" % (prev, opt, envv),
                                      "input": {"mode_left_by_previous_operator": prev,
                                                "option": opt, "ISODATETIMECALENDAR": envv},
                                      "observed": C.mode, "expected": want})
    finally:
        os.environ.pop("ISODATETIMECALENDAR", None)
        if saved is not None:
            os.environ["ISODATETIMECALENDAR"] = saved
        C.set_mode("gregorian")
    return {"name": "mode-selection", "kind": "exhaustive-finite",
            "bound": "mode left by an earlier operator in {4 modes} x option in {None,'',4 modes} "
                     "x environment in {unset,'',4 modes}",
            "evaluations": n, "exhaustive": True, "failures": fails}
