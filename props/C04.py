"""C04 — subtracting time points inverts addition."""
from . import ALL_MODES, T1_CAL, TICK, ADD_EXACT, REZONE, CAL_LEMMAS
from . import tp_bounded

ID = "C04"
LEVEL = "proof"
MODES = ALL_MODES
FUNCS = [("data:TimePoint.__sub__", r"^tp:"), "data:Duration.__mul__",
         "data:Duration.__eq__",
         "ghost:sub_antisymmetric", "ghost:add_then_sub", "ghost:sub_then_add",
         "ghost:difference_sign_agrees"]
FUNCS = FUNCS + T1_CAL + TICK + ADD_EXACT + REZONE + [("data:TimePoint._cmp", r"^(eq|gt):(cal-hms/ord-hm|ord-h/week-hms|week-hm/cal-h)$")]
LEMMAS = CAL_LEMMAS + ["opaque.dby.step", "opaque.dby.range", "cal.key.order", "ord.key.order"]
CANARIES = ["canary.dby.step.wrong"]
from .C02 import _DI, _TI   # noqa


def _quick_sub(name):
    if "same-object" in name:
        return True
    a, b = name[3:].split("/")
    d1, t1 = a.split("-")
    d2, t2 = b.split("-")
    k = _DI[d1] * 3 + _DI[d2]
    tp = _TI[t1] * 3 + _TI[t2]
    return tp in (k, (k + 4) % 9, (k + 8) % 9)


QUICK_FILTER = {"data:TimePoint.__sub__": _quick_sub}
EXPLANATION = (
    "TimePoint.__sub__(TimePoint): result is a unit-form Duration with years = months = 0 "
    "whose length is instant(a) - instant(b), with 0<=h<24, 0<=m,s<60 and one sign "
    "throughout, for every pair of shapes; (a-b) == -(b-a), b+(a-b) == a, (p+d)-p == d "
    "are ghost programs over the contracts of __sub__, __add__, __mul__, __eq__, _cmp.")
ASSUMPTIONS = [
    "the bounded grid in this check adds nothing on a tree where every obligation is discharged; it is a safety net for changed code that leaves the verifier's reach (reported `undecided` by the proof part), labelled bounded, never counted as proved",
   
    "the single recursive step (other > self) is verified against the function's own "
    "contract; its termination follows from the proved strictness of _cmp (the guard is "
    "false in the callee), argued, not a generated obligation",
    "(p+d)-p == d excludes the known finding KF-C01-1 region (24:00 + zero duration)"]
LEVEL_TEXT = ("Proof for all pairs of shapes, any distance, across year 0; identities as "
              "lemmas over contracts.")
LEVEL_NOTE = "Floats as reals; PyVC/z3/cvc5 trusted; quick tier proves 27 of 81 shape pairs."


def bounded(tier, seed, repo):
    """Safety net for a changed tree on which a function of the cone has fallen out of the
    verifier's reach (the proof then says `undecided`); never counted as proved."""
    return tp_bounded.check_c04(tier, seed, repo)
