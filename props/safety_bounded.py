"""Bounded safety nets for the properties whose checks are otherwise pure proof / static
obligations (C03, C05, C11, C16).  On the unchanged tree every obligation of these
properties is discharged and these grids add nothing; they are there for CHANGED code that
leaves the verifier's reach (a loop replaced by another algorithm is reported `undecided`
by the proof part - honest, but not a detection).  Oracles: /verif/spec/cal.py (closed
forms, natively) and plain integer arithmetic.  Labelled bounded, never counted as proved."""
import itertools
import random
import sys

MODES = ["gregorian", "360day", "365day", "366day"]


def _setup(repo):
    if repo not in sys.path:
        sys.path.insert(0, repo)
    import metomi.isodatetime.data as data
    from spec import cal
    return data, cal


def _fail(fails, ident, inp, obs, exp=None, cap=10):
    if len(fails) < cap:
        fails.append({"id": ident, "input": inp, "observed": obs, "expected": exp})


def _guard(fails, ident, inp, f):
    try:
        return f()
    except Exception as e:          # a library exception is a finding, not a crash
        _fail(fails, "exc-" + ident, inp, "%s: %s" % (type(e).__name__, str(e)[:100]),
              "no exception")
        return None


# ------------------------------------------------------------------------------ C03
def check_c03(tier, seed, repo):
    data, cal = _setup(repo)
    rnd = random.Random(seed)
    fails, n = [], 0
    years = [-401, -1, 0, 1, 4, 100, 400, 1900, 1996, 1999, 2000, 2001, 2004, 2015, 2016,
             2020, 2021, 2100, 9999]
    for mode in MODES:
        data.CALENDAR.set_mode(mode)
        cal.set_mode(mode)
        for y in (years if tier == "thorough" else rnd.sample(years, 7)):
            n += 1
            inp = {"mode": mode, "year": y}
            got = _guard(fails, "year-%s-%d" % (mode, y), inp, lambda: (
                data.get_days_in_year(y), data.get_is_leap_year(y), data.get_weeks_in_year(y),
                [data.get_days_in_month(m, y) for m in range(1, 13)],
                data.get_days_in_year_range(y - 7, y + 5),
                data.get_days_in_year_range(y, y)))
            want = (cal.diy(y), cal.leap(y), cal.wiy(y), [cal.dim(y, m) for m in range(1, 13)],
                    cal.dby(y + 6) - cal.dby(y - 7), cal.diy(y))
            if got is not None and (got[0], bool(got[1]) if mode == "gregorian" else got[0],
                                    got[2], got[3], got[4], got[5]) != (
                    want[0], bool(want[1]) if mode == "gregorian" else want[0], want[2],
                    want[3], want[4], want[5]):
                _fail(fails, "year-%s-%d" % (mode, y), inp, str(got), str(want))
            ndays = cal.diy(y)
            days = list(range(1, ndays + 1))
            if tier != "thorough":
                days = sorted(set([1, 2, 3, 4, 5, 6, 7, 59, 60, 61, ndays - 6, ndays - 5,
                                   ndays - 4, ndays - 3, ndays - 2, ndays - 1, ndays] +
                                  rnd.sample(days, 12)))
            for dn in days:
                n += 1
                m, d = cal.md_of(y, dn)
                wk = cal.week_of(y, cal.absday(y, dn))
                inp = {"mode": mode, "date": (y, m, d)}
                got = _guard(fails, "conv-%s-%d-%d" % (mode, y, dn), inp, lambda: (
                    data.get_ordinal_date_from_calendar_date(y, m, d),
                    data.get_calendar_date_from_ordinal_date(y, dn),
                    data.get_week_date_from_calendar_date(y, m, d),
                    data.get_week_date_from_ordinal_date(y, dn),
                    data.get_calendar_date_from_week_date(*wk),
                    data.get_ordinal_date_from_week_date(*wk)))
                want = ((y, dn), (y, m, d), tuple(wk), tuple(wk), (y, m, d), (y, dn))
                if got is not None and tuple(tuple(x) for x in got) != want:
                    _fail(fails, "conv-%s-%d-%d" % (mode, y, dn), inp, str(got), str(want))
    data.CALENDAR.set_mode("gregorian")
    cal.set_mode("gregorian")
    return [{"name": "calendar.conversions.vs-spec", "kind": "grid",
             "bound": "4 modes x %s years (negative, 0, century, leap, 53-week) x %s days: six "
                      "conversions, year / month / week-year lengths, days-in-year-range"
                      % ("19" if tier == "thorough" else "7 of 19",
                         "every day" if tier == "thorough" else "29 days incl. both ends"),
             "evaluations": n, "exhaustive": False, "failures": fails}]


# ------------------------------------------------------------------------------ C05
def _cal_of(data, p):
    return tuple(p.get_calendar_date())


def check_c05(tier, seed, repo):
    data, cal = _setup(repo)
    rnd = random.Random(seed)
    fails, n = [], 0

    def months_oracle(y, m, d, k):
        sg = 1 if k > 0 else -1
        for _ in range(abs(k)):
            idx = 12 * y + m - 1 + sg
            y, m = idx // 12, idx % 12 + 1
            d = min(d, cal.dim(y, m))
        return y, m, d

    for mode in (MODES if tier == "thorough" else MODES[:2]):
        data.CALENDAR.set_mode(mode)
        cal.set_mode(mode)
        starts = []
        for y in (2019, 2020, 2016, 1900):
            for (m, d) in ((1, 29), (1, 30), (1, 31), (2, 28), (2, 29), (3, 31), (12, 31),
                           (10, 31), (5, 15)):
                if d <= cal.dim(y, m):
                    starts.append((y, m, d))
        for (y, m, d) in (starts if tier == "thorough" else rnd.sample(starts, 12)):
            base = data.TimePoint(year=y, month_of_year=m, day_of_month=d, hour_of_day=6,
                                  minute_of_hour=30, second_of_minute=15,
                                  time_zone_hour=-3, time_zone_minute=-30)
            for (rep, p) in (("cal", base), ("ord", base.to_ordinal_date()),
                             ("week", base.to_week_date())):
                ks = [-14, -13, -12, -2, -1, 1, 2, 11, 12, 13, 25]
                for k in (ks if tier == "thorough" else rnd.sample(ks, 5)):
                    n += 1
                    inp = {"mode": mode, "p": "%s %s" % (rep, p), "months": k}
                    r = _guard(fails, "m-%s-%s-%s-%d" % (mode, rep, (y, m, d), k), inp,
                               lambda: (p + data.Duration(months=k), p.add_months(k)))
                    if r is None:
                        continue
                    want = months_oracle(y, m, d, k)
                    for q in r:
                        if _cal_of(data, q) != want or q.get_hour_minute_second() != (6, 30, 15) \
                                or q.time_zone != p.time_zone \
                                or q.get_is_ordinal_date() != p.get_is_ordinal_date() \
                                or q.get_is_week_date() != p.get_is_week_date():
                            _fail(fails, "m-%s-%s-%s-%d" % (mode, rep, (y, m, d), k), inp,
                                  str(q), "calendar date %s, same time, zone and "
                                          "representation" % (want,))
                for k in (-5, -4, -1, 1, 4, 5):
                    n += 1
                    inp = {"mode": mode, "p": "%s %s" % (rep, p), "years": k}
                    q = _guard(fails, "y-%s-%s-%s-%d" % (mode, rep, (y, m, d), k), inp,
                               lambda: p + data.Duration(years=k))
                    if q is None:
                        continue
                    if rep == "cal":
                        ok = _cal_of(data, q) == (y + k, m, min(d, cal.dim(y + k, m)))
                    elif rep == "ord":
                        ok = tuple(q.get_ordinal_date()) == (
                            p._year + k, min(p._day_of_year, cal.diy(p._year + k)))
                    else:
                        ok = tuple(q.get_week_date()) == (
                            p._year + k, min(p._week_of_year, cal.wiy(p._year + k)),
                            p._day_of_week)
                    if not ok:
                        _fail(fails, "y-%s-%s-%s-%d" % (mode, rep, (y, m, d), k), inp, str(q),
                              "same month/day, ordinal day or week/weekday, clamped")
                # mixed: exact part first, then months, then years
                for kw in (dict(years=1, months=1), dict(years=-1, months=13, days=2),
                           dict(months=-1, days=-1, hours=20), dict(years=4, days=1)):
                    n += 1
                    inp = {"mode": mode, "p": "%s %s" % (rep, p), "d": kw}
                    r = _guard(fails, "x-%s-%s-%s-%s" % (mode, rep, (y, m, d), kw), inp,
                               lambda: (p + data.Duration(**kw), ((p + data.Duration(
                                   days=kw.get("days", 0), hours=kw.get("hours", 0))).add_months(
                                       kw.get("months", 0))) + data.Duration(
                                           years=kw.get("years", 0))))
                    if r is not None and (r[0] != r[1] or str(r[0]) != str(r[1])):
                        _fail(fails, "x-%s-%s-%s-%s" % (mode, rep, (y, m, d), kw), inp,
                              str(r[0]), "%s (exact part, then months, then years)" % r[1])
    data.CALENDAR.set_mode("gregorian")
    cal.set_mode("gregorian")
    return [{"name": "timepoint.months-years.vs-stepwise-oracle", "kind": "grid",
             "bound": "month ends / leap days of 4 years x 3 representations x month counts "
                      "-14..25, year counts -5..5, 4 mixed durations; %d modes"
                      % (4 if tier == "thorough" else 2),
             "evaluations": n, "exhaustive": False, "failures": fails}]


# ------------------------------------------------------------------------------ C11
def check_c11(tier, seed, repo):
    data, cal = _setup(repo)
    D = data.Duration
    fails, n = [], 0
    ds = [D(), D(days=1), D(hours=24), D(weeks=1), D(days=7), D(weeks=-2), D(minutes=90),
          D(hours=1, minutes=30), D(seconds=-5400), D(days=1, hours=-1), D(hours=23),
          D(months=1), D(days=30), D(years=1), D(months=12), D(years=1, months=-1, days=3),
          D(months=8), D(months=6), D(years=2, days=-1), D(seconds=0.5), D(weeks=3) * -1]
    for mode in MODES[:2]:
        data.CALENDAR.set_mode(mode)
        for (a, b) in itertools.product(ds, ds):
            n += 1
            inp = {"mode": mode, "a": str(a), "b": str(b)}

            def laws():
                bad = []
                if (a + b) != (b + a):
                    bad.append("a + b != b + a")
                if (a - b) != (a + b * -1):
                    bad.append("a - b != a + (-b)")
                if ((a + b) - b) != a:
                    bad.append("(a + b) - b != a")
                if (a * 2) != (a + a) or (a * 0) != D() or (a * 3) != (a + a + a):
                    bad.append("n * a is not n-fold addition")
                if (a == b) and hash(a) != hash(b):
                    bad.append("equal but different hashes")
                if a.is_exact() and b.is_exact() and (a == b) != (
                        a.get_seconds() == b.get_seconds()):
                    bad.append("exact durations not compared by length")
                lt, gt, le, ge = a < b, a > b, a <= b, a >= b
                if (lt and gt) or le != (not gt) or ge != (not lt) or (b > a) != lt:
                    bad.append("ordering operators inconsistent")
                if a.is_exact() and b.is_exact() and lt != (a.get_seconds() < b.get_seconds()):
                    bad.append("exact durations not ordered by length")
                return bad
            bad = _guard(fails, "laws-%s-%s-%s" % (mode, a, b), inp, laws)
            if bad:
                _fail(fails, "laws-%s-%s-%s" % (mode, a, b), inp, "; ".join(bad))
        for (a, b, c) in itertools.product(ds[::3], ds[1::3], ds[2::3]):
            n += 1
            r = _guard(fails, "assoc-%s-%s-%s" % (a, b, c), {"a": str(a), "b": str(b),
                                                          "c": str(c)},
                       lambda: ((a + b) + c) == (a + (b + c)))
            if r is False:
                _fail(fails, "assoc-%s-%s-%s" % (a, b, c),
                      {"a": str(a), "b": str(b), "c": str(c)}, "(a + b) + c != a + (b + c)")
    data.CALENDAR.set_mode("gregorian")
    return [{"name": "duration.algebra", "kind": "grid",
             "bound": "21 durations (week / unit forms, nominal, mixed signs, decimal): all "
                      "pairs for the commutative / inverse / multiple / equality / hash / order "
                      "laws, 343 triples for associativity; 2 modes",
             "evaluations": n, "exhaustive": False, "failures": fails}]


# ------------------------------------------------------------------------------ C16
def _snap(x):
    """Raw slots FIRST (plain attribute reads), then the observable views: if computing a
    view (str, hash, get_props) itself mutates x, the next snapshot's slots show it."""
    slots = []
    for k in getattr(type(x), "__slots__", ()):
        v = getattr(x, k, None)
        slots.append((k, _snap(v) if hasattr(type(v), "__slots__") else repr(v)))
    props = None
    if hasattr(x, "get_props"):
        try:
            props = repr(x.get_props())
        except Exception:
            props = None
    try:
        h = hash(x)
    except Exception as e:
        h = "hash raises %s" % type(e).__name__
    try:
        s = str(x)
    except Exception as e:
        s = "str raises %s" % type(e).__name__
    return (s, h, props, tuple(slots))


def check_c16(tier, seed, repo):
    data, cal = _setup(repo)
    from metomi.isodatetime.parsers import TimePointParser, TimeRecurrenceParser
    fails, n = [], 0
    TP, D, TZ = data.TimePoint, data.Duration, data.TimeZone
    P = TimePointParser(allow_truncated=True, default_to_unknown_time_zone=True)

    def points():
        return [
            TP(year=2020, month_of_year=1, day_of_month=31, hour_of_day=23, minute_of_hour=59,
               second_of_minute=59, time_zone_hour=5, time_zone_minute=30),
            TP(year=2020, day_of_year=366, hour_of_day=24, time_zone_hour=0),
            TP(year=2015, week_of_year=53, day_of_week=7, hour_of_day=12,
               minute_of_hour_decimal=0.5, minute_of_hour=30, time_zone_hour=-3,
               time_zone_minute=-30),
            TP(year=2000, month_of_year=2, day_of_month=29, hour_of_day=6),
            P.parse("T06"), P.parse("-W-3T12:30"), P.parse("2000-02")]

    ops = [
        ("p + P1D", lambda p, q: p + D(days=1)), ("p + P0D", lambda p, q: p + D(days=0)),
        ("p + zero Duration()", lambda p, q: p + D()), ("p - PT1H", lambda p, q: p - D(hours=1)),
        ("p + P1M", lambda p, q: p + D(months=1)), ("p.add_months(1)", lambda p, q: p.add_months(1)),
        ("p.add_months(0)", lambda p, q: p.add_months(0)), ("p + P1Y", lambda p, q: p + D(years=1)),
        ("p.to_utc()", lambda p, q: p.to_utc()),
        ("p.to_time_zone(+00:00)", lambda p, q: p.to_time_zone(TZ(hours=0, minutes=0))),
        ("p.to_time_zone(-09:30)", lambda p, q: p.to_time_zone(TZ(hours=-9, minutes=-30))),
        ("p.to_time_zone(p.time_zone)", lambda p, q: p.to_time_zone(p.time_zone)),
        ("p.to_calendar_date()", lambda p, q: p.to_calendar_date()),
        ("p.to_ordinal_date()", lambda p, q: p.to_ordinal_date()),
        ("p.to_week_date()", lambda p, q: p.to_week_date()),
        ("p.to_hour_minute_second()", lambda p, q: p.to_hour_minute_second()),
        ("str(p)", lambda p, q: str(p)), ("hash(p)", lambda p, q: hash(p)),
        ("p == q", lambda p, q: p == q), ("p < q", lambda p, q: p < q),
        ("p - q", lambda p, q: p - q), ("q + p", lambda p, q: q + p),
        ("p.strftime('%Y %j %H %z')", lambda p, q: p.strftime("%Y %j %H %z")),
        ("p.get_props()", lambda p, q: p.get_props()),
        ("p.seconds_since_unix_epoch", lambda p, q: p.seconds_since_unix_epoch),
    ]
    for i, _ in enumerate(points()):
        for j, _ in enumerate(points()):
            for (name, op) in ops:
                n += 1
                p, q = points()[i], points()[j]
                before = (_snap(p), _snap(q))
                try:
                    r = op(p, q)
                except Exception:
                    r = None            # refusing an operation is not a mutation
                after = (_snap(p), _snap(q))
                inp = {"operation": name, "p": before[0][0], "q": before[1][0]}
                if before != after:
                    _fail(fails, "operand-%s-%d-%d" % (name, i, j), inp,
                          "operand changed: p %s -> %s; q %s -> %s" % (
                              before[0][0], after[0][0], before[1][0], after[1][0]),
                          "operands unchanged (str, hash, get_props, every slot)")
                    continue
                # a later operation on the RESULT must not alter the operands either
                if hasattr(type(r), "__slots__") and r is not None:
                    rs = _snap(r)
                    try:
                        for (nm2, op2) in ops[:12]:
                            if isinstance(r, TP):
                                op2(r, q)
                    except Exception:
                        pass
                    if (_snap(p), _snap(q)) != before:
                        _fail(fails, "shared-%s-%d-%d" % (name, i, j), inp,
                              "an operation on the result changed an operand",
                              "no shared mutable state")
                    elif _snap(r) != rs:
                        _fail(fails, "result-%s-%d-%d" % (name, i, j), inp,
                              "an operation on the result changed the result itself",
                              "results are values too")
    # durations, zones and recurrences
    R = TimeRecurrenceParser()
    objs = lambda: [D(days=1, hours=2), D(weeks=2), D(years=1, months=2), TZ(hours=-3, minutes=-30),
                    R.parse("R5/2020-01-31T00Z/P1M"), R.parse("R/PT6H/2020-01-01T00:00+01:00"),
                    R.parse("R1/2020-02-29T12Z/P1D")]
    dops = [("x + P1D", lambda x: x + D(days=1)), ("x * 3", lambda x: x * 3),
            ("x - PT1H", lambda x: x - D(hours=1)), ("abs(x)", lambda x: abs(x)),
            ("x == x2", lambda x: x == x), ("hash(x)", lambda x: hash(x)), ("str(x)", lambda x: str(x)),
            ("to_days / to_weeks", lambda x: (x.to_days(), x.to_weeks())),
            ("iterate 3", lambda x: list(itertools.islice(iter(x), 3))),
            ("x[1]", lambda x: x[1]), ("get_is_valid", lambda x: x.get_is_valid(points()[0])),
            ("get_next(first)", lambda x: x.get_next(next(iter(x)))),
            ("get_first_after", lambda x: x.get_first_after(points()[3])),
            ("first.add_months(1)", lambda x: next(iter(x)).add_months(1)),
            ("first + P1D", lambda x: next(iter(x)) + D(days=1)),
            ("first.to_utc()", lambda x: next(iter(x)).to_utc())]
    for i, _ in enumerate(objs()):
        for (name, op) in dops:
            n += 1
            x = objs()[i]
            before = _snap(x)
            try:
                op(x)
            except Exception:
                pass
            if _snap(x) != before:
                _fail(fails, "value-%s-%d" % (name, i), {"operation": name, "x": before[0]},
                      "%s -> %s" % (before[0], _snap(x)[0]), "unchanged")
    return [{"name": "values.snapshot-immutability", "kind": "grid",
             "bound": "7 time points (3 representations, 24:00, decimal, truncated, unknown zone) "
                      "squared x 25 public operations, then 12 more operations on each result; "
                      "durations / zone / recurrences x 16 operations: str, hash, get_props and "
                      "every slot of every operand and result before and after",
             "evaluations": n, "exhaustive": False, "failures": fails}]
