"""C19 — the command line prints exactly what the library computes"""
from . import ALL_MODES, T1_CAL, CAL_LEMMAS
from . import text_bounded

ID = "C19"
LEVEL = "other"
MODES = ["gregorian"]
FUNCS = ["datetimeoper:DateTimeOperator.date_diff",
         "datetimeoper:DateTimeOperator.process_time_point_str",
         "datetimeoper:DateTimeOperator.diff_time_point_strs", ("data:TimePoint.__sub__", r"^tp:(cal-hms/cal-hms|ord-hm/week-h)$"), ("data:TimePoint._cmp", r"^lt:(cal-hms/cal-hms|ord-hm/week-h)$")]
LEMMAS = CAL_LEMMAS
CANARIES = ["canary.week52"]
EXPLANATION = ("PROVED (composition, building blocks uninterpreted): process_time_point_str = format(print format, else the notation the argument was written in; shift(...shift(parse(s), o1)..., ok)) - every offset applied by its own date_shift, one at a time, in the order given (0..3 offsets, with/without a print format); diff_time_point_strs = diff_format(diff(first shifted, second shifted), sign of the same pair), --as-total taken of that same text (4 offset-count pairs x 3 output options). PROVED: DateTimeOperator.date_diff returns (d, sign) with len(d) >= 0 and first +- d == second for every pair of points; the comparison and difference operations it uses (shifting is C01/C05). STATIC: every operator call of main() sits under a handler that catches ValueError and exits with the message (with C09: explicit raises are ValueError subclasses). EXHAUSTIVE: calendar selection = option, else environment, else gregorian, whatever mode an earlier operator left. BOUNDED (whole-program I/O through argparse and stdout is outside any contract in reach): main(argv) stdout / exit status against the library calls for date-times in 9 notations x 0..3 offsets x 5 calendar selections, pairs with --as-total, recurrences with --max, --utc/--ref/environment, and malformed arguments in every positional slot (never a traceback).")
ASSUMPTIONS = ["argparse, stdout, stdin, now, datetime fallbacks are external",
               "composition contracts: date_parse, date_shift, date_format, date_diff, "
               "date_diff_format, format_duration_str are uninterpreted functions of their "
               "arguments (what each computes: C01/C04/C05/C07/C08/C17 and the CLI grid); "
               "argument texts are distinct opaque constants; offset lists of length 0..3 "
               "(the loop is unrolled over a list of concrete length)"]
LEVEL_TEXT = "Library operations: proof; CLI plumbing: bounded grid. Hence other."
LEVEL_NOTE = "see DESIGN.md A.4 (as built) and section 5/C19 (plan)"


def custom(tier, seed, repo):
    from pyvc.source import SourceDB
    from pyvc.footprint import Analysis
    a = Analysis(SourceDB(repo))
    return [{"name": n, "ok": ok, "detail": d, "backend": "ast-footprint", "reproduced": False}
            for (n, ok, d) in a.persistent_store_obligations() + a.memo_obligations()
            if any(m in n for m in ("datetimeoper:", "main:"))]


def handler_obligations(repo):
    """main() turns every ValueError of the operator calls into a message + non-zero
    exit: each operator call of main() sits in a try whose handlers catch ValueError
    (or a base of it) and exit through sys.exit; together with C09's obligation that
    every explicit raise on the parse paths constructs a ValueError subclass."""
    import ast
    import builtins
    from pyvc.source import SourceDB
    db = SourceDB(repo)
    fi = db.funcs.get("main:main")
    out = []
    if fi is None:
        return [{"name": "main.handler-covers-ValueError", "ok": False,
                 "detail": "main:main not found", "backend": "ast-handlers", "reproduced": False}]
    covered = {}

    def catches(h):
        if h.type is None:
            return True
        names = [h.type] if not isinstance(h.type, ast.Tuple) else list(h.type.elts)
        for t in names:
            nm = ast.unparse(t).split(".")[-1]
            ci = db.class_by_name.get(nm)
            real = ci.real if ci is not None else getattr(builtins, nm, None)
            if isinstance(real, type) and issubclass(ValueError, real):
                return True
        return False

    def visit(node, ok):
        if isinstance(node, ast.Try):
            # a handler that catches ValueError and does not re-raise it (any way of
            # reporting and exiting is accepted; the exit status itself is the CLI grid's)
            inner = ok or any(catches(h) and not any(
                isinstance(n, ast.Raise) and n.exc is None for n in ast.walk(h))
                for h in node.handlers)
            for b in node.body:
                visit(b, inner)
            for part in (node.handlers, node.orelse, node.finalbody):
                for b in part:
                    visit(b, ok)
            return
        if isinstance(node, ast.Call) and isinstance(node.func, ast.Attribute) and \
                ast.unparse(node.func.value) == "date_time_oper":
            covered[(node.lineno, node.func.attr)] = ok
        for c in ast.iter_child_nodes(node):
            visit(c, ok)
    visit(fi.node, False)
    if not covered:
        out.append({"name": "main.handler-covers-ValueError", "ok": False,
                    "detail": "no operator call found in main()", "backend": "ast-handlers",
                    "reproduced": False})
    for (ln, meth), ok in sorted(covered.items()):
        out.append({"name": "main.handler-covers-ValueError[%s@%d]" % (meth, ln), "ok": ok,
                    "detail": "date_time_oper.%s(...) at main.py:%d is %sinside a try whose "
                              "handler catches ValueError without re-raising it" % (
                                  meth, ln, "" if ok else "NOT "),
                    "backend": "ast-handlers", "reproduced": False})
    return out


_memo_custom = custom


def custom(tier, seed, repo):
    return _memo_custom(tier, seed, repo) + handler_obligations(repo)


def bounded(tier, seed, repo):
    from . import C15
    return text_bounded.check_c19(tier, seed, repo) + [C15.mode_selection(repo)]
