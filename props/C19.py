"""C19 — the command line prints exactly what the library computes"""
from . import ALL_MODES, T1_CAL, CAL_LEMMAS
from . import text_bounded

ID = "C19"
LEVEL = "other"
MODES = ["gregorian"]
FUNCS = ["datetimeoper:DateTimeOperator.date_diff", ("data:TimePoint.__sub__", r"^tp:(cal-hms/cal-hms|ord-hm/week-h)$"), ("data:TimePoint._cmp", r"^lt:(cal-hms/cal-hms|ord-hm/week-h)$")]
LEMMAS = CAL_LEMMAS
CANARIES = ["canary.week52"]
EXPLANATION = ("PROVED: DateTimeOperator.date_diff returns (d, sign) with len(d) >= 0 and first +- d == second for every pair of points; the comparison and difference operations it uses (shifting is C01/C05). BOUNDED (whole-program I/O through argparse and stdout is outside any contract in reach): main(argv) stdout / exit status against the library calls for date-times in 9 notations x 0..3 offsets x 5 calendar selections, pairs with --as-total, recurrences with --max, --utc/--ref/environment, and malformed arguments in every positional slot (never a traceback).")
ASSUMPTIONS = ["argparse, stdout, stdin, now, datetime fallbacks are external"]
LEVEL_TEXT = "Library operations: proof; CLI plumbing: bounded grid. Hence other."
LEVEL_NOTE = "see DESIGN section 5/C19"


def custom(tier, seed, repo):
    from pyvc.source import SourceDB
    from pyvc.footprint import Analysis
    a = Analysis(SourceDB(repo))
    return [{"name": n, "ok": ok, "detail": d, "backend": "ast-footprint", "reproduced": False}
            for (n, ok, d) in a.persistent_store_obligations() + a.memo_obligations()
            if any(m in n for m in ("datetimeoper:", "main:"))]


def bounded(tier, seed, repo):
    return text_bounded.check_c19(tier, seed, repo)
