"""Bounded stand-ins for the recurrence properties (C12, C13, C14): the contract
claims evaluated natively on a grid of recurrences incl. NOMINAL (month/year)
intervals, for which counts and identical iteration are not consequences of the
per-function contracts (DESIGN section 5/6)."""
import itertools
import sys


def setup(repo):
    if repo not in sys.path:
        sys.path.insert(0, repo)
    import metomi.isodatetime.data as data
    from metomi.isodatetime.parsers import (TimePointParser, DurationParser,
                                            TimeRecurrenceParser)
    P = TimePointParser(assumed_time_zone=(0, 0))
    D = DurationParser()
    R = TimeRecurrenceParser(P, D)
    return data, P, D, R


ANCHORS = {
    "gregorian": ["2016-01-31T00:00:00Z", "2016-02-29T12:30:00+05:30", "2015-12-31T23:59:59Z",
                  "2016-08-01T00:59:00Z", "2020-366T06:00:00-00:30", "2020-W53-7T00:00:00Z",
                  "2019-03-31T00:00:00Z", "-0001-01-30T00:00:00Z" if False else "0000-01-30T00:00:00Z",
                  # month ends whose local day is not the UTC day (either side)
                  "2020-01-31T22:00:00-05:00", "2016-03-31T01:00:00+03:00"],
    "360day": ["2016-01-30T00:00:00Z", "2016-02-30T12:30:00+05:30", "2015-12-30T23:59:59Z",
               "2016-360T06:00:00Z", "2016-W51-1T00:00:00Z", "2016-01-30T22:00:00-05:00"],
    "365day": ["2016-01-31T00:00:00Z", "2016-02-28T12:30:00Z", "2015-365T23:59:59Z"],
    "366day": ["2016-01-31T00:00:00Z", "2016-02-29T12:30:00Z", "2015-366T23:59:59Z"],
}
EXACT = ["PT1H", "P1D", "PT36H", "P1W", "P59D", "PT0,5S"]
NOMINAL = ["P1M", "P2M", "P1Y", "P4Y", "P1M2D", "P1Y1M", "P1MT12H"]
REPS = [1, 2, 3, 5, None]


def recurrences(tier, mode, P, D, data, intervals):
    for a in ANCHORS[mode]:
        for iv in intervals:
            for n in REPS if tier == "thorough" else [1, 2, 4, None]:
                for fmt in (3, 4, 1):
                    try:
                        p = P.parse(a)
                        d = D.parse(iv)
                        if fmt == 3:
                            r = data.TimeRecurrence(repetitions=n, start_point=p, duration=d)
                        elif fmt == 4:
                            r = data.TimeRecurrence(repetitions=n, end_point=p, duration=d)
                        else:
                            if not d.is_exact():
                                continue
                            r = data.TimeRecurrence(repetitions=n, start_point=p,
                                                    end_point=p + d)
                    except Exception as e:       # construction must not fail
                        yield (a, iv, n, fmt), None, e
                        continue
                    yield (a, iv, n, fmt), (r, p, d), None


class _S:
    """str() that never raises (years outside 0000-9999 cannot be dumped)."""
    def __init__(self, x):
        self.x = x

    def __str__(self):
        try:
            return str(self.x)
        except Exception:
            return repr(getattr(self.x, "__dict__", None) or [
                (k, getattr(self.x, k, None)) for k in getattr(type(self.x), "__slots__", [])])


def take(r, k):
    return list(itertools.islice(iter(r), k))


def check_c12(tier, seed, repo):
    data, P, D, R = setup(repo)
    out = []
    for kind, intervals in (("exact", EXACT), ("nominal", NOMINAL)):
        fails, n = [], 0
        for mode in ("gregorian", "360day", "365day", "366day"):
            data.CALENDAR.set_mode(mode)
            for key, val, err in recurrences(tier, mode, P, D, data, intervals):
                n += 1
                bad = None
                if err is not None:
                    bad = "constructor raised %s: %s" % (type(err).__name__, err)
                else:
                    r, p, d = val
                    a, iv, reps, fmt = key
                    pts = take(r, (reps or 6) + 2)
                    if reps is not None and len(pts) != reps:
                        bad = "yields %d points, not %d" % (len(pts), reps)
                    elif any(not (x < y) for x, y in zip(pts, pts[1:])) and (
                            fmt != 4 or reps is not None):
                        bad = "not strictly increasing"
                    elif fmt == 4 and reps is None and any(
                            not (x > y) for x, y in zip(pts, pts[1:])):
                        bad = "not strictly decreasing (unbounded duration/end)"
                    elif fmt in (3, 1) and pts and pts[0] != p:
                        bad = "first point %s is not the start" % _S(pts[0])
                    elif fmt == 4 and reps is not None and pts and pts[-1] != p:
                        bad = "last point %s is not the given end %s" % (_S(pts[-1]), _S(p))
                    elif fmt == 4 and reps is None and pts and pts[0] != p:
                        bad = "first point is not the given end"
                    else:
                        step = d if (fmt != 4 or reps is not None) else d * -1
                        for x, y in zip(pts, pts[1:]):
                            if reps != 1 and (x + step) != y:
                                bad = "%s is not %s + interval" % (_S(y), _S(x))
                                break
                if bad and len(fails) < 400:
                    fails.append({"id": "%s|%s" % (mode, key), "input": {
                        "mode": mode, "anchor": key[0], "interval": key[1],
                        "repetitions": key[2], "notation": key[3], "kind": kind},
                        "observed": bad})
        data.CALENDAR.set_mode("gregorian")
        out.append({"name": "recurrence.iteration." + kind, "kind": "grid",
                    "bound": "anchors at month ends / leap days / day 366 / week 53 x %d %s "
                             "intervals x repetitions %s x 3 notations x 4 modes" % (
                                 len(intervals), kind, REPS),
                    "evaluations": n, "exhaustive": False, "failures": fails})
    return out


def check_c13(tier, seed, repo):
    data, P, D, R = setup(repo)
    out = []
    for kind, intervals in (("exact", EXACT), ("nominal", NOMINAL)):
        fails, n = [], 0
        for mode in ("gregorian", "360day"):
            data.CALENDAR.set_mode(mode)
            for key, val, err in recurrences(tier, mode, P, D, data, intervals):
                if err is not None:
                    continue
                r, p, d = val
                a, iv, reps, fmt = key
                pts = take(r, (reps or 5))
                bad = None
                n += 1
                tz = data.TimeZone(hours=-3, minutes=-30)
                for i, x in enumerate(pts):
                    try:
                        ri = r[i]
                    except Exception as e:
                        ri, bad = None, "r[%d] raised %s: %s" % (i, type(e).__name__, e)
                    if ri is not None and ri != x:
                        bad = "r[%d] = %s, the %d-th iterated point is %s" % (i, _S(ri), i, _S(x))
                    if not r.get_is_valid(x) or not r.get_is_valid(x.to_time_zone(tz)) or \
                            not r.get_is_valid(x.to_ordinal_date()):
                        bad = "member %s not valid" % _S(x)
                    off = x + data.Duration(seconds=1)
                    if off not in take(r, (reps or 5) + 8) and r.get_is_valid(off):
                        bad = "non-member %s reported valid" % _S(off)
                fwd = r.start_point is not None
                for i, x in enumerate(pts):
                    nxt = r.get_next(x) if fwd else r.get_prev(x)
                    want = pts[i + 1] if i + 1 < len(pts) else (
                        None if reps is not None else "any")
                    if want != "any" and nxt != want and not (
                            reps is not None and i + 1 == len(pts) and nxt is None):
                        bad = "neighbour of member %d is %s, not %s" % (i, _S(nxt), _S(want))
                if r.start_point is not None and d.is_exact():
                    probes = [pts[0] - data.Duration(days=400)] + pts + \
                        [x + data.Duration(seconds=1) for x in pts]
                    allpts = take(r, (reps or 5) + 3)
                    for q in probes:
                        got = r.get_first_after(q)
                        later = [x for x in allpts if x > q]
                        want = later[0] if later else None
                        if reps is None and not later:
                            continue
                        if got != want:
                            bad = "get_first_after(%s) = %s, not %s" % (_S(q), _S(got), _S(want))
                if bad and len(fails) < 400:
                    fails.append({"id": "%s|%s" % (mode, key), "input": {
                        "mode": mode, "anchor": a, "interval": iv, "repetitions": reps,
                        "notation": fmt, "kind": kind}, "observed": bad})
        data.CALENDAR.set_mode("gregorian")
        out.append({"name": "recurrence.queries." + kind, "kind": "grid",
                    "bound": "as recurrence.iteration, 2 modes; probes: members, members in "
                             "other zones/representations, +1 s, long before",
                    "evaluations": n, "exhaustive": False, "failures": fails})
    return out


def check_c14(tier, seed, repo):
    data, P, D, R = setup(repo)
    fails, n = [], 0
    shifts = ["PT1S", "P1D", "-P3D", "P1W", "PT36H"]
    for mode in ("gregorian", "360day"):
        data.CALENDAR.set_mode(mode)
        for kind, intervals in (("exact", EXACT), ("nominal", NOMINAL[:4])):
            for key, val, err in recurrences(tier, mode, P, D, data, intervals):
                if err is not None:
                    continue
                r, p, d = val
                a, iv, reps, fmt = key
                bad = None
                n += 1
                for sh in shifts:
                    s = D.parse(sh)
                    q = r + s
                    if (s + r) != q:
                        bad = "d + r != r + d"
                    if q.repetitions != r.repetitions:
                        bad = "repetitions changed by shift"
                    if kind == "exact":
                        if take(q, 4) != [x + s for x in take(r, 4)]:
                            bad = "points of r + %s are not the points of r moved" % sh
                        if (q - s) != r or hash(q - s) != hash(r):
                            bad = "(r + %s) - %s != r" % (sh, sh)
                # a nominal and an exact interval that reach the same last point still
                # denote different recurrences ("differ in ... interval => unequal")
                if kind == "nominal" and reps is not None and reps >= 2 and fmt == 3:
                    try:
                        span = (r.end_point - r.start_point).get_seconds()
                        if span > 0 and span % (reps - 1) == 0:
                            twin = data.TimeRecurrence(
                                repetitions=reps, start_point=r.start_point,
                                duration=data.Duration(seconds=span // (reps - 1)))
                            if twin.end_point == r.end_point and (twin == r or r == twin):
                                bad = "equal to the exact-interval recurrence %s" % _S(twin)
                    except Exception as e:
                        bad = "twin construction raised %s: %s" % (type(e).__name__, e)
                try:
                    back = R.parse(str(r))
                    if back != r or hash(back) != hash(r) or take(back, 4) != take(r, 4):
                        bad = "parse(str(r)) != r for %s" % str(r)
                except Exception as e:
                    bad = "parse(str(r)) raised %s for %s" % (type(e).__name__, str(r))
                if bad and len(fails) < 400:
                    fails.append({"id": "%s|%s" % (mode, key), "input": {
                        "mode": mode, "anchor": a, "interval": iv, "repetitions": reps,
                        "notation": fmt, "kind": kind}, "observed": bad})
    data.CALENDAR.set_mode("gregorian")
    return [{"name": "recurrence.values", "kind": "grid",
             "bound": "as recurrence.iteration (2 modes) x 5 shifts; text round trip",
             "evaluations": n, "exhaustive": False, "failures": fails}]
