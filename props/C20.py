"""C20 — adding a truncated time point finds the next matching date-time."""
import signal
import sys
from . import ALL_MODES, T1_CAL, TICK, REZONE, CAL_LEMMAS

ID = "C20"
LEVEL = "other"
MODES = ALL_MODES
FUNCS = ["data:TimePoint.add_truncated", ("data:TimePoint.__add__", r"^trunc:|exact-whole$"),
         "ghost:truncated_commutes_and_idempotent", "data:TimePoint.to_time_zone",
         ("data:TimePoint.__init__", r"^trunc"),
         ] + TICK + T1_CAL
LEMMAS = CAL_LEMMAS + ["day.floor", "day.floor.int"]
CANARIES = ["canary.week52"]


def _quick_at(name):
    shape, spec = name.split(":")
    if shape.endswith("-24"):
        # p in the 24:00 form: quick keeps four of the twelve cases, one per target family
        return (shape, spec) in (("cal-hms-24", "hh"), ("cal-hms-24", "dom"),
                                 ("week-hms-24", "mm"), ("ord-hms-24", "dow"))
    if spec in ("dow+hh", "ww-dow-late"):
        return False                      # thorough tier (the quick tier keeps dom+hh, ww-dow)
    return shape in ("cal-hms",) or (shape, spec) in (
        ("ord-hm", "mm"), ("week-h", "hh"), ("ord-hms", "dom"), ("week-hms", "doy"),
        ("ord-hms", "dow"), ("week-hms", "hhmmss"))


QUICK_FILTER = {"data:TimePoint.add_truncated": _quick_at}
EXPLANATION = (
    "PROVED (loop invariants + variants over _tick_over's contract, whole-second points, "
    "all shapes/offsets/years/modes): add_truncated for time-of-day targets (T--ss, T-mm, "
    "Thh, Thhmm(ss), T-mmss) returns the earliest date-time >= p with the specified fields "
    "equal, lower fields zero, by the closed form (target - field) mod 60/60/24 - so the "
    "shift is < 60 s / 1 h / 1 day and therefore minimal; for weekday, day-of-month and "
    "day-of-year targets the result is the first later day with that field (minimality by "
    "a universally quantified ghost date), time of day unchanged, termination by variant "
    "for targets present in every month/year; week plus weekday targets (weeks 1..SUM//7, which every year has): the first later day of that ISO week and weekday (minimality by a ghost week-year and week), termination by variant; COMBINED designators hour + day-of-month and hour + weekday: the hour is matched first, then the day, and no earlier date-time >= p has both (ghost date over both loops). TimePoint.__add__ with a truncated operand: "
    "fields are matched in t's own offset when it has one (else p's), result in p's "
    "offset; either operand order gives the same result and applying t again is the "
    "identity (ghost program). Targets that do not exist in every period (day 29-31, "
    "day 366, week 52/53): PARTIAL correctness proved with the same invariants (valid result, fields as "
    "asked, earliest) - cases *:dom-late, *:doy-late, *:ww-dow-late, variants not generated. "
    "p in the 24:00 end-of-day form (cases *-24:*, possible since the repair 7cabc45 "
    "normalises it first): hour, minute, weekday and day-of-month targets, same clauses with "
    "'not earlier than p' read on the instant (next-day 00:00). BOUNDED: "
    "termination for the sometimes-absent targets (time limit), and a brute-force ORACLE grid "
    "(add_truncated.vs-search-oracle: 22 truncated points x start points incl. 24:00 x t "
    "with/without its own UTC offset, earliest match computed by exhaustive search straight "
    "from the property statement) - which is also what reports the recorded finding KF-C20-2 "
    "(day designator + minute/second-only time designator: a match, but not the earliest).")
ASSUMPTIONS = [
    "termination for sometimes-absent targets is not a generated obligation (bounded)",
    "p is a whole-second point whose last time field is integral; 24:00 p: the *-24 cases "
    "(hour / minute / weekday / day-of-month targets) and the oracle grid"]
LEVEL_TEXT = ("Proof for the stated time-of-day and single day-designator shapes incl. "
              "minimality and termination where the target always exists; bounded native "
              "runs for the rest: 'other'.")
LEVEL_NOTE = "Floats as reals; sometimes-absent targets and combined designators bounded."


class _Hang(Exception):
    pass


def _alarm(*a):
    raise _Hang()


def bounded(tier, seed, repo):
    if repo not in sys.path:
        sys.path.insert(0, repo)
    import metomi.isodatetime.data as data
    from metomi.isodatetime.data import TimePoint
    import spec.cal as cal
    fails, n = [], 0
    signal.signal(signal.SIGALRM, _alarm)
    starts = [(2003, 1, 31, 12, 0, 0), (2004, 2, 28, 23, 59, 59), (1999, 12, 31, 0, 0, 1),
              (2020, 12, 28, 6, 30, 0), (-1, 3, 1, 0, 0, 0), (2019, 2, 10, 7, 45, 20),
              (1900, 2, 1, 0, 0, 0), (2024, 1, 30, 18, 0, 0), (2023, 1, 30, 18, 0, 0)]
    for mode in ALL_MODES:
        data.CALENDAR.set_mode(mode)
        cal.set_mode(mode)
        targets = []
        for dom in (28, 29, 30, 31):
            if dom <= cal.MAXDIM:
                targets.append(("day_of_month", {"day_of_month": dom}))
        for doy in (cal.SUM, cal.SUML):
            targets.append(("day_of_year", {"day_of_year": doy}))
        for w in (52, 53):
            if w <= cal.MAXW:
                targets.append(("week", {"week_of_year": w, "day_of_week": 3}))
            else:
                # a week no week year of this calendar has: refused at construction (it used to
                # be accepted and the search for it never ended: fixed in 635706a)
                n += 1
                try:
                    TimePoint(truncated=True, week_of_year=w, day_of_week=3)
                    fails.append({"id": "accepts-%s-week-%d" % (mode, w),
                                  "input": {"mode": mode, "t": {"week_of_year": w, "day_of_week": 3}},
                                  "observed": "accepted", "expected": "BadInputError"})
                except ValueError:
                    pass
        targets.append(("dom+time", {"day_of_month": 15, "hour_of_day": 6}))
        targets.append(("dow+time", {"day_of_week": 1, "minute_of_hour": 30}))
        for (kind, kw) in targets:
            hung = False
            for (y, m, d, hh, mi, ss) in starts:
                if hung:
                    break           # one non-terminating start per target is enough
                if d > cal.dim(y, m):
                    d = cal.dim(y, m)
                n += 1
                p = TimePoint(year=y, month_of_year=m, day_of_month=d, hour_of_day=hh,
                              minute_of_hour=mi, second_of_minute=ss)
                t = TimePoint(truncated=True, **kw)
                signal.alarm(10)
                try:
                    r = t + p
                    ok = r >= p and all(getattr(r, k) == v for k, v in kw.items())
                    # a real day of a real month / year / week, in r's own representation
                    if r.get_is_calendar_date():
                        ok = ok and cal.valid_cal(r._year, r._month_of_year, r._day_of_month)
                    elif r.get_is_ordinal_date():
                        ok = ok and cal.valid_ord(r._year, r._day_of_year)
                    else:
                        ok = ok and cal.valid_week(r._year, r._week_of_year, r._day_of_week)
                    r2 = t + r
                    ok = ok and r2 == r and (p + t) == r
                    # minimality against the spec: no earlier matching day
                    if ok and "hour_of_day" not in kw and "minute_of_hour" not in kw:
                        a0 = cal.cal_abs(*p.get_calendar_date())
                        a1 = cal.cal_abs(*r.get_calendar_date())
                        for a in range(a0, a1):
                            q = p + data.Duration(days=a - a0)
                            if all(getattr(q, k) == v for k, v in kw.items()):
                                ok = False
                    if not ok and len(fails) < 5:
                        fails.append({"id": "%s-%s-%s" % (mode, kind, (y, m, d)),
                                      "input": {"mode": mode, "t": kw, "p": str(p)},
                                      "observed": str(r)})
                except _Hang:
                    hung = True
                    if len([f for f in fails if f["id"].startswith("hang-" + mode + kind)]) < 1:
                        fails.append({"id": "hang-%s%s-%s" % (mode, kind, sorted(kw.items())),
                                      "input": {"mode": mode, "t": kw, "p": str(p)},
                                      "observed": "no result within 10 s (does not terminate)"})
                finally:
                    signal.alarm(0)
    data.CALENDAR.set_mode("gregorian")
    cal.set_mode("gregorian")
    return [oracle_grid(tier, seed, repo), {
             "name": "add_truncated.sometimes-absent-and-combined", "kind": "grid",
             "bound": "4 modes x day 28..31 / last day of common and leap year / week 52, 53 / "
                      "two combined time+day designators x 9 start points (month ends, leap and common Februaries); 10 s limit",
             "evaluations": n, "exhaustive": False, "failures": fails}]


def _oracle(cal, L0, sod_p, kw, horizon=1500):
    """Earliest local second >= L0 whose date-time matches the truncated fields `kw`
    (fields below the smallest specified time field zero; no time field: time of day kept).
    Brute force over days x candidate times of day, straight from the property statement."""
    h, mi, sc = kw.get("hour_of_day"), kw.get("minute_of_hour"), kw.get("second_of_minute")
    if h is None and mi is None and sc is None:
        sods = [sod_p]
    else:
        hs = [h] if h is not None else range(24)
        ms = [mi] if mi is not None else ([0] if h is not None else range(60))
        ss = [sc] if sc is not None else [0]
        sods = sorted(3600 * a + 60 * b + c for a in hs for b in ms for c in ss)
    a0 = L0 // 86400
    for a in range(a0, a0 + horizon):
        # `a` is a proleptic day number as spec.cal counts them: absday(y, n) = dby(y) + n
        y = a // 366
        while cal.dby(y + 1) < a:
            y += 1
        while cal.dby(y) >= a:
            y -= 1
        n = a - cal.dby(y)
        m, d = cal.md_of(y, n)
        wy, w, wd = cal.week_of(y, a)
        if kw.get("day_of_month") not in (None, d) or kw.get("day_of_year") not in (None, n) \
                or kw.get("day_of_week") not in (None, wd) \
                or kw.get("week_of_year") not in (None, w):
            continue
        for sd in sods:
            if 86400 * a + sd >= L0:
                return 86400 * a + sd
    return None


def oracle_grid(tier, seed, repo):
    """t + p against a brute-force reading of the property: every designator family, p in
    hh:mm:ss and 24:00 forms, t with and without its own UTC offset, both operand orders,
    idempotence."""
    import random
    if repo not in sys.path:
        sys.path.insert(0, repo)
    import metomi.isodatetime.data as data
    from metomi.isodatetime.data import TimePoint
    import spec.cal as cal
    rnd = random.Random(seed)
    fails, n = [], 0
    signal.signal(signal.SIGALRM, _alarm)
    ts = [{"hour_of_day": 6}, {"hour_of_day": 0}, {"minute_of_hour": 30},
          {"second_of_minute": 15}, {"hour_of_day": 17, "minute_of_hour": 45},
          {"minute_of_hour": 30, "second_of_minute": 15},
          {"hour_of_day": 6, "minute_of_hour": 30, "second_of_minute": 15},
          {"day_of_month": 15}, {"day_of_month": 1}, {"day_of_year": 60}, {"day_of_week": 1},
          {"day_of_week": 7}, {"week_of_year": 1, "day_of_week": 1},
          {"week_of_year": 20, "day_of_week": 5},
          {"day_of_month": 15, "hour_of_day": 6}, {"day_of_month": 28, "hour_of_day": 0},
          {"day_of_week": 1, "hour_of_day": 6, "minute_of_hour": 30},
          {"day_of_year": 100, "hour_of_day": 23},
          {"week_of_year": 10, "day_of_week": 3, "hour_of_day": 12},
          # a day designator with a time designator that leaves the hour open
          {"day_of_month": 28, "minute_of_hour": 30}, {"day_of_week": 3, "minute_of_hour": 0},
          {"day_of_year": 1, "second_of_minute": 15}]
    starts = [(2021, 1, 15, 0, 30, 1), (2021, 1, 15, 7, 0, 0), (2020, 2, 28, 23, 59, 59),
              (2019, 12, 31, 24, 0, 0), (2020, 1, 14, 24, 0, 0), (2021, 1, 28, 6, 30, 15),
              (2020, 12, 31, 6, 0, 0), (2021, 5, 17, 17, 45, 0), (2021, 3, 1, 0, 0, 0),
              (2020, 2, 29, 12, 0, 1), (2021, 1, 4, 6, 30, 0)]
    tzs = [None, (5, 30), (-8, 0)]
    modes = ALL_MODES if tier == "thorough" else ["gregorian", "360day"]
    for mode in modes:
        data.CALENDAR.set_mode(mode)
        cal.set_mode(mode)
        for kw in ts:
            for (y, m, d, hh, mi, ss) in (starts if tier == "thorough"
                                          else rnd.sample(starts, 6)):
                if d > cal.dim(y, m):
                    d = cal.dim(y, m)
                for tz in (tzs if tier == "thorough" else [None, rnd.choice(tzs[1:])]):
                    n += 1
                    p = TimePoint(year=y, month_of_year=m, day_of_month=d, hour_of_day=hh,
                                  minute_of_hour=mi, second_of_minute=ss)
                    tkw = dict(kw)
                    off = 0
                    if tz is not None:
                        tkw.update(time_zone_hour=tz[0], time_zone_minute=tz[1])
                        off = 3600 * tz[0] + 60 * tz[1]
                    inp = {"mode": mode, "t": kw, "t_zone": tz, "p": str(p)}
                    signal.alarm(10)
                    try:
                        t = TimePoint(truncated=True, **tkw)
                        inst_p = 86400 * cal.cal_abs(y, m, d) + 3600 * hh + 60 * mi + ss
                        L0 = inst_p + off
                        want = _oracle(cal, L0, L0 % 86400, kw)
                        r = t + p
                        got = 86400 * cal.cal_abs(*r.get_calendar_date()) + \
                            r.get_second_of_day()
                        ok = (want is not None and got == want - off
                              and r.time_zone == p.time_zone and (p + t) == r
                              and (t + r) == r and r >= p)
                        if not ok and len(fails) < 60:
                            fails.append({"id": "%s-%d" % (mode, n), "input": inp,
                                          "observed": str(r),
                                          "expected": "instant %s (seconds from 0000-01-01, "
                                                      "UTC), p's offset, same in both operand "
                                                      "orders, unchanged when t is applied "
                                                      "again" % (None if want is None
                                                                 else want - off)})
                    except _Hang:
                        fails.append({"id": "hang-%s-%d" % (mode, n), "input": inp,
                                      "observed": "no result within 10 s"})
                    except Exception as e:
                        if len(fails) < 60:
                            fails.append({"id": "exc-%s-%d" % (mode, n), "input": inp,
                                          "observed": "%s: %s" % (type(e).__name__,
                                                                  str(e)[:100])})
                    finally:
                        signal.alarm(0)
    data.CALENDAR.set_mode("gregorian")
    cal.set_mode("gregorian")
    return {"name": "add_truncated.vs-search-oracle", "kind": "grid",
            "bound": "22 truncated points (time-only, day-only, week+weekday, combined) x %s "
                     "start points incl. 24:00, exact matches and 23:59:59 x t without / with "
                     "its own UTC offset x %d modes; brute-force earliest match as oracle; "
                     "10 s limit" % ("11" if tier == "thorough" else "6 of 11", len(modes)),
            "evaluations": n, "exhaustive": False, "failures": fails}
