"""C20 — adding a truncated time point finds the next matching date-time."""
import signal
import sys
from . import ALL_MODES, T1_CAL, TICK, REZONE, CAL_LEMMAS

ID = "C20"
LEVEL = "other"
MODES = ALL_MODES
FUNCS = ["data:TimePoint.add_truncated", ("data:TimePoint.__add__", r"^trunc:|exact-whole$"),
         "ghost:truncated_commutes_and_idempotent", "data:TimePoint.to_time_zone",
         ("data:TimePoint.__init__", r"^trunc"),
         ] + TICK + T1_CAL
LEMMAS = CAL_LEMMAS + ["day.floor", "day.floor.int"]
CANARIES = ["canary.week52"]


def _quick_at(name):
    shape, spec = name.split(":")
    if spec in ("dow+hh", "ww-dow-late"):
        return False                      # thorough tier (the quick tier keeps dom+hh, ww-dow)
    return shape in ("cal-hms",) or (shape, spec) in (
        ("ord-hm", "mm"), ("week-h", "hh"), ("ord-hms", "dom"), ("week-hms", "doy"),
        ("ord-hms", "dow"), ("week-hms", "hhmmss"))


QUICK_FILTER = {"data:TimePoint.add_truncated": _quick_at}
EXPLANATION = (
    "PROVED (loop invariants + variants over _tick_over's contract, whole-second points, "
    "all shapes/offsets/years/modes): add_truncated for time-of-day targets (T--ss, T-mm, "
    "Thh, Thhmm(ss), T-mmss) returns the earliest date-time >= p with the specified fields "
    "equal, lower fields zero, by the closed form (target - field) mod 60/60/24 - so the "
    "shift is < 60 s / 1 h / 1 day and therefore minimal; for weekday, day-of-month and "
    "day-of-year targets the result is the first later day with that field (minimality by "
    "a universally quantified ghost date), time of day unchanged, termination by variant "
    "for targets present in every month/year; week plus weekday targets (weeks 1..SUM//7, which every year has): the first later day of that ISO week and weekday (minimality by a ghost week-year and week), termination by variant; COMBINED designators hour + day-of-month and hour + weekday: the hour is matched first, then the day, and no earlier date-time >= p has both (ghost date over both loops). TimePoint.__add__ with a truncated operand: "
    "fields are matched in t's own offset when it has one (else p's), result in p's "
    "offset; either operand order gives the same result and applying t again is the "
    "identity (ghost program). Targets that do not exist in every period (day 29-31, "
    "day 366, week 52/53): PARTIAL correctness proved with the same invariants (valid result, fields as "
    "asked, earliest) - cases *:dom-late, *:doy-late, *:ww-dow-late, variants not generated. BOUNDED: "
    "termination for those targets and the other combined time+day "
    "designators: native runs with a time limit.")
ASSUMPTIONS = [
    "termination for sometimes-absent targets is not a generated obligation (bounded)",
    "p is a whole-second point whose last time field is integral; 24:00 excluded"]
LEVEL_TEXT = ("Proof for the stated time-of-day and single day-designator shapes incl. "
              "minimality and termination where the target always exists; bounded native "
              "runs for the rest: 'other'.")
LEVEL_NOTE = "Floats as reals; sometimes-absent targets and combined designators bounded."


class _Hang(Exception):
    pass


def _alarm(*a):
    raise _Hang()


def bounded(tier, seed, repo):
    if repo not in sys.path:
        sys.path.insert(0, repo)
    import metomi.isodatetime.data as data
    from metomi.isodatetime.data import TimePoint
    import spec.cal as cal
    fails, n = [], 0
    signal.signal(signal.SIGALRM, _alarm)
    starts = [(2003, 1, 31, 12, 0, 0), (2004, 2, 28, 23, 59, 59), (1999, 12, 31, 0, 0, 1),
              (2020, 12, 28, 6, 30, 0), (-1, 3, 1, 0, 0, 0), (2019, 2, 10, 7, 45, 20),
              (1900, 2, 1, 0, 0, 0), (2024, 1, 30, 18, 0, 0), (2023, 1, 30, 18, 0, 0)]
    for mode in ALL_MODES:
        data.CALENDAR.set_mode(mode)
        cal.set_mode(mode)
        targets = []
        for dom in (28, 29, 30, 31):
            if dom <= cal.MAXDIM:
                targets.append(("day_of_month", {"day_of_month": dom}))
        for doy in (cal.SUM, cal.SUML):
            targets.append(("day_of_year", {"day_of_year": doy}))
        for w in (52, 53):
            if w <= cal.MAXW:
                targets.append(("week", {"week_of_year": w, "day_of_week": 3}))
            else:
                # a week no week year of this calendar has: refused at construction (it used to
                # be accepted and the search for it never ended: fixed in 635706a)
                n += 1
                try:
                    TimePoint(truncated=True, week_of_year=w, day_of_week=3)
                    fails.append({"id": "accepts-%s-week-%d" % (mode, w),
                                  "input": {"mode": mode, "t": {"week_of_year": w, "day_of_week": 3}},
                                  "observed": "accepted", "expected": "BadInputError"})
                except ValueError:
                    pass
        targets.append(("dom+time", {"day_of_month": 15, "hour_of_day": 6}))
        targets.append(("dow+time", {"day_of_week": 1, "minute_of_hour": 30}))
        for (kind, kw) in targets:
            hung = False
            for (y, m, d, hh, mi, ss) in starts:
                if hung:
                    break           # one non-terminating start per target is enough
                if d > cal.dim(y, m):
                    d = cal.dim(y, m)
                n += 1
                p = TimePoint(year=y, month_of_year=m, day_of_month=d, hour_of_day=hh,
                              minute_of_hour=mi, second_of_minute=ss)
                t = TimePoint(truncated=True, **kw)
                signal.alarm(10)
                try:
                    r = t + p
                    ok = r >= p and all(getattr(r, k) == v for k, v in kw.items())
                    # a real day of a real month / year / week, in r's own representation
                    if r.get_is_calendar_date():
                        ok = ok and cal.valid_cal(r._year, r._month_of_year, r._day_of_month)
                    elif r.get_is_ordinal_date():
                        ok = ok and cal.valid_ord(r._year, r._day_of_year)
                    else:
                        ok = ok and cal.valid_week(r._year, r._week_of_year, r._day_of_week)
                    r2 = t + r
                    ok = ok and r2 == r and (p + t) == r
                    # minimality against the spec: no earlier matching day
                    if ok and "hour_of_day" not in kw and "minute_of_hour" not in kw:
                        a0 = cal.cal_abs(*p.get_calendar_date())
                        a1 = cal.cal_abs(*r.get_calendar_date())
                        for a in range(a0, a1):
                            q = p + data.Duration(days=a - a0)
                            if all(getattr(q, k) == v for k, v in kw.items()):
                                ok = False
                    if not ok and len(fails) < 5:
                        fails.append({"id": "%s-%s-%s" % (mode, kind, (y, m, d)),
                                      "input": {"mode": mode, "t": kw, "p": str(p)},
                                      "observed": str(r)})
                except _Hang:
                    hung = True
                    if len([f for f in fails if f["id"].startswith("hang-" + mode + kind)]) < 1:
                        fails.append({"id": "hang-%s%s-%s" % (mode, kind, sorted(kw.items())),
                                      "input": {"mode": mode, "t": kw, "p": str(p)},
                                      "observed": "no result within 10 s (does not terminate)"})
                finally:
                    signal.alarm(0)
    data.CALENDAR.set_mode("gregorian")
    cal.set_mode("gregorian")
    return [{"name": "add_truncated.sometimes-absent-and-combined", "kind": "grid",
             "bound": "4 modes x day 28..31 / last day of common and leap year / week 52, 53 / "
                      "two combined time+day designators x 9 start points (month ends, leap and common Februaries); 10 s limit",
             "evaluations": n, "exhaustive": False, "failures": fails}]
