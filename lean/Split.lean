import Mathlib.Data.List.Basic

/-- Splitting at a delimiter that does not occur before it is unique:
if `f ++ c :: r = x ++ c :: r'`, `c ∉ f` and `c ∉ x`, then `f = x` and `r = r'`. -/
theorem split_unique_first {α : Type} (c : α) :
    ∀ (f x r r' : List α), c ∉ f → c ∉ x → f ++ c :: r = x ++ c :: r' → f = x ∧ r = r'
  | [], [], r, r', _, _, h => by
      simp at h; exact ⟨rfl, h⟩
  | [], b :: x, r, r', _, hx, h => by
      simp at h
      exact absurd (by rw [h.1]; exact List.mem_cons_self) hx
  | a :: f, [], r, r', hf, _, h => by
      simp at h
      exact absurd (by rw [← h.1]; exact List.mem_cons_self) hf
  | a :: f, b :: x, r, r', hf, hx, h => by
      simp at h
      obtain ⟨hab, ht⟩ := h
      have hf' : c ∉ f := fun m => hf (List.mem_cons_of_mem _ m)
      have hx' : c ∉ x := fun m => hx (List.mem_cons_of_mem _ m)
      obtain ⟨h1, h2⟩ := split_unique_first c f x r r' hf' hx' ht
      exact ⟨by rw [hab, h1], h2⟩

/-- Second form: the delimiter occurs nowhere after its designated position
(`c ∉ r`) and not in the designated field (`c ∉ f`): any other split `x ++ c :: r'`
of the same string has `x = f`, even if the pattern's group could contain `c`. -/
theorem split_unique_last {α : Type} (c : α) :
    ∀ (f x r r' : List α), c ∉ f → c ∉ r → f ++ c :: r = x ++ c :: r' → f = x ∧ r = r'
  | [], [], r, r', _, _, h => by
      simp at h; exact ⟨rfl, h⟩
  | [], b :: x, r, r', _, hr, h => by
      -- c :: r = b :: (x ++ c :: r') : then r = x ++ c :: r' contains c
      simp at h
      exact absurd (by rw [h.2]; simp) hr
  | a :: f, [], r, r', hf, _, h => by
      simp at h
      exact absurd (by rw [← h.1]; exact List.mem_cons_self) hf
  | a :: f, b :: x, r, r', hf, hr, h => by
      simp at h
      obtain ⟨hab, ht⟩ := h
      have hf' : c ∉ f := fun m => hf (List.mem_cons_of_mem _ m)
      obtain ⟨h1, h2⟩ := split_unique_last c f x r r' hf' hr ht
      exact ⟨by rw [hab, h1], h2⟩

/-- Fixed-width groups split by position. -/
theorem split_fixed {α : Type} (f x r r' : List α) (h : f.length = x.length)
    (e : f ++ r = x ++ r') : f = x ∧ r = r' :=
  List.append_inj e h

/-- One step of the split lemma as `pyvc/textlex.py` uses it: after a common prefix `p`
(the literals and groups already shown equal), the form continues `f ++ c :: r` and a
match continues `x ++ c :: r'`; with `c ∉ f` and (`c ∉ x` or `c ∉ r`) the group captured
exactly the field and the remainders agree. -/
theorem split_step {α : Type} (c : α) (p f x r r' : List α)
    (hf : c ∉ f) (h : c ∉ x ∨ c ∉ r)
    (e : p ++ (f ++ c :: r) = p ++ (x ++ c :: r')) : f = x ∧ r = r' := by
  have e' := List.append_cancel_left e
  cases h with
  | inl hx => exact split_unique_first c f x r r' hf hx e'
  | inr hr => exact split_unique_last c f x r r' hf hr e'
