"""CPython cross-check of the symbolic executor (engine soundness evidence).

For a function and shape case: execute the REAL body symbolically (as verify does),
then for each exit path pick a model of its path condition, build the same inputs
natively (replay.build on the recipe + model), run the real function under CPython
and compare what it returns / raises / leaves in `self` with the engine's symbolic
result evaluated under that model.  A disagreement means the executor (or an assumed
callee contract) misrepresents the code: it is a CHECKER problem, never a property
violation.  Only functions whose callees are inlined or have functional contracts
and that have no havocked loops are eligible (otherwise the model may legitimately
pick another admissible callee result)."""
import copy
import os
import random
import sys
import z3

VERIF = os.path.dirname(os.path.dirname(os.path.abspath(__file__)))
if VERIF not in sys.path:
    sys.path.insert(0, VERIF)


def eligible(contract):
    for sp in (contract.loops or {}).values():
        if getattr(sp, "invariant", None):
            return False
    if getattr(contract, "abstract_calls", None):
        return False        # callees replaced by uninterpreted stand-ins: nothing to run natively
    return not contract.regions


def _num(v):
    if z3.is_int_value(v):
        return v.as_long()
    if z3.is_rational_value(v):
        f = v.as_fraction()
        return float(f) if f.denominator != 1 else float(int(f))
    if z3.is_true(v):
        return True
    if z3.is_false(v):
        return False
    if z3.is_algebraic_value(v):
        return float(v.approx(20).as_fraction())
    raise ValueError("not a value: %s" % v)


class Eval:
    def __init__(self, E, st, model):
        self.E, self.st, self.m = E, st, model

    def val(self, v):
        from pyvc.values import Ref, IntStr, is_z3, ExcVal
        from pyvc.strings import Text, DigitField, DecStr, FmtResult
        if v is None or isinstance(v, (bool, int, float, str)):
            return v
        if is_z3(v):
            return _num(self.m.eval(v, model_completion=True))
        if isinstance(v, tuple):
            return tuple(self.val(x) for x in v)
        if isinstance(v, FmtResult):
            v = v._view(self.E, self.st)
            return self.val(v)
        if isinstance(v, (Text, IntStr, DigitField, DecStr)):
            out = ""
            for p in Text.of(v).pieces:
                if isinstance(p, str):
                    out += p
                elif isinstance(p, IntStr):
                    out += str(int(self.val(p.term)))
                elif isinstance(p, DigitField):
                    out += "%0*d" % (p.width, int(self.val(p.var)))
                else:
                    raise ValueError("decimal piece")
            return out
        if isinstance(v, Ref):
            h = self.st.obj(v)
            if h.kind == "obj":
                return ("obj", h.cls.name, {k: self.val(x) for k, x in h.slots.items()})
            if h.kind == "list":
                return [self.val(x) for x in h.items]
            return {k: self.val(x) for k, x in h.d.items()}
        raise ValueError("cannot evaluate %r" % type(v).__name__)


def _close(a, b):
    if isinstance(a, bool) or isinstance(b, bool):
        return a == b
    if isinstance(a, (int, float)) and isinstance(b, (int, float)):
        return abs(a - b) <= 1e-6 * max(1.0, abs(a), abs(b))
    return a == b


def same(sym, nat, path="result"):
    """compare an evaluated engine value with a native value; returns list of diffs"""
    if isinstance(sym, tuple) and len(sym) == 3 and sym[0] == "obj":
        if type(nat).__name__ != sym[1] and sym[1] not in [k.__name__ for k in type(nat).__mro__]:
            return ["%s: engine %s, native %s" % (path, sym[1], type(nat).__name__)]
        out = []
        for k, v in sym[2].items():
            if k in ("_dump_format", "_truncated_dump_format") or not hasattr(nat, k):
                continue
            out += same(v, getattr(nat, k), path + "." + k)
        return out
    if isinstance(sym, (tuple, list)) and isinstance(nat, (tuple, list)):
        if len(sym) != len(nat):
            return ["%s: lengths %d / %d" % (path, len(sym), len(nat))]
        out = []
        for i, (a, b) in enumerate(zip(sym, nat)):
            out += same(a, b, "%s[%d]" % (path, i))
        return out
    if isinstance(sym, dict) and isinstance(nat, dict):
        out = []
        for k in set(sym) | set(nat):
            if k not in sym or k not in nat:
                out.append("%s[%r]: only on one side" % (path, k))
            else:
                out += same(sym[k], nat[k], "%s[%r]" % (path, k))
        return out
    if _close(sym, nat):
        return []
    return ["%s: engine %r, native %r" % (path, sym, nat)]


def crosscheck(E, key, case, mode, per_case=3, seed=0):
    """-> (compared, disagreements[list of str], skipped_reason or None)"""
    import replay as R
    from pyvc.values import OutOfReach, ContractBindingError, Ref
    c = E.contracts[key]
    if not eligible(c):
        return 0, [], "havocked loops / regions"
    E.no_opaque = True
    try:
        try:
            E.verify(key, case)
        except (OutOfReach, ContractBindingError) as ex:
            return 0, [], "out of reach: %s" % str(ex)[:80]
    finally:
        E.no_opaque = False
    for k2 in E.stats.get("contracts_used", ()):
        c2 = E.contracts.get(k2)
        if c2 is not None and (c2.returns is None or c2.havoc is not None or c2.result is not None):
            return 0, [], "uses the non-functional contract of %s" % k2
    mods = R.load(E.db.repo)
    mods["data"].CALENDAR.set_mode(mode)
    rnd = random.Random(seed)
    exits = list(E.last_exits)
    rnd.shuffle(exits)
    n, bad = 0, []
    for (en, s, sig, v) in exits:
        if n >= per_case:
            break
        sol = z3.Solver()
        sol.set("timeout", 5000)
        sol.add(*s.pc)
        # prefer small, varied inputs
        if sol.check() != z3.sat:
            continue
        m = sol.model()
        model = {}
        if any(d.name().startswith("p:time.") or d.name().startswith("sym:") for d in m.decls()):
            return n, bad, "depends on the system clock / zone (symbolic module state)"
        for d in m.decls():
            if d.arity() == 0 and d.name().startswith("p:"):
                try:
                    model[d.name()] = str(_num(m[d]))
                except ValueError:
                    pass
        try:
            args = {k: R.build(r, model, mods) for k, r in E.param_recipe.items()}
        except Exception as ex:
            return n, bad, "cannot build native inputs: %s" % str(ex)[:80]
        fn = R.resolve(mods, key)
        pre = copy.deepcopy(args)
        exc, res = None, None
        try:
            res = fn(**args)
        except Exception as ex:
            exc = ex
        n += 1
        ev = Eval(E, s, m)
        def _sh(x):
            try:
                return R._show(x)
            except Exception:
                return "<%s>" % type(x).__name__
        tag = "%s[%s] %s inputs %s" % (key, case.name, mode, {k: _sh(x) for k, x in pre.items()})
        try:
            if sig == "raise":
                if exc is None or v.cls_name not in [k.__name__ for k in type(exc).__mro__]:
                    bad.append("%s: engine raises %s, CPython %s" % (
                        tag, v.cls_name, "returns %r" % (_sh(res),) if exc is None
                        else "raises " + type(exc).__name__))
                continue
            if exc is not None:
                bad.append("%s: engine returns, CPython raises %s: %s" % (
                    tag, type(exc).__name__, exc))
                continue
            diffs = same(ev.val(v), res)
            if c.modifies_self and isinstance(en.get("self"), Ref):
                diffs += same(ev.val(en["self"]), args["self"], "self")
            for d_ in diffs:
                bad.append("%s: %s" % (tag, d_))
        except ValueError as ex:
            n -= 1      # result not comparable (opaque / decimal text)
    return n, bad, None


if __name__ == "__main__":
    from pyvc.run import get_engine
    import contracts
    reg = contracts.load_all()
    keys = sys.argv[1].split(",")
    modes = sys.argv[2].split(",") if len(sys.argv) > 2 else ["gregorian"]
    tot, allbad = 0, []
    for mode in modes:
        for key in keys:
            for case in reg[key].cases:
                E = get_engine(mode)
                n, bad, skip = crosscheck(E, key, case, mode)
                tot += n
                allbad += bad
                if skip or bad:
                    print(key, case.name, mode, n, skip or "", *bad[:3], sep="\n   ")
    print("compared", tot, "disagreements", len(allbad))
