"""Regex matching of the REAL compiled patterns against a piecewise text
(strings.Text): which alternative of the pattern Python's backtracking matcher
takes for EVERY string of the text's form, and what each named group captures.

The decision is a lemma about regular languages whose hypotheses are discharged
with z3's RegLan theory on the real pattern's own parse tree:

  the pattern must be  ^ item* $  with items: literal characters, named groups,
  and optional non-capturing groups `(?: ... )?` of such items (anything else is
  Unsupported -> the caller is out of reach, never a verdict).

  Its ALTERNATIVES are the linear patterns obtained by choosing present/absent
  for every optional group, in the matcher's priority order (`?` is greedy:
  present first, depth first).  For a form F = p0 p1 ... (concrete pieces and
  number pieces) we prove
   (1) every alternative of higher priority than A is disjoint from L(F)
       (no string of the form can match it);
   (2) A aligns with F: its literals are F's concrete pieces, each group g_i
       faces one number piece f_i, and L(f_i) <= L(g_i)  (so every string of
       the form matches A with the intended split);
   (3) the split is unique: with c the first character of the literal that
       follows g_i, c does not occur in L(f_i), and c occurs either nowhere in
       L(g_i) or nowhere in the rest of the form after that literal.
  SPLIT LEMMA (argued here, used for (3)): let w = l0 f1 l1 f2 ... = l0 x1 l1 x2 ...
  with x_i in L(g_i).  By induction on i, x_i = f_i: both start at the same
  offset; if x_i were shorter, l_i would begin inside f_i, so its first
  character c occurs in f_i; if longer, x_i contains the c that ends f_i (so c
  occurs in L(g_i)) and l_i must occur again later, so c occurs in the rest of
  w.  (3) excludes both.  Hence whatever order the matcher explores splits in
  (greedy or lazy), alternative A succeeds with exactly the groups g_i = f_i,
  and by (1) no earlier alternative succeeds: that is the match Python returns.
"""
import re
import z3
from . import relang
from .relang import sre_parse, C, Unsupported
from .values import IntStr
from .strings import DecStr, Text

DIGITS = z3.Plus(z3.Range("0", "9"))
ANY = z3.Star(z3.AllChar(relang.RS))


def _lit(s):
    return z3.Re(z3.StringVal(s))


def _concat(parts):
    parts = list(parts)
    if not parts:
        return _lit("")
    return parts[0] if len(parts) == 1 else z3.Concat(*parts)


def _items(tree, names):
    out = []
    for (op, av) in tree:
        if op is C.AT:
            continue
        if op is C.LITERAL:
            out.append(("lit", chr(av)))
        elif op is C.SUBPATTERN:
            gid, _a, _b, sub = av
            if gid is None:
                out.extend(_items(sub, names))
            else:
                if gid not in names:
                    raise Unsupported("unnamed capture group")
                out.append(("group", names[gid], relang._seq(list(sub))))
        elif op is C.MAX_REPEAT and av[0] == 0 and av[1] == 1:
            out.append(("opt", _items(av[2], names)))
        else:
            raise Unsupported("top-level regex item %s" % (op,))
    return out


def _alternatives(items):
    """linear patterns in the matcher's priority order"""
    if not items:
        yield []
        return
    head, rest = items[0], items[1:]
    if head[0] == "opt":
        for a in _alternatives(head[1] + rest):
            yield a
        for a in _alternatives(rest):
            yield a
    else:
        for a in _alternatives(rest):
            yield [head] + a


def _piece_lang(p):
    if isinstance(p, str):
        return _lit(p)
    if isinstance(p, IntStr):
        return DIGITS
    if isinstance(p, DecStr):
        return z3.Concat(DIGITS, _lit(p.mark), DIGITS)
    raise Unsupported("piece %r" % (p,))


def _has_char(lang, c):
    """True / False / None: does some string of lang contain character c"""
    dj, _ = relang.disjoint(lang, z3.Concat(ANY, _lit(c), ANY))
    return None if dj is None else (not dj)


_cache = {}


def analyse(rx, shape):
    """shape: tuple of pieces as ('s', text) | ('i',) | ('d', mark).  Returns
    (verdict, groups, obligations): verdict 'match' (groups: name -> piece index
    or None), 'nomatch' (no string of the form matches), or 'undecided'."""
    key = (rx.pattern, rx.flags, shape)
    if key in _cache:
        return _cache[key]
    obs = []

    def ob(name, ok, detail):
        obs.append((name, ok, detail))
        return ok
    res = ("undecided", None, obs)
    try:
        if not relang.anchored(rx):
            raise Unsupported("pattern is not anchored at both ends")
        tree = sre_parse.parse(rx.pattern, rx.flags)
        names = {v: k for k, v in tree.state.groupdict.items()}
        items = _items(list(tree), names)
        langs = [_lit(p[1]) if p[0] == "s" else DIGITS if p[0] == "i" else
                 z3.Concat(DIGITS, _lit(p[1]), DIGITS) for p in shape]
        LF = _concat(langs)
        all_names = sorted(names.values())
        verdict = "nomatch"
        for ai, alt in enumerate(_alternatives(items)):
            LA = _concat(_lit(x[1]) if x[0] == "lit" else x[2] for x in alt)
            dj, wit = relang.disjoint(LA, LF)
            if dj is None:
                ob("alt[%d].decided" % ai, None, "regular-language query undecided")
                verdict = "undecided"
                break
            if dj:
                continue            # (1): no string of the form matches this alternative
            # candidate alternative A: align with the form
            seq = []                # merged: ('lit', text) / ('group', name, lang)
            for x in alt:
                if x[0] == "lit" and seq and seq[-1][0] == "lit":
                    seq[-1] = ("lit", seq[-1][1] + x[1])
                else:
                    seq.append(x)
            ok = len(seq) == len(shape)
            groups = {}
            if ok:
                for i, (x, p) in enumerate(zip(seq, shape)):
                    if x[0] == "lit":
                        ok = ok and p[0] == "s" and p[1] == x[1]
                    else:
                        ok = ok and p[0] in ("i", "d")
                        groups[x[1]] = i
            if not ob("alt[%d].aligns-with-form" % ai, ok,
                      "first alternative that some string of the form matches is %s; "
                      "form %s (e.g. %r)" % (
                          [x[1] for x in seq], [p[1] if p[0] == "s" else "<%s>" % p[0]
                                                for p in shape], wit)):
                verdict = "undecided"
                break
            good = True
            for i, (x, p) in enumerate(zip(seq, shape)):
                if x[0] != "group":
                    continue
                inc, w = relang.included(langs[i], x[2])
                good = ob("alt[%d].group[%s].covers-piece" % (ai, x[1]), inc,
                          "a piece text the group does not accept: %r" % (w,)) and good
                if i + 1 < len(seq):
                    c = seq[i + 1][1][0]
                    in_piece = _has_char(langs[i], c)
                    in_group = _has_char(x[2], c)
                    rest = _concat(langs[i + 2:]) if i + 2 < len(seq) else _lit("")
                    tail_lit = seq[i + 1][1][1:]
                    in_rest = _has_char(z3.Concat(_lit(tail_lit), rest) if tail_lit else rest, c)
                    uniq = (in_piece is False) and (in_group is False or in_rest is False)
                    good = ob("alt[%d].group[%s].split-unique" % (ai, x[1]),
                              None if None in (in_piece, in_group, in_rest) and not uniq else uniq,
                              "delimiter %r: occurs in the piece: %s, in the group's language: %s, "
                              "later in the form: %s" % (c, in_piece, in_group, in_rest)) and good
            if good:
                verdict = "match"
                res_groups = {n: groups.get(n) for n in all_names}
                res = ("match", res_groups, obs)
            else:
                verdict = "undecided"
            break
        if verdict == "nomatch":
            ob("no-alternative-matches", True, "every alternative is disjoint from the form")
            res = ("nomatch", None, obs)
        elif verdict == "undecided":
            res = ("undecided", None, obs)
    except Unsupported as e:
        obs.append(("supported", None, "pattern outside the supported subset: %s" % e))
        res = ("undecided", None, obs)
    _cache[key] = res
    return res


def shape_of(text):
    out = []
    for p in (text.pieces if isinstance(text, Text) else [text]):
        if isinstance(p, str):
            out.append(("s", p))
        elif isinstance(p, IntStr):
            out.append(("i",))
        elif isinstance(p, DecStr):
            out.append(("d", p.mark))
        else:
            raise Unsupported("piece %r" % (p,))
    return tuple(out)


class MatchModel:
    """What re.Match offers the library code: groupdict() / group(name)."""

    def __init__(self, groups):
        self.groups = groups

    def pyvc_truth(self, E, st):
        return [(st, True)]

    def pyvc_attr(self, E, name, st):
        from .strings import _Method
        if name == "groupdict":
            def gd(E, args, kws, st, node):
                r = st.alloc("dict")
                st.obj(r).d = dict(self.groups)
                return [(st, r)]
            return [(st, _Method(gd))]
        if name == "group":
            def g(E, args, kws, st, node):
                return [(st, self.groups[args[0]])]
            return [(st, _Method(g))]
        from .values import OutOfReach
        raise OutOfReach("attribute %s of a match" % name)
