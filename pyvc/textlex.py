"""Regex matching of the REAL compiled patterns against a piecewise text
(strings.Text): which alternative of the pattern Python's backtracking matcher
takes for EVERY string of the text's form, and what each named group captures.

The decision is a lemma about regular languages whose hypotheses are discharged
with z3's RegLan theory on the real pattern's own parse tree:

  the pattern must be  ^ item* $  with items: literal characters, named groups,
  and optional non-capturing groups `(?: ... )?` of such items (anything else is
  Unsupported -> the caller is out of reach, never a verdict).

  Its ALTERNATIVES are the linear patterns obtained by choosing present/absent
  for every optional group, in the matcher's priority order (`?` is greedy:
  present first, depth first).  For a form F = p0 p1 ... (concrete pieces and
  number pieces) we prove
   (1) every alternative of higher priority than A is disjoint from L(F)
       (no string of the form can match it);
   (2) A aligns with F: its literals are F's concrete pieces, each group g_i
       faces one number piece f_i, and L(f_i) <= L(g_i)  (so every string of
       the form matches A with the intended split);
   (3) the split is unique: with c the first character of the literal that
       follows g_i, c does not occur in L(f_i), and c occurs either nowhere in
       L(g_i) or nowhere in the rest of the form after that literal.
  SPLIT LEMMA (argued here and machine-checked in lean/Split.lean: split_unique_first,
  split_unique_last, split_fixed, split_step; used for (3)): let w = l0 f1 l1 f2 ... = l0 x1 l1 x2 ...
  with x_i in L(g_i).  By induction on i, x_i = f_i: both start at the same
  offset; if x_i were shorter, l_i would begin inside f_i, so its first
  character c occurs in f_i; if longer, x_i contains the c that ends f_i (so c
  occurs in L(g_i)) and l_i must occur again later, so c occurs in the rest of
  w.  (3) excludes both.  Hence whatever order the matcher explores splits in
  (greedy or lazy), alternative A succeeds with exactly the groups g_i = f_i,
  and by (1) no earlier alternative succeeds: that is the match Python returns.
"""
import re
import z3
from . import relang
from .relang import sre_parse, C, Unsupported
from .values import IntStr
from .strings import DecStr, Text, DigitField

DIGITS = z3.Plus(z3.Range("0", "9"))
ANY = z3.Star(z3.AllChar(relang.RS))


def _lit(s):
    return z3.Re(z3.StringVal(s))


def _concat(parts):
    parts = list(parts)
    if not parts:
        return _lit("")
    return parts[0] if len(parts) == 1 else z3.Concat(*parts)


def _items(tree, names):
    out = []
    for (op, av) in tree:
        if op is C.AT:
            continue
        if op is C.LITERAL:
            out.append(("lit", chr(av)))
        elif op is C.SUBPATTERN:
            gid, _a, _b, sub = av
            if gid is None:
                out.extend(_items(sub, names))
            else:
                if gid not in names:
                    raise Unsupported("unnamed capture group")
                out.append(("group", names[gid], relang._seq(list(sub))))
        elif op is C.MAX_REPEAT and av[0] == 0 and av[1] == 1:
            out.append(("opt", _items(av[2], names)))
        else:
            raise Unsupported("top-level regex item %s" % (op,))
    return out


def _alternatives(items):
    """linear patterns in the matcher's priority order"""
    if not items:
        yield []
        return
    head, rest = items[0], items[1:]
    if head[0] == "opt":
        for a in _alternatives(head[1] + rest):
            yield a
        for a in _alternatives(rest):
            yield a
    else:
        for a in _alternatives(rest):
            yield [head] + a


def _piece_lang(p):
    if isinstance(p, str):
        return _lit(p)
    if isinstance(p, IntStr):
        return DIGITS
    if isinstance(p, DecStr):
        return z3.Concat(DIGITS, _lit(p.mark), DIGITS)
    raise Unsupported("piece %r" % (p,))


def _has_char(lang, c):
    """True / False / None: does some string of lang contain character c"""
    dj, _ = relang.disjoint(lang, z3.Concat(ANY, _lit(c), ANY))
    return None if dj is None else (not dj)


_cache = {}
_cells = {}


def _group_width(sub):
    try:
        lo, hi = sub.getwidth()
    except Exception:
        return None
    return lo if lo == hi else None


def _items_w(tree, names):
    """like _items, groups carry their fixed width (or None)"""
    out = []
    for (op, av) in tree:
        if op is C.AT:
            continue
        if op is C.LITERAL:
            out.append(("lit", chr(av)))
        elif op is C.SUBPATTERN:
            gid, _a, _b, sub = av
            if gid is None:
                out.extend(_items_w(sub, names))
            else:
                if gid not in names:
                    raise Unsupported("unnamed capture group")
                out.append(("group", names[gid], relang._seq(list(sub)), _group_width(sub)))
        elif op is C.MAX_REPEAT and av[0] == 0 and av[1] == 1:
            out.append(("opt", _items_w(av[2], names)))
        else:
            raise Unsupported("top-level regex item %s" % (op,))
    return out


def _shape_lang(p):
    if p[0] == "s":
        return _lit(p[1])
    if p[0] == "i":
        return DIGITS
    if p[0] == "f":
        return z3.Loop(z3.Range("0", "9"), p[1], p[1])
    return z3.Concat(DIGITS, _lit(p[1]), DIGITS)


def analyse(rx, shape):
    """shape: tuple of pieces ('s', text) | ('i',) int spelling | ('f', width) digit
    field | ('d', mark) decimal.  Returns (verdict, groups, obligations): verdict
    'match' (groups: name -> ('piece', index) | ('str', text) | None), 'nomatch'
    (no string of the form matches), or 'undecided'."""
    key = (rx.pattern, rx.flags, shape)
    if key in _cache:
        return _cache[key]
    obs = []

    def ob(name, ok, detail):
        obs.append((name, ok, detail))
        return ok
    res = ("undecided", None, obs)
    try:
        if not relang.anchored(rx):
            raise Unsupported("pattern is not anchored at both ends")
        tree = sre_parse.parse(rx.pattern, rx.flags)
        names = {v: k for k, v in tree.state.groupdict.items()}
        items = _items_w(list(tree), names)
        langs = [_shape_lang(p) for p in shape]
        LF = _concat(langs)
        all_names = sorted(names.values())
        # cells of the form: one per concrete character, one per symbolic piece
        cells = []
        for pi, p in enumerate(shape):
            if p[0] == "s":
                cells += [("c", ch, pi) for ch in p[1]]
            else:
                cells.append(("p", p, pi))
        verdict = "nomatch"
        for ai, alt in enumerate(_alternatives(items)):
            LA = _concat(_lit(x[1]) if x[0] == "lit" else x[2] for x in alt)
            dj, wit = relang.disjoint(LA, LF)
            if dj is None:
                ob("alt[%d].decided" % ai, None, "regular-language query undecided")
                verdict = "undecided"
                break
            if dj:
                continue            # (1): no string of the form matches this alternative
            # candidate alternative A: align its items with the cells of the form
            k, ok, groups, checks, off = 0, True, {}, [], 0
            for xi, x in enumerate(alt):
                if k >= len(cells):
                    ok = False
                    break
                if x[0] == "lit":
                    ok = off == 0 and cells[k][0] == "c" and cells[k][1] == x[1]
                    k += 1
                elif x[3] is None and off == 0 and not (
                        cells[k][0] == "p" and (xi + 1 == len(alt) and k + 1 == len(cells))):
                    # a variable-width group: it takes the cells up to the delimiter that
                    # follows it in the pattern (or all the rest when it is the last item)
                    nxt = alt[xi + 1] if xi + 1 < len(alt) else None
                    if nxt is None:
                        end = len(cells)
                    elif nxt[0] != "lit":
                        ok = False
                        break
                    else:
                        c = nxt[1]
                        end = None
                        for j in range(k, len(cells)):
                            if cells[j][0] == "c" and cells[j][1] == c:
                                end = j
                                break
                        # symbolic pieces spell digits, a sign or a decimal mark only
                        if end is None or c.isdigit() or (c in ",.-" and any(
                                cc[0] == "p" and cc[1][0] != "f" for cc in cells[k:end])):
                            ok = False
                            break
                    if end == k:
                        ok = False
                        break
                    span = _concat(_lit(cc[1]) if cc[0] == "c" else _shape_lang(cc[1])
                                   for cc in cells[k:end])
                    inc, w_ = relang.included(span, x[2])
                    good_span = inc is True
                    if nxt is not None:
                        in_group = _has_char(x[2], c)
                        rest = _concat(_lit(cc[1]) if cc[0] == "c" else _shape_lang(cc[1])
                                       for cc in cells[end + 1:])
                        in_rest = _has_char(rest, c)
                        good_span = good_span and (in_group is False or in_rest is False)
                    if not good_span:
                        ok = False
                        break
                    if end - k == 1 and cells[k][0] == "p":
                        groups[x[1]] = ("piece", cells[k][2])
                    else:
                        groups[x[1]] = ("span", k, end)
                    k = end
                elif cells[k][0] == "p":
                    # a group facing a symbolic piece
                    p = cells[k][1]
                    fixed_piece = p[1] if p[0] == "f" else None
                    if x[3] is not None and fixed_piece is not None and \
                            x[3] <= fixed_piece - off and (off > 0 or x[3] < fixed_piece):
                        # a fixed-width group takes the next x[3] digits of a wider field
                        groups[x[1]] = ("sub", cells[k][2], off, x[3])
                        inc, _w = relang.included(z3.Loop(z3.Range("0", "9"), x[3], x[3]), x[2])
                        ok = inc is True
                        off += x[3]
                        if off == fixed_piece:
                            off = 0
                            k += 1
                        if not ok:
                            break
                        continue
                    if off > 0 or (x[3] is not None and fixed_piece != x[3]):
                        ok = False
                    else:
                        groups[x[1]] = ("piece", cells[k][2])
                        nxt = alt[xi + 1] if xi + 1 < len(alt) else None
                        checks.append((x, cells[k][2], nxt, k))
                    k += 1
                else:
                    # a fixed-width group facing concrete characters
                    w = x[3]
                    if w is None or k + w > len(cells) or \
                            any(c[0] != "c" for c in cells[k:k + w]):
                        ok = False
                    else:
                        txt = "".join(c[1] for c in cells[k:k + w])
                        inc, _w = relang.included(_lit(txt), x[2])
                        ok = inc is True
                        groups[x[1]] = ("str", txt)
                        k += w
                if not ok:
                    break
            ok = ok and k == len(cells) and off == 0
            if not ob("alt[%d].aligns-with-form" % ai, ok,
                      "first alternative that some string of the form matches is %s; "
                      "form %s (e.g. %r)" % (
                          [x[1] for x in alt], [p[1] if p[0] == "s" else "<%s>" % (p,)
                                                for p in shape], wit)):
                verdict = "undecided"
                break
            good = True
            for (x, pi, nxt, k) in checks:
                inc, w = relang.included(langs[pi], x[2])
                good = ob("alt[%d].group[%s].covers-piece" % (ai, x[1]), inc,
                          "a piece text the group does not accept: %r" % (w,)) and good
                if x[3] is not None:
                    continue        # fixed width on both sides: the split is by position
                if nxt is None:
                    continue        # last item: the group takes the rest
                if nxt[0] != "lit":
                    good = ob("alt[%d].group[%s].split-unique" % (ai, x[1]), None,
                              "a variable-width group followed by another group") and good
                    continue
                c = nxt[1]
                in_piece = _has_char(langs[pi], c)
                in_group = _has_char(x[2], c)
                # rest of the form after the delimiter
                rest_cells = cells[k + 2:]
                rest = _concat(_lit(cc[1]) if cc[0] == "c" else _shape_lang(cc[1])
                               for cc in rest_cells)
                in_rest = _has_char(rest, c)
                uniq = (in_piece is False) and (in_group is False or in_rest is False)
                good = ob("alt[%d].group[%s].split-unique" % (ai, x[1]),
                          None if None in (in_piece, in_group, in_rest) and not uniq else uniq,
                          "delimiter %r: occurs in the piece: %s, in the group's language: %s, "
                          "later in the form: %s" % (c, in_piece, in_group, in_rest)) and good
            if good:
                verdict = "match"
                res = ("match", {n: groups.get(n) for n in all_names}, obs)
                _cells[key] = cells
            else:
                verdict = "undecided"
            break
        if verdict == "nomatch":
            ob("no-alternative-matches", True, "every alternative is disjoint from the form")
            res = ("nomatch", None, obs)
        elif verdict == "undecided":
            res = ("undecided", None, obs)
    except Unsupported as e:
        obs.append(("supported", None, "pattern outside the supported subset: %s" % e))
        res = ("undecided", None, obs)
    _cache[key] = res
    return res


def shape_of(text):
    out = []
    for p in (text.pieces if isinstance(text, Text) else [text]):
        if isinstance(p, str):
            out.append(("s", p))
        elif isinstance(p, IntStr):
            out.append(("i",))
        elif isinstance(p, DecStr):
            out.append(("d", p.mark))
        elif isinstance(p, DigitField):
            out.append(("f", p.width))
        else:
            raise Unsupported("piece %r" % (p,))
    return tuple(out)


class MatchModel:
    """What re.Match offers the library code: groupdict() / group(name)."""

    def __init__(self, groups):
        self.groups = groups

    def pyvc_truth(self, E, st):
        return [(st, True)]

    def pyvc_attr(self, E, name, st):
        from .strings import _Method
        if name == "groupdict":
            def gd(E, args, kws, st, node):
                r = st.alloc("dict")
                st.obj(r).d = dict(self.groups)
                return [(st, r)]
            return [(st, _Method(gd))]
        if name == "group":
            def g(E, args, kws, st, node):
                return [(st, self.groups[args[0]])]
            return [(st, _Method(g))]
        from .values import OutOfReach
        raise OutOfReach("attribute %s of a match" % name)


# ---------------------------------------------------------------- substitution
# rx.sub(repl, text) on a piecewise text.  BLINDNESS LEMMA: if the pattern is built
# only from literal ASCII non-digit characters, positive character classes of such
# characters, alternation, groups, repeats, anchors and look-arounds over the same
# (no '.', no negated class / NOT_LITERAL, no category escape such as \d \w \s and
# their negations), then no construct of the pattern can consume or be satisfied by
# a character outside that alphabet; matching is therefore the same on any two
# strings that agree on the alphabet characters and have out-of-alphabet characters
# in the same places.  We replace every symbolic (digits-only) piece by private-use
# placeholder characters, run the REAL rx.sub, and cut the result at the
# placeholders.  The replacement must be a plain string (no group references).
def _blind(tree):
    for (op, av) in tree:
        if op is C.LITERAL:
            if av > 127 or chr(av).isdigit():
                return False
        elif op is C.IN:
            for (o2, a2) in av:
                if o2 is C.LITERAL:
                    if a2 > 127 or chr(a2).isdigit():
                        return False
                elif o2 is C.RANGE:
                    if a2[1] > 127 or any(chr(c).isdigit() for c in range(a2[0], a2[1] + 1)):
                        return False
                else:
                    return False
        elif op is C.SUBPATTERN:
            if not _blind(av[3]):
                return False
        elif op is C.BRANCH:
            if not all(_blind(b) for b in av[1]):
                return False
        elif op in (C.MAX_REPEAT, C.MIN_REPEAT):
            if not _blind(av[2]):
                return False
        elif op is C.AT:
            if av not in (C.AT_BEGINNING, C.AT_END, C.AT_BEGINNING_STRING, C.AT_END_STRING):
                return False
        elif op in (C.ASSERT, C.ASSERT_NOT):
            if not _blind(av[1]):
                return False
        else:
            return False
    return True


def text_sub(rx, repl, text):
    """-> Text, or raises Unsupported"""
    if not isinstance(repl, str) or "\\" in repl:
        raise Unsupported("replacement with group references")
    if not _blind(sre_parse.parse(rx.pattern, rx.flags)):
        raise Unsupported("pattern %r is not digit-blind" % rx.pattern)
    sym, s = [], ""
    for p in text.pieces:
        if isinstance(p, str):
            if any(0xE000 <= ord(c) <= 0xF8FF for c in p):
                raise Unsupported("private-use character in the text")
            s += p
        else:
            if isinstance(p, DecStr):
                raise Unsupported("substitution over a decimal piece")
            s += chr(0xE000 + len(sym))
            sym.append(p)
    out = rx.sub(repl, s)
    pieces, cur = [], ""
    seen = []
    for c in out:
        if 0xE000 <= ord(c) <= 0xF8FF:
            pieces.append(cur)
            cur = ""
            pieces.append(sym[ord(c) - 0xE000])
            seen.append(ord(c) - 0xE000)
        else:
            cur += c
    pieces.append(cur)
    if seen != list(range(len(sym))):
        raise Unsupported("substitution moved or dropped a symbolic piece")
    return Text(pieces)
