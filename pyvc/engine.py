"""PyVC engine: contracts, obligations, verification driver."""
import ast
import importlib
import os
import sys
import time
import z3

from .values import *   # noqa
from .state import State
from .source import SourceDB, FuncInfo
from .expr import ExprMixin
from .calls import CallMixin
from .stmts import StmtMixin

VERIF = os.path.dirname(os.path.dirname(os.path.abspath(__file__)))


class LoopSpec:
    def __init__(self, invariant=None, decreases=None, join=None, index=None,
                 shapes=None, havoc=None, peel=False):
        if isinstance(invariant, str):
            invariant = [invariant]
        self.invariant = invariant or []
        self.decreases = decreases
        self.join = join
        self.index = index
        self.shapes = shapes          # name -> example value giving the head shape
        self.havoc = havoc            # extra havoc callable(E, st, env, tag)
        self.peel = peel              # while: first iteration executed from the
        #                               entry state (entry shape differs from head shape)


class Case:
    """A shape case for verifying a function: build(E, st) -> env of params."""

    def __init__(self, name, build, requires=None, ensures=None, raises=None,
                 assume_false_ok=False, fresh_result=None, expect_no_exit=False,
                 witness=None, partial=False):
        self.name = name
        self.build = build
        self.requires = requires or []
        self.ensures = ensures
        self.raises = raises
        self.fresh_result = fresh_result
        self.expect_no_exit = expect_no_exit
        self.witness = witness or {}      # hints for the precondition-satisfiable check
        self.partial = partial            # partial correctness only: loop variants not generated


class Contract:
    def __init__(self, key, requires=None, ensures=None, returns=None,
                 raises=None, result=None, havoc=None, modifies_self=False,
                 mod_slots=None, loops=None, cases=None, inline=False,
                 use_at_calls=True, applicable=None, inline_fallback=False,
                 recursive_ok=False, fresh_result=False, may_raise_other=False,
                 opaque=None, merge=True, cuts=None, ghosts=None, ghost_init=None,
                 on_yield=None, check_frames=True, regions=None, inline_calls=None,
                 abstract_calls=None, note=""):
        self.key = key
        # regions: [{"name", "when" (clause over the pre-state), "ensures": [...]}]: inside a
        # region the function is specified by the region's ensures INSTEAD of the general
        # ones (used where the general clauses are known not to hold: a recorded finding);
        # callers get  not when => general  and  when => region clauses
        self.regions = list(regions or [])
        # callees executed from their real bodies instead of through their contracts while
        # this function / ghost program is verified (needed where the callee's contract does
        # not speak about the argument shape at hand)
        self.inline_calls = set(inline_calls or [])
        # methods of the same class that are replaced, while THIS function is verified, by
        # their uninterpreted stand-ins "<module>:<Class>.abstract.<name>" (a `returns`
        # term built from the arguments): used to verify how operations are composed
        self.abstract_calls = set(abstract_calls or [])
        self.requires = _lst(requires)
        self.ensures = _lst(ensures)
        self.returns = returns
        self.raises = list(raises or [])     # [(ExcName, cond_text)]
        self.result = result
        self.havoc = havoc
        self.modifies_self = modifies_self
        self.mod_slots = mod_slots
        self.loops = {k: (v if isinstance(v, LoopSpec) else LoopSpec(**v))
                      for k, v in (loops or {}).items()}
        self.cases = cases or []
        self.inline = inline
        self.use_at_calls = use_at_calls and not inline
        self.applicable = applicable
        self.inline_fallback = inline_fallback
        self.recursive_ok = recursive_ok
        self.fresh_result = fresh_result
        self.opaque = list(opaque or [])
        self.merge = merge
        self.ghosts = dict(ghosts or {})    # free (universally quantified) constants
        self.ghost_init = ghost_init        # callable(E, st, env): ghost variables
        self.on_yield = on_yield            # callable(E, st, env, value) at each yield
        self.check_frames = check_frames
        self.cuts = list(cuts or [])   # [(source-prefix, [assertion texts])]
        self.note = note


def _lst(x):
    if x is None:
        return []
    if isinstance(x, str):
        return [x]
    return list(x)


class VC:
    __slots__ = ("name", "pc", "goal", "kind", "func", "case", "line",
                 "lemmas", "defs")

    def __init__(self, name, pc, goal, kind, func, case):
        self.name, self.pc, self.goal, self.kind = name, pc, goal, kind
        self.func, self.case = func, case
        self.lemmas, self.defs = [], []


class Engine(ExprMixin, CallMixin, StmtMixin):

    def __init__(self, mode="gregorian", contracts=None, repo=None):
        self.db = SourceDB(repo)
        self.mode = mode
        self.contracts = contracts if contracts is not None else {}
        self.transparent = set()
        self.inline_all = False
        self.merge = True
        self.max_paths = 400
        self.check_frames = True
        self.model_calendar = False
        self.allowed_global_stores = set()
        self.sym_globals = {}
        self.global_writes = []
        self.on_yield = None
        self.ghost_consts = {}
        self.extra_builtins = {}
        self.exit_locals = None
        self.opaque = {}
        self.aliases = {}
        self.sym_modattrs = {}
        self._parse_cache = {}
        self.vcs = []
        self.fresh_n = 0
        self.lex_log = []
        self.reset_stats()
        self.pending = []
        self.old_stack = []
        self.entry_stack = []
        self.depth = 0
        self.cur_func = None
        self.cur_name = "?"
        self.cur_case = None
        self.cur_contract = None
        self.cur_self = None
        self.frame_func = None
        # the real singleton, in the mode under analysis (real set_mode runs)
        self.db.real["data"].CALENDAR.set_mode(mode)
        self.load_spec()

    def reset_stats(self):
        self.stats = {"feasibility_queries": 0, "merges": 0,
                      "inlined": set(), "contracts_used": set(),
                      "inlined_uncontracted": set(), "lemmas_used": set(),
                      "vacuous_loop_bodies": []}

    # ------------------------------------------------------------ spec
    def load_spec(self):
        if VERIF not in sys.path:
            sys.path.insert(0, VERIF)
        import spec.cal as cal
        cal.set_mode(self.mode)
        self.spec_mod = cal
        tree = ast.parse(open(cal.__file__).read())
        self.spec_funcs = {}
        self.spec_consts = {}
        for n in tree.body:
            if isinstance(n, ast.FunctionDef):
                if n.name in ("set_mode", "isint", "implies"):
                    continue
                self.spec_funcs[n.name] = SpecFn(n.name, n)
        for k in ("DIM", "DIML", "SUM", "SUML", "A_MON", "MAXDIM", "MAXW", "MODE"):
            self.spec_consts[k] = getattr(cal, k)

    def add_spec_source(self, path):
        tree = ast.parse(open(path).read())
        for n in tree.body:
            if isinstance(n, ast.FunctionDef):
                self.spec_funcs[n.name] = SpecFn(n.name, n)

    def parse(self, text):
        n = self._parse_cache.get(text)
        if n is None:
            n = ast.parse(text.strip(), mode="eval").body
            self._parse_cache[text] = n
        return n

    # ------------------------------------------------------------ obligations
    def oblige(self, name, st, goal, kind="post"):
        goal = simp(goal) if not isinstance(goal, bool) else goal
        self.vcs.append(VC(name, list(st.pc), goal, kind,
                           self.cur_func.key if self.cur_func else None,
                           self.cur_case))

    # ------------------------------------------------------------ builders
    def sym_int(self, name):
        return z3.Int("p:" + name)

    def sym_real(self, name):
        return z3.Real("p:" + name)

    def sym_bool(self, name):
        return z3.Bool("p:" + name)

    def new_obj(self, st, clsname, slots, fresh=False):
        ci = self.db.class_by_name[clsname]
        r = st.alloc("obj", ci, fresh=fresh)
        st.obj(r).slots.update(slots)
        return r

    # ------------------------------------------------------------ verify
    def verify(self, key, case, region=None):
        """Generate the VCs of function `key` for shape case `case` (outside every
        region of the contract, or inside the named one)."""
        info = self.db.funcs[key]
        c = self.contracts[key]
        self.cur_func = info
        self.cur_contract = c
        self.cur_case = case.name
        self.partial = getattr(case, "partial", False)
        self.force_inline = set(c.inline_calls)
        self.abstract_calls = set(c.abstract_calls)
        self.cur_name = "%s[%s]" % (info.qualname, case.name)
        if region is not None:
            self.cur_name += ".region[%s]" % region
        self.frame_func = info
        self.depth = 0
        self.pending = []
        self.opaque = {n: z3.Function("U_" + n, z3.IntSort(), z3.IntSort())
                       for n in ([] if getattr(self, "no_opaque", False) else c.opaque)}
        self.merge = c.merge
        self.check_frames = c.check_frames
        self.ghost_consts = {n: (z3.Int if k == "int" else z3.Real)("g:" + n)
                             for n, k in c.ghosts.items()}
        st = State()
        params = case.build(self, st)
        a_ = info.node.args
        known = {x.arg for x in a_.posonlyargs + a_.args + a_.kwonlyargs}
        if "_" in params and "_" not in known:
            params = {k: v for k, v in params.items() if k != "_"}
        env = self.bind_args(info, [], dict(params), st)
        if env is None:
            raise ContractBindingError("case %s does not bind to %s" % (case.name, key))
        self.cur_self = env.get("self") if c.modifies_self else None
        self.on_yield = c.on_yield
        if c.ghost_init is not None:
            c.ghost_init(self, st, env)
        self.param_recipe = {k: self.describe(v, st) for k, v in env.items()
                             if not k.startswith("__")}
        for o in st.heap.values():
            o.fresh = False
        # an __init__ is verified on a fresh, empty receiver
        if info.qualname.endswith(".__init__") and isinstance(env.get("self"), Ref):
            st.obj(env["self"]).fresh = True
        for r in c.requires + list(case.requires):
            (s_, v) = self.ev1(self.parse(r), env, st)
            (s_, b), = self.truth(v, st)
            st.assume(b)
        reg = None
        for rg in c.regions:
            (s_, v) = self.ev1(self.parse(rg["when"]), env, st)
            (s_, b), = self.truth(v, st)
            if rg["name"] == region:
                reg = rg
                st.assume(b)
            else:
                st.assume(z_not(b))
        if region is not None and reg is None:
            raise ContractBindingError("no region %s in the contract of %s" % (region, key))
        pre_sat = self.feasible(st.pc)
        wit = [(z3.Int(k) == v) if isinstance(v, int) else (z3.Real(k) == v)
               for k, v in case.witness.items()]
        self.vcs.append(VC("%s.pre-satisfiable" % self.cur_name, list(st.pc) + wit,
                           "SAT", "vacuity", key, case.name))
        old_env = dict(env)
        old_heap = {k: h.copy() for k, h in st.heap.items()}
        self.old_stack = [(old_env, old_heap)]
        ensures = case.ensures if case.ensures is not None else c.ensures
        raises = case.raises if case.raises is not None else c.raises
        outs = self.exec_block(info.node.body, env, st)
        outs += [(env, s, "raise", x) for (s, x) in self.pending]
        self.last_exits = list(outs)          # for the CPython cross-check (pyvc/crosscheck.py)
        self.last_params = dict(old_env)
        self.pending = []
        nret = 0
        exit_pcs = []
        for (en, s, sig, v) in outs:
            exit_pcs.append(s.pc)
            if sig == "raise":
                allowed = [cond for (exc, cond) in raises if v.isa(exc)]
                line = getattr(v.node, "lineno", "?")
                if not allowed:
                    self.oblige("%s.raises[%s@%s]-unreachable" % (
                        self.cur_name, v.cls_name, line), s, False, kind="raise")
                    continue
                acc = False
                for cond in allowed:
                    (s_, cv) = self.eval_in_old(cond, old_env, old_heap, s)
                    acc = z_or(acc, cv)
                self.oblige("%s.raises[%s@%s]" % (self.cur_name, v.cls_name, line),
                            s, acc, kind="raise")
                continue
            if sig not in ("return", "fall"):
                raise OutOfReach("stray %s at function level" % sig)
            nret += 1
            if case.expect_no_exit:
                self.oblige("%s.never-exits#%s" % (self.cur_name, self.path_tag(s)), s,
                            False, kind="post")
                continue
            tag = "#%s" % self.path_tag(s)
            for (exc, cond) in raises:
                (s_, cv) = self.eval_in_old(cond, old_env, old_heap, s)
                self.oblige("%s.noraise[%s]%s" % (self.cur_name, exc, tag), s,
                            z_not(cv), kind="noraise")
            en2 = dict(old_env)
            en2["result"] = v
            self.exit_locals = en
            if v is None and (c.returns is not None or c.result is not None):
                self.oblige("%s.post[returns-a-value]%s" % (self.cur_name, tag), s,
                            False, kind="post")
                continue
            if c.returns is not None and case.ensures is None:
                (s_, want) = self.ev1(self.parse(c.returns), en2, s)
                eqs = self.compare(ast.Eq(), v, want, s)
                if len(eqs) != 1:
                    raise OutOfReach("forking result comparison")
                self.oblige("%s.post[returns]%s" % (self.cur_name, tag), s,
                            eqs[0][1], kind="post")
            if reg is not None:
                # inside a region: the region's clauses are the specification; the general
                # clauses are still generated (named .general.post[i]) so that what fails
                # in the region is reported, against the recorded finding
                for i, r in enumerate(reg["ensures"]):
                    (s_, b) = self.ev1(self.parse(r), en2, s)
                    (s_, b), = self.truth(b, s)
                    self.oblige("%s.post[%d]%s" % (self.cur_name, i, tag), s, b, kind="post")
            for i, r in enumerate(ensures):
                (s_, b) = self.ev1(self.parse(r), en2, s)
                (s_, b), = self.truth(b, s)
                self.oblige("%s.%spost[%d]%s" % (self.cur_name,
                                                 "general." if reg is not None else "",
                                                 i, tag), s, b, kind="post")
            if c.modifies_self and c.mod_slots is not None and self.cur_self is not None:
                now, was = s.obj(self.cur_self), old_heap[self.cur_self.id]
                for k, val in now.slots.items():
                    if k not in c.mod_slots and was.slots.get(k, self) is not val:
                        self.oblige("%s.frame[slot %s unchanged]%s" % (
                            self.cur_name, k, tag), s, False, kind="frame")
            if (c.fresh_result if case.fresh_result is None else case.fresh_result):
                ok = isinstance(v, Ref) and s.obj(v).fresh
                self.oblige("%s.frame[result-fresh]%s" % (self.cur_name, tag), s,
                            ok, kind="frame")
        self.old_stack = []
        if nret == 0 and not case.expect_no_exit and \
                not any(sig == "raise" for (_, _, sig, _) in outs):
            raise ContractBindingError(
                "no path of %s reaches an exit (vacuous verification)" % self.cur_name)
        if pre_sat and not case.expect_no_exit and \
                not any(self.feasible(pc) for pc in exit_pcs):
            raise ContractBindingError(
                "every exit path of %s is infeasible although the precondition is "
                "satisfiable: a callee contract or invariant is contradictory"
                % self.cur_name)
        self.attach_opaque_facts()
        self.opaque = {}
        return nret

    # ------------------------------------------------------------ opaque specs
    def attach_opaque_facts(self):
        """For every VC: lemma instances (always assumed) and definitional
        equalities (revealed only if the abstract query is not unsat) for the
        applications of opaque spec functions that occur in it."""
        if not self.opaque:
            return
        from .state import State as _S
        saved = self.opaque
        for vc in self.vcs:
            if vc.func != self.cur_func.key or vc.case != self.cur_case:
                continue
            terms = {}
            todo = list(vc.pc) + ([vc.goal] if is_z3(vc.goal) else [])
            seen = set()
            while todo:
                t = todo.pop()
                if t.get_id() in seen:
                    continue
                seen.add(t.get_id())
                if z3.is_app(t):
                    d = t.decl()
                    for nm, uf in saved.items():
                        if d.eq(uf):
                            terms.setdefault(nm, {})[t.arg(0).get_id()] = t.arg(0)
                    todo.extend(t.children())
            lem, defs = [], []
            for nm, args in terms.items():
                uf = saved[nm]
                args = list(args.values())
                self.opaque = {}
                for a in args:
                    (s_, real), = self.call_spec(self.spec_funcs[nm], [a], {}, _S())
                    defs.append(uf(a) == real)
                self.opaque = saved
                if nm == "dby":
                    for a in args:
                        (s_, dy), = self.call_spec(self.spec_funcs["diy"], [a], {}, _S())
                        lem.append(uf(a + 1) == uf(a) + dy)
                    SUM, SUML = self.spec_consts["SUM"], self.spec_consts["SUML"]
                    for i, a in enumerate(args):
                        for b in args[i + 1:]:
                            lem.append(z3.Implies(a < b, z3.And(
                                uf(b) - uf(a) >= SUM * (b - a),
                                uf(b) - uf(a) <= SUML * (b - a))))
                            lem.append(z3.Implies(b < a, z3.And(
                                uf(a) - uf(b) >= SUM * (a - b),
                                uf(a) - uf(b) <= SUML * (a - b))))
            vc.lemmas = lem
            vc.defs = defs
        self.opaque = saved

    def describe(self, v, st):
        """JSON recipe of an initial parameter value (leaves name model symbols)."""
        if v is None or isinstance(v, (bool, int, str)):
            return {"lit": v}
        if isinstance(v, float):
            return {"lit": v}
        if is_z3(v):
            if z3.is_const(v) and v.decl().kind() == z3.Z3_OP_UNINTERPRETED:
                return {"sym": v.decl().name(), "sort": str(v.sort())}
            if z3.is_app(v) and v.decl().kind() == z3.Z3_OP_TO_REAL and \
                    z3.is_const(v.arg(0)) and \
                    v.arg(0).decl().kind() == z3.Z3_OP_UNINTERPRETED:
                return {"sym": v.arg(0).decl().name(), "sort": "Int", "as": "float"}
            sv = simp(v)
            if not is_z3(sv):
                return {"lit": sv}
            if z3.is_rational_value(sv):
                return {"lit": float(sv.as_fraction())}
            return {"expr": str(v)}
        from .strings import Text, DecStr, DigitField
        from .values import IntStr
        if isinstance(v, (Text, IntStr, DecStr, DigitField)):
            out = []
            for pc in Text.of(v).pieces:
                if isinstance(pc, str):
                    out.append({"lit": pc})
                elif isinstance(pc, IntStr):
                    out.append({"intstr": self.describe(pc.term, st)})
                elif isinstance(pc, DigitField):
                    out.append({"digits": self.describe(pc.var, st), "width": pc.width})
                else:
                    out.append({"dec": self.describe(pc.value, st), "mark": pc.mark})
            return {"text": out}
        if isinstance(v, tuple):
            return {"tuple": [self.describe(x, st) for x in v]}
        if isinstance(v, Ref):
            h = st.obj(v)
            if h.kind == "obj":
                return {"obj": h.cls.name,
                        "slots": {k: self.describe(x, st) for k, x in h.slots.items()}}
            if h.kind == "list":
                return {"list": [self.describe(x, st) for x in h.items]}
            return {"dict": {str(k): self.describe(x, st) for k, x in h.d.items()}}
        return {"opaque": repr(v)}

    def eval_in_old(self, text, old_env, old_heap, st):
        tmp = State()
        tmp.heap = {k: h.copy() for k, h in old_heap.items()}
        tmp.pc = st.pc
        (s_, v) = self.ev1(self.parse(text), dict(old_env), tmp)
        (s_, b), = self.truth(v, tmp)
        return st, b

    def path_tag(self, st):
        import hashlib
        t = ",".join("%d%s" % (ln, "T" if b else "F") for ln, b in st.trace)
        return hashlib.md5(t.encode()).hexdigest()[:6] if t else "0"

    # generators: a call yields the contract-described sequence
    def call_generator(self, info, env, st, node=None):
        c = self.contracts.get(info.key)
        if c is None or getattr(c, "sequence", None) is None:
            raise OutOfReach("generator call %s without a sequence contract" % info.key)
        site = "%s.call[%s@%s]" % (self.cur_name, info.qualname, getattr(node, "lineno", "?"))
        for i, r in enumerate(c.requires):
            (s_, v) = self.ev1(self.parse(r), env, st)
            (s_, b), = self.truth(v, st)
            self.oblige("%s.pre[%d]" % (site, i), st, b, kind="call-pre")
        return [(st, c.sequence(self, st, env))]
