"""Expression evaluation of the PyVC symbolic executor.

ev(e, env, st) -> list of (state, value).  Raising paths are appended to
self.pending as (state, ExcVal) and drained by the statement executor.
"""
import ast
import operator as _op
import z3

from .values import *   # noqa
from .state import State, vite


CMP_PY = {ast.Eq: _op.eq, ast.NotEq: _op.ne, ast.Lt: _op.lt, ast.LtE: _op.le,
          ast.Gt: _op.gt, ast.GtE: _op.ge}
CMP_DUNDER = {ast.Eq: "__eq__", ast.NotEq: "__ne__", ast.Lt: "__lt__",
              ast.LtE: "__le__", ast.Gt: "__gt__", ast.GtE: "__ge__"}
CMP_SWAP = {ast.Eq: ast.Eq, ast.NotEq: ast.NotEq, ast.Lt: ast.Gt,
            ast.LtE: ast.GtE, ast.Gt: ast.Lt, ast.GtE: ast.LtE}
BIN_DUNDER = {ast.Add: ("__add__", "__radd__"), ast.Sub: ("__sub__", "__rsub__"),
              ast.Mult: ("__mul__", "__rmul__"),
              ast.FloorDiv: ("__floordiv__", "__rfloordiv__")}


class ExprMixin:

    # ------------------------------------------------------------ helpers
    def raise_exc(self, st, name, node=None):
        self.pending.append((st, self.mk_exc(name, node)))

    def mk_exc(self, name, node=None):
        ci = self.db.class_by_name.get(name)
        if ci is not None:
            names = []
            for c in ci.real.__mro__:
                names.append(c.__name__)
            return ExcVal(name, names, node)
        import builtins
        real = getattr(builtins, name, None)
        if isinstance(real, type) and issubclass(real, BaseException):
            return ExcVal(name, [c.__name__ for c in real.__mro__], node)
        raise OutOfReach("unknown exception class " + name)

    def wrap_real(self, v):
        import types
        import re as _re
        if v is None or isinstance(v, (bool, int, str, float)):
            return v
        if isinstance(v, tuple):
            return tuple(self.wrap_real(x) for x in v)
        if isinstance(v, list):
            return PyList(self.wrap_real(x) for x in v)
        if isinstance(v, types.ModuleType):
            name = v.__name__
            short = name.split(".")[-1]
            if name.startswith("metomi.isodatetime.") and short in self.db.trees:
                return ModuleRef(short, v)
            return ModuleRef(None, v)
        if isinstance(v, type):
            ci = self.db.class_by_name.get(v.__name__)
            if ci is not None and ci.real is v:
                return ClassRef(ci)
            return ExtClass(v)
        if isinstance(v, (types.FunctionType, types.BuiltinFunctionType)):
            mod = getattr(v, "__module__", "") or ""
            if mod.startswith("metomi.isodatetime."):
                key = mod.split(".")[-1] + ":" + v.__qualname__
                if key in self.db.funcs:
                    return FuncRef(self.db.funcs[key])
            wrapped = getattr(v, "__wrapped__", None)
            if wrapped is not None:
                return self.wrap_real(wrapped)
            return BuiltinRef((mod + "." if mod and mod != "builtins" else "")
                              + v.__name__)
        if hasattr(v, "__wrapped__") and hasattr(v, "cache_info"):
            return self.wrap_real(v.__wrapped__)
        return RealObj(v)

    def lookup_global(self, name, module):
        names = self.db.module_names.get(module, {}) if module else {}
        if name in names:
            kind = names[name][0]
            if kind == "func":
                return FuncRef(names[name][1])
            if kind == "class":
                return ClassRef(names[name][1])
        if module and hasattr(self.db.real[module], name):
            return self.wrap_real(getattr(self.db.real[module], name))
        import builtins
        if hasattr(builtins, name):
            b = getattr(builtins, name)
            if isinstance(b, type) and issubclass(b, BaseException):
                return ExtClass(b)
            if isinstance(b, type):
                return ExtClass(b)
            return BuiltinRef(name)
        raise OutOfReach("unresolved name %s in %s" % (name, module))

    def feasible(self, pc, extra=None):
        s = z3.Solver()
        s.set("timeout", 3000)
        for c in pc:
            s.add(c)
        if extra is not None:
            if extra is False:
                return False
            if extra is not True:
                s.add(extra)
        self.stats["feasibility_queries"] += 1
        return s.check() != z3.unsat

    def decide(self, st, c):
        """Return True/False if pc decides c, else None."""
        c = simp(c)
        if isinstance(c, bool):
            return c
        if not self.feasible(st.pc, c):
            return False
        if not self.feasible(st.pc, z3.Not(c)):
            return True
        return None

    # ------------------------------------------------------------ entry
    def ev(self, e, env, st):
        m = getattr(self, "e_" + type(e).__name__, None)
        if m is None:
            raise OutOfReach("expression %s: %s" % (
                type(e).__name__, ast.unparse(e)[:60]))
        return m(e, env, st)

    def ev1(self, e, env, st):
        """Evaluate an expression that must have exactly one outcome."""
        r = self.ev(e, env, st)
        if len(r) != 1:
            raise OutOfReach("expression forks: " + ast.unparse(e)[:60])
        return r[0]

    def ev_seq(self, exprs, env, st):
        outs = [(st, [])]
        for e in exprs:
            nxt = []
            for (s, vals) in outs:
                if isinstance(e, ast.Starred):
                    for (s2, v) in self.ev(e.value, env, s):
                        nxt.append((s2, vals + list(self.iter_concrete(v, s2))))
                else:
                    for (s2, v) in self.ev(e, env, s):
                        nxt.append((s2, vals + [v]))
            outs = nxt
        return outs

    # ------------------------------------------------------------ atoms
    def e_Constant(self, e, env, st):
        return [(st, e.value)]

    def e_Name(self, e, env, st):
        if e.id in env:
            return [(st, env[e.id])]
        if e.id in self.spec_funcs:
            return [(st, self.spec_funcs[e.id])]
        if e.id in self.spec_consts:
            return [(st, self.wrap_real(self.spec_consts[e.id]))]
        if e.id in self.ghost_consts:
            return [(st, self.ghost_consts[e.id])]
        if e.id in st.ghost:
            return [(st, st.ghost[e.id])]
        if e.id in self.extra_builtins:
            return [(st, BuiltinRef("x." + e.id))]
        if e.id in ("old", "entry", "implies", "isint", "fresh", "hashkey",
                    "same_shape", "is_none", "seq_len", "seq_at", "unchanged",
                    "classname", "ite", "seq_eq", "hash_elems", "assume", "use_lemma", "intstr", "local", "fmt_value",
                    "fmt_template"):
            return [(st, BuiltinRef("spec." + e.id))]
        return [(st, self.lookup_global(e.id, env.get("__module__")))]

    def e_Tuple(self, e, env, st):
        return [(s, tuple(vs)) for (s, vs) in self.ev_seq(e.elts, env, st)]

    def e_List(self, e, env, st):
        outs = []
        for (s, vs) in self.ev_seq(e.elts, env, st):
            r = s.alloc("list")
            s.obj(r).items = list(vs)
            outs.append((s, r))
        return outs

    def e_Dict(self, e, env, st):
        outs = []
        if any(k is None for k in e.keys):
            raise OutOfReach("dict unpacking literal")
        for (s, ks) in self.ev_seq(e.keys, env, st):
            for (s2, vs) in self.ev_seq(e.values, env, s):
                r = s2.alloc("dict")
                s2.obj(r).d = dict(zip(ks, vs))
                outs.append((s2, r))
        return outs

    def e_JoinedStr(self, e, env, st):
        return [(st, Opaque("fstring"))]

    def e_Lambda(self, e, env, st):
        raise OutOfReach("lambda")

    # ------------------------------------------------------------ attribute
    def e_Attribute(self, e, env, st):
        outs = []
        for (s, o) in self.ev(e.value, env, st):
            outs += self.load_attr(o, e.attr, s, e)
        return outs

    def class_attr(self, ci, name, st, self_val=None):
        """Class-level lookup through the MRO. Returns list of outcomes or None."""
        fi = ci.find_method(name)
        if fi is not None:
            if fi.is_property:
                if self_val is None:
                    return [(st, Opaque("property-object"))]
                return self.call_func(FuncRef(fi), [self_val], {}, st)
            if fi.is_static:
                return [(st, FuncRef(fi))]
            if self_val is not None or fi.is_classmethod:
                return [(st, BoundMethod(
                    FuncRef(fi), self_val if not fi.is_classmethod
                    else ClassRef(ci)))]
            return [(st, FuncRef(fi))]
        if name == "__name__":
            return [(st, ci.name)]
        if hasattr(ci.real, name):
            v = getattr(ci.real, name)
            if isinstance(v, property) and v.fget is None:
                raise OutOfReach("unavailable property " + name)
            return [(st, self.wrap_real(v))]
        return None

    def load_attr(self, o, name, st, node=None):
        if isinstance(o, Ref):
            h = st.obj(o)
            if h.kind == "obj":
                if name in h.slots:
                    return [(st, h.slots[name])]
                if name == "__class__":
                    return [(st, ClassRef(h.cls))]
                r = self.class_attr(h.cls, name, st, self_val=o)
                if r is not None:
                    return r
                self.raise_exc(st, "AttributeError", node)
                return []
            if h.kind in ("list", "dict"):
                return [(st, BoundMethod(BuiltinRef(h.kind + "." + name), o))]
        if isinstance(o, ClassRef):
            if name == "__name__":
                return [(st, o.info.name)]
            r = self.class_attr(o.info, name, st)
            if r is not None:
                return r
            raise OutOfReach("class attribute %s.%s" % (o.info.name, name))
        if isinstance(o, ModuleRef):
            key = (getattr(o.real, "__name__", "?"), name)
            if key in self.sym_modattrs:
                return [(st, self.sym_modattrs[key])]
            if o.name is not None:
                return [(st, self.lookup_global(name, o.name))]
            return [(st, self.wrap_real(getattr(o.real, name)))] \
                if not callable(getattr(o.real, name)) or isinstance(
                    getattr(o.real, name), type) else \
                [(st, BuiltinRef(o.real.__name__ + "." + name))]
        if isinstance(o, RealObj):
            sym = self.sym_globals.get((id(o.obj), name))
            if sym is not None:
                return [(st, sym)]
            v = getattr(o.obj, name)
            import types
            if isinstance(v, types.MethodType):
                ci = self.db.class_by_name.get(type(o.obj).__name__)
                if ci is not None and ci.find_method(name):
                    return [(st, BoundMethod(FuncRef(ci.find_method(name)), o))]
                return [(st, BoundMethod(BuiltinRef("real." + name), o))]
            if callable(v) and not isinstance(v, type):
                return [(st, BoundMethod(BuiltinRef("real." + name), o))]
            return [(st, self.wrap_real(v))]
        if isinstance(o, str):
            return [(st, BoundMethod(BuiltinRef("str." + name), o))]
        if isinstance(o, tuple):
            return [(st, BoundMethod(BuiltinRef("tuple." + name), o))]
        if isinstance(o, ExtClass):
            return [(st, self.wrap_real(getattr(o.real, name)))]
        if isinstance(o, ExcVal) and name == "args":
            return [(st, Opaque("exc-args"))]
        if is_num(o) and name == "is_integer":
            return [(st, BoundMethod(BuiltinRef("float.is_integer"), o))]
        if hasattr(o, "pyvc_attr"):
            return o.pyvc_attr(self, name, st)
        raise OutOfReach("attribute %s of %r" % (name, type(o).__name__))

    # ------------------------------------------------------------ operators
    def e_UnaryOp(self, e, env, st):
        outs = []
        if isinstance(e.op, ast.Not):
            for (s, b) in self.ev_cond(e.operand, env, st):
                outs.append((s, z_not(b)))
            return outs
        for (s, v) in self.ev(e.operand, env, st):
            if isinstance(e.op, ast.USub):
                outs.append((s, -v if not is_z3(v) else -v))
            elif isinstance(e.op, ast.UAdd):
                outs.append((s, v))
            else:
                raise OutOfReach("unary op")
        return outs

    def arith(self, op, a, b, st, node=None):
        """Numeric binary operation; returns value (may add obligations)."""
        if isinstance(a, bool):
            a = int(a)
        if isinstance(b, bool):
            b = int(b)
        conc = not is_z3(a) and not is_z3(b)
        if isinstance(op, ast.Add):
            return a + b if conc else _add(a, b)
        if isinstance(op, ast.Sub):
            return a - b if conc else _sub(a, b)
        if isinstance(op, ast.Mult):
            return a * b if conc else _mul(a, b)
        if isinstance(op, ast.Div):
            self.need_nonzero(b, st, node)
            if conc:
                return a / b
            za, zb_ = coerce2(a, b)
            if not z3.is_real(za):
                za, zb_ = z3.ToReal(za), z3.ToReal(zb_)
            return za / zb_
        if isinstance(op, ast.FloorDiv):
            self.need_nonzero(b, st, node)
            if is_z3(b) and not z3.is_int_value(simp(b) if is_z3(simp(b)) else zn(0)) \
                    and not z3.is_rational_value(b):
                return self.sym_divmod(a, b, st)[0]
            return py_floordiv(a, b)
        if isinstance(op, ast.Mod):
            self.need_nonzero(b, st, node)
            if is_z3(b) and not z3.is_int_value(b) and not z3.is_rational_value(b):
                return self.sym_divmod(a, b, st)[1]
            return py_mod(a, b)
        if isinstance(op, ast.Pow):
            if conc:
                return a ** b
            raise OutOfReach("symbolic power")
        raise OutOfReach("binary op %s" % type(op).__name__)

    def sym_divmod(self, a, b, st):
        """divmod by a SYMBOLIC divisor: q, r are fresh with the defining facts
        a == q*b + r, (b > 0 -> 0 <= r < b), (b < 0 -> b < r <= 0); q integral."""
        za, zb_ = coerce2(a, b)
        self.fresh_n += 1
        qi = z3.Int("q!%d" % self.fresh_n)
        if z3.is_real(za):
            q = z3.ToReal(qi)
            whole = simp(z3.IsInt(za)) is True and simp(z3.IsInt(zb_)) is True
            # an integral dividend and divisor leave an integral remainder
            r = z3.ToReal(z3.Int("r!%d" % self.fresh_n)) if whole \
                else z3.Real("r!%d" % self.fresh_n)
        else:
            q = qi
            r = z3.Int("r!%d" % self.fresh_n)
        st.assume(za == q * zb_ + r)
        st.assume(z3.Implies(zb_ > 0, z3.And(r >= 0, r < zb_)))
        st.assume(z3.Implies(zb_ < 0, z3.And(r <= 0, r > zb_)))
        return (q, r)

    def need_nonzero(self, b, st, node):
        if not is_z3(b):
            if b == 0:
                raise OutOfReach("division by literal zero")
            return
        self.oblige("%s.no-ZeroDivisionError@%s" % (self.cur_name, getattr(node, "lineno", "?")),
                    st, b != 0, kind="safety")

    def e_BinOp(self, e, env, st):
        outs = []
        for (s, (a, b)) in [(s, tuple(v)) for (s, v) in
                            self.ev_seq([e.left, e.right], env, st)]:
            outs += self.binop(e.op, a, b, s, e)
        return outs

    def binop(self, op, a, b, st, node=None):
        if is_num(a) and is_num(b) or (isinstance(a, bool) and is_num(b)) \
                or (is_num(a) and isinstance(b, bool)):
            return [(st, self.arith(op, a, b, st, node))]
        if isinstance(a, str) and isinstance(b, str) and isinstance(op, ast.Add):
            return [(st, a + b)]
        if isinstance(a, str) and isinstance(op, ast.Mod):
            if self.is_dict(b, st):
                from .strings import FmtResult
                import re as _re
                d = st.obj(b).d
                for nm in _re.findall(r"%\((\w+)\)", a):
                    if nm not in d:
                        self.raise_exc(st, "KeyError", node)
                        return []
                return [(st, FmtResult(a, dict(d)))]
            return [(st, self.str_format(a, b, st))]
        if isinstance(a, str) and isinstance(b, int) and isinstance(op, ast.Mult):
            return [(st, a * b)]
        if isinstance(a, tuple) and isinstance(b, tuple) and isinstance(op, ast.Add):
            return [(st, a + b)]
        if isinstance(a, tuple) and isinstance(b, int) and isinstance(op, ast.Mult):
            return [(st, a * b)]
        if isinstance(a, int) and isinstance(b, tuple) and isinstance(op, ast.Mult):
            return [(st, a * b)]
        if hasattr(a, "pyvc_binop"):
            return a.pyvc_binop(self, op, b, st, False)
        if hasattr(b, "pyvc_binop"):
            return b.pyvc_binop(self, op, a, st, True)
        la = self.is_list(a, st)
        lb = self.is_list(b, st)
        if la and lb and isinstance(op, ast.Add):
            r = st.alloc("list")
            st.obj(r).items = list(st.obj(a).items) + list(st.obj(b).items)
            return [(st, r)]
        if isinstance(op, ast.Add) and ((la and isinstance(b, tuple)) or
                                         (lb and isinstance(a, tuple))):
            # a module-level list constant is held as a tuple: list + list
            r = st.alloc("list")
            st.obj(r).items = list(self.seq_items(a, st)) + list(self.seq_items(b, st))
            return [(st, r)]
        if type(op) in BIN_DUNDER and (self.is_obj(a, st) or self.is_obj(b, st)):
            fwd, rev = BIN_DUNDER[type(op)]
            outs = []
            if self.is_obj(a, st):
                m = st.obj(a).cls.find_method(fwd)
                if m is not None:
                    for (s, r) in self.call_func(FuncRef(m), [a, b], {}, st):
                        if r is NOTIMPL:
                            outs += self.binop_reflected(rev, a, b, s, node)
                        else:
                            outs.append((s, r))
                    return outs
            return self.binop_reflected(rev, a, b, st, node)
        raise OutOfReach("binop %s on %r, %r" % (
            type(op).__name__, type(a).__name__, type(b).__name__))

    def binop_reflected(self, rev, a, b, st, node):
        if self.is_obj(b, st):
            m = st.obj(b).cls.find_method(rev)
            if m is not None:
                outs = []
                for (s, r) in self.call_func(FuncRef(m), [b, a], {}, st):
                    if r is NOTIMPL:
                        self.raise_exc(s, "TypeError", node)
                    else:
                        outs.append((s, r))
                return outs
        self.raise_exc(st, "TypeError", node)
        return []

    def is_obj(self, v, st):
        return isinstance(v, Ref) and st.obj(v).kind == "obj"

    def is_list(self, v, st):
        return isinstance(v, Ref) and st.obj(v).kind == "list"

    def is_dict(self, v, st):
        return isinstance(v, Ref) and st.obj(v).kind == "dict"

    def seq_items(self, v, st):
        """Concrete-length sequence -> python list of values, else None."""
        if isinstance(v, tuple):
            return list(v)
        if self.is_list(v, st):
            return list(st.obj(v).items)
        return None

    # ------------------------------------------------------------ compare
    def e_Compare(self, e, env, st):
        outs = []
        operands = [e.left] + list(e.comparators)
        for (s, vals) in self.ev_seq(operands, env, st):
            paths = [(s, True)]
            for i, op in enumerate(e.ops):
                nxt = []
                for (s1, acc) in paths:
                    if acc is False:
                        nxt.append((s1, acc))
                        continue
                    for (s2, r) in self.compare(op, vals[i], vals[i + 1], s1, e):
                        nxt.append((s2, z_and(acc, r)))
                paths = nxt
            outs += paths
        return outs

    def num_cmp(self, op, a, b):
        if not is_z3(a) and not is_z3(b):
            return CMP_PY[type(op)](a, b)
        za, zb_ = coerce2(a, b)
        return simp(CMP_PY[type(op)](za, zb_))

    def compare(self, op, a, b, st, node=None):
        t = type(op)
        if t is ast.Is or t is ast.IsNot:
            r = self.identical(a, b)
            return [(st, r if t is ast.Is else z_not(r))]
        if t is ast.In or t is ast.NotIn:
            r = self.contains(b, a, st)
            return [(s, x if t is ast.In else z_not(x)) for (s, x) in r]
        if hasattr(a, "pyvc_compare"):
            return a.pyvc_compare(self, op, b, st, False)
        if hasattr(b, "pyvc_compare"):
            return b.pyvc_compare(self, op, a, st, True)
        abool, bbool = is_bool(a), is_bool(b)
        if abool and bbool and t in (ast.Eq, ast.NotEq):
            if isinstance(a, bool) and isinstance(b, bool):
                r = a == b
            else:
                r = simp(zb(a) == zb(b))
            return [(st, r if t is ast.Eq else z_not(r))]
        if (is_num(a) or isinstance(a, bool)) and (is_num(b) or isinstance(b, bool)):
            if is_z3(a) and z3.is_bool(a) or is_z3(b) and z3.is_bool(b):
                raise OutOfReach("symbolic bool in numeric comparison")
            return [(st, self.num_cmp(op, a, b))]
        if a is None or b is None:
            if t is ast.Eq:
                return [(st, a is None and b is None)]
            if t is ast.NotEq:
                return [(st, not (a is None and b is None))]
            self.raise_exc(st, "TypeError", node)
            return []
        if isinstance(a, str) and isinstance(b, str):
            return [(st, CMP_PY[t](a, b))]
        if isinstance(a, HashV) and isinstance(b, HashV) and t in (ast.Eq, ast.NotEq):
            if t is ast.NotEq:
                raise OutOfReach("hash inequality is not modelled")
            if len(a.elems) != len(b.elems):
                raise OutOfReach("hash of different arities")
            acc = True
            for x, y in zip(a.elems, b.elems):
                (st, r), = self.compare(ast.Eq(), x, y, st, node)
                acc = z_and(acc, r)
            return [(st, acc)]
        sa, sb = self.seq_items(a, st), self.seq_items(b, st)
        if sa is not None and sb is not None:
            if isinstance(a, tuple) != isinstance(b, tuple):
                # list vs tuple never equal
                if t is ast.Eq:
                    return [(st, False)]
                if t is ast.NotEq:
                    return [(st, True)]
                self.raise_exc(st, "TypeError", node)
                return []
            return self.seq_compare(op, sa, sb, st, node)
        if self.is_obj(a, st) or self.is_obj(b, st):
            return self.obj_compare(op, a, b, st, node)
        if t is ast.Eq:
            if type(a) is not type(b):
                return [(st, False)]
        if t is ast.NotEq:
            if type(a) is not type(b):
                return [(st, True)]
        if isinstance(a, (str, int, float)) and isinstance(b, (str, int, float)):
            if t in (ast.Eq, ast.NotEq):
                return [(st, CMP_PY[t](a, b))]
        if isinstance(a, (ClassRef, ExtClass, FuncRef)) and t in (ast.Eq, ast.NotEq):
            r = self.identical(a, b)
            return [(st, r if t is ast.Eq else not r)]
        raise OutOfReach("compare %s on %r, %r" % (
            t.__name__, type(a).__name__, type(b).__name__))

    def identical(self, a, b):
        if a is None or b is None:
            return a is None and b is None
        if isinstance(a, Ref) and isinstance(b, Ref):
            return a.id == b.id
        if isinstance(a, ClassRef) and isinstance(b, ClassRef):
            return a.info is b.info
        if isinstance(a, ExtClass) and isinstance(b, ExtClass):
            return a.real is b.real
        if isinstance(a, bool) and isinstance(b, bool):
            return a == b
        if is_bool(a) and is_bool(b):
            return simp(zb(a) == zb(b))      # True/False are singletons
        if a is NOTIMPL or b is NOTIMPL:
            return a is b
        if type(a) is not type(b) and not (is_z3(a) or is_z3(b)):
            return False
        if isinstance(a, str) and isinstance(b, str):
            return a == b
        raise OutOfReach("identity of %r, %r" % (a, b))

    def seq_compare(self, op, sa, sb, st, node):
        t = type(op)
        if t in (ast.Eq, ast.NotEq):
            if len(sa) != len(sb):
                return [(st, t is ast.NotEq)]
            paths = [(st, True)]
            for x, y in zip(sa, sb):
                nxt = []
                for (s, acc) in paths:
                    for (s2, r) in self.compare(ast.Eq(), x, y, s, node):
                        nxt.append((s2, z_and(acc, r)))
                paths = nxt
            return [(s, r if t is ast.Eq else z_not(r)) for (s, r) in paths]
        if t in (ast.Gt, ast.GtE):
            return self.seq_compare(CMP_SWAP[t](), sb, sa, st, node)
        # Lt / LtE lexicographic
        if not sa or not sb:
            if t is ast.Lt:
                return [(st, len(sa) < len(sb))]
            return [(st, len(sa) <= len(sb))]
        outs = []
        for (s1, lt0) in self.compare(ast.Lt(), sa[0], sb[0], st, node):
            for (s2, eq0) in self.compare(ast.Eq(), sa[0], sb[0], s1, node):
                for (s3, rest) in self.seq_compare(op, sa[1:], sb[1:], s2, node):
                    outs.append((s3, z_or(lt0, z_and(eq0, rest))))
        return outs

    def obj_compare(self, op, a, b, st, node):
        t = type(op)
        if t is ast.NotEq:
            # Python: default __ne__ inverts __eq__ unless NotImplemented
            if not (self.is_obj(a, st) and st.obj(a).cls.find_method("__ne__")):
                return [(s, z_not(r)) for (s, r) in
                        self.obj_compare(ast.Eq(), a, b, st, node)]
        outs = []
        tried = False
        if self.is_obj(a, st):
            m = st.obj(a).cls.find_method(CMP_DUNDER[t])
            if m is not None:
                tried = True
                for (s, r) in self.call_func(FuncRef(m), [a, b], {}, st):
                    if r is NOTIMPL:
                        outs += self.obj_compare_reflected(op, a, b, s, node)
                    else:
                        outs.append((s, r))
        if not tried:
            outs += self.obj_compare_reflected(op, a, b, st, node)
        return outs

    def obj_compare_reflected(self, op, a, b, st, node):
        t = type(op)
        if self.is_obj(b, st):
            m = st.obj(b).cls.find_method(CMP_DUNDER[CMP_SWAP[t]])
            if m is not None:
                outs = []
                for (s, r) in self.call_func(FuncRef(m), [b, a], {}, st):
                    if r is NOTIMPL:
                        outs += self.cmp_default(t, a, b, s, node)
                    else:
                        outs.append((s, r))
                return outs
        return self.cmp_default(t, a, b, st, node)

    def cmp_default(self, t, a, b, st, node):
        if t is ast.Eq:
            return [(st, self.identical(a, b)
                     if isinstance(a, Ref) and isinstance(b, Ref) else False)]
        if t is ast.NotEq:
            return [(st, not self.identical(a, b)
                     if isinstance(a, Ref) and isinstance(b, Ref) else True)]
        self.raise_exc(st, "TypeError", node)
        return []

    def contains(self, container, item, st):
        if isinstance(container, str) and isinstance(item, str):
            return [(st, item in container)]
        if hasattr(container, "pyvc_contains"):
            return container.pyvc_contains(self, item, st)
        if hasattr(item, "pyvc_in"):
            return item.pyvc_in(self, container, st)
        if self.is_dict(container, st):
            keys = list(st.obj(container).d)
        elif isinstance(container, RealObj) and isinstance(container.obj, dict):
            keys = list(container.obj)
        else:
            keys = self.seq_items(container, st)
            if keys is None:
                raise OutOfReach("membership in %r" % type(container).__name__)
        paths = [(st, False)]
        for k in keys:
            nxt = []
            for (s, acc) in paths:
                if acc is True:
                    nxt.append((s, acc))
                    continue
                for (s2, r) in self.compare(ast.Eq(), item, k, s):
                    nxt.append((s2, z_or(acc, r)))
            paths = nxt
        return paths

    # ------------------------------------------------------------ truthiness
    def truth(self, v, st, node=None):
        """-> list of (state, bool-ish)."""
        if v is None:
            return [(st, False)]
        if isinstance(v, bool):
            return [(st, v)]
        if is_z3(v):
            if z3.is_bool(v):
                return [(st, v)]
            return [(st, simp(v != 0))]
        if isinstance(v, (int, float)):
            return [(st, v != 0)]
        if isinstance(v, (str, tuple)):
            return [(st, len(v) > 0)]
        if hasattr(v, "pyvc_truth"):
            return v.pyvc_truth(self, st)
        if isinstance(v, Ref):
            h = st.obj(v)
            if h.kind == "list":
                return [(st, len(h.items) > 0)]
            if h.kind == "dict":
                return [(st, len(h.d) > 0)]
            m = h.cls.find_method("__bool__")
            if m is not None:
                return self.call_func(FuncRef(m), [v], {}, st)
            if h.cls.find_method("__len__"):
                raise OutOfReach("__len__ truthiness")
            return [(st, True)]
        if isinstance(v, RealObj):
            return [(st, bool(v.obj))]
        if isinstance(v, (FuncRef, ClassRef, BoundMethod, BuiltinRef, ExtClass)):
            return [(st, True)]
        if isinstance(v, SeqC):
            return [(st, simp(v.n > 0) if is_z3(v.n) else v.n > 0)]
        raise OutOfReach("truthiness of %r" % type(v).__name__)

    def ev_cond(self, e, env, st):
        outs = []
        for (s, v) in self.ev(e, env, st):
            outs += self.truth(v, s, e)
        return outs

    def e_BoolOp(self, e, env, st):
        is_and = isinstance(e.op, ast.And)
        # paths: (state, result-so-far-value, decided)
        return self.boolop(e.values, is_and, env, st)

    def boolop(self, exprs, is_and, env, st):
        first, rest = exprs[0], exprs[1:]
        outs = []
        for (s, v) in self.ev(first, env, st):
            if not rest:
                outs.append((s, v))
                continue
            for (s1, t) in self.truth(v, s, first):
                t = simp(t)
                if isinstance(t, bool):
                    if t == is_and:
                        outs += self.boolop(rest, is_and, env, s1)
                    else:
                        outs.append((s1, v))
                    continue
                # symbolic: evaluate the rest under the assumption
                guard = t if is_and else z_not(t)
                n0 = len(s1.pc)
                s2 = s1.fork()
                s2.assume(guard)
                heap_before = {k: (dict(h.slots), list(h.items), dict(h.d))
                               for k, h in s2.heap.items()}
                npend = len(self.pending)
                sub = self.boolop(rest, is_and, env, s2)
                pure = (len(sub) == 1 and len(self.pending) == npend and
                        self.heap_same(sub[0][0], heap_before))
                if pure:
                    s3, rv = sub[0]
                    facts = s3.pc[n0 + 1:]
                    try:
                        if is_and:
                            val = self.andor_value(t, rv, v, s3)
                        else:
                            val = self.andor_value(z_not(t), rv, v, s3)
                        s1.pc[:] = s3.pc[:n0] + [z3.Implies(guard, f) for f in facts]
                        s1.heap = s3.heap
                        outs.append((s1, val))
                        continue
                    except TypeError:
                        pass
                # fork
                for (s3, rv) in sub:
                    outs.append((s3, rv))
                s4 = s1.fork()
                s4.assume(z_not(guard))
                if self.feasible(s4.pc):
                    outs.append((s4, v))
        return outs

    def andor_value(self, guard, taken, other, st):
        """value = taken if guard else other (Python and/or value semantics)."""
        # in boolean contexts both are bool-ish; otherwise need same kind
        tb, ob = is_bool(taken), is_bool(other)
        if tb and ob:
            return simp(z3.If(zb(guard), zb(taken), zb(other)))
        if ob and not tb:
            # e.g. `x is not None and x < 3` style handled above; mixed kinds:
            tt = self.truth(taken, st)
            if len(tt) == 1:
                return simp(z3.If(zb(guard), zb(tt[0][1]), zb(other)))
        if tb and not ob:
            ot = self.truth(other, st)
            if len(ot) == 1:
                return simp(z3.If(zb(guard), zb(taken), zb(ot[0][1])))
        return vite(zb(guard), taken, other)

    def heap_same(self, st, before):
        for k, h in st.heap.items():
            if k not in before:
                continue
            b = before[k]
            if len(h.slots) != len(b[0]) or len(h.items) != len(b[1]) \
                    or len(h.d) != len(b[2]):
                return False
            for s_, v in h.slots.items():
                if b[0].get(s_, self) is not v:
                    return False
            for x, y in zip(h.items, b[1]):
                if x is not y:
                    return False
            for k2, v in h.d.items():
                if b[2].get(k2, self) is not v:
                    return False
        return True

    def e_IfExp(self, e, env, st):
        outs = []
        for (s, c) in self.ev_cond(e.test, env, st):
            c = simp(c)
            if isinstance(c, bool):
                outs += self.ev(e.body if c else e.orelse, env, s)
                continue
            n0 = len(s.pc)
            sa = s.fork()
            sa.assume(c)
            sb = s.fork()
            sb.assume(z_not(c))
            np_ = len(self.pending)
            ra = self.ev(e.body, env, sa)
            rb = self.ev(e.orelse, env, sb)
            if len(ra) == 1 and len(rb) == 1 and len(self.pending) == np_:
                from .state import merge_states
                m = merge_states(c, {"v": ra[0][1]}, ra[0][0],
                                 {"v": rb[0][1]}, rb[0][0], n0)
                if m is not None:
                    # keep the caller's state object (callers may hold on to it)
                    s.pc[:] = m[1].pc
                    s.heap = m[1].heap
                    s.ghost = m[1].ghost
                    outs.append((s, m[0]["v"]))
                    continue
            outs += [(x, v) for (x, v) in ra if self.feasible(x.pc)]
            outs += [(x, v) for (x, v) in rb if self.feasible(x.pc)]
        return outs

    # ------------------------------------------------------------ subscript
    def e_Subscript(self, e, env, st):
        outs = []
        for (s, o) in self.ev(e.value, env, st):
            if isinstance(e.slice, ast.Slice):
                parts = []
                cur = [(s, [])]
                for p in (e.slice.lower, e.slice.upper, e.slice.step):
                    nxt = []
                    for (s1, vs) in cur:
                        if p is None:
                            nxt.append((s1, vs + [None]))
                        else:
                            for (s2, v) in self.ev(p, env, s1):
                                nxt.append((s2, vs + [v]))
                    cur = nxt
                for (s1, (lo, hi, step)) in [(a, tuple(b)) for a, b in cur]:
                    outs += self.do_slice(o, lo, hi, step, s1, e)
            else:
                for (s1, i) in self.ev(e.slice, env, s):
                    outs += self.index(o, i, s1, e)
        return outs

    def do_slice(self, o, lo, hi, step, st, node):
        if hasattr(o, "pyvc_slice"):
            return o.pyvc_slice(self, lo, hi, step, st)
        items = self.seq_items(o, st)
        if isinstance(o, str):
            if any(is_z3(x) for x in (lo, hi, step)):
                raise OutOfReach("symbolic slice of str")
            return [(st, o[lo:hi:step])]
        if items is None:
            raise OutOfReach("slice of %r" % type(o).__name__)
        if is_z3(step):
            raise OutOfReach("symbolic slice step")
        if is_z3(lo) or is_z3(hi):
            # symbolic bounds on a concrete sequence: case split (slices clamp)
            n = len(items)
            outs = []
            for (s1, l) in self.concretize(lo, st, -n - 1, n + 1):
                for (s2, h) in self.concretize(hi, s1, -n - 1, n + 1):
                    outs.append((s2, self.mk_like(o, items[l:h:step], s2)))
            return outs
        return [(st, self.mk_like(o, items[lo:hi:step], st))]

    def concretize(self, v, st, lo, hi):
        """Fork on the value of integer v clamped into [lo, hi]."""
        if not is_z3(v):
            return [(st, v)]
        outs = []
        for k in range(lo, hi + 1):
            c = (v <= k) if k == lo else ((v >= k) if k == hi else (v == k))
            s2 = st.fork()
            s2.assume(c)
            if self.feasible(s2.pc):
                outs.append((s2, k))
        return outs

    def mk_like(self, o, items, st):
        if isinstance(o, tuple):
            return tuple(items)
        r = st.alloc("list")
        st.obj(r).items = list(items)
        return r

    def index(self, o, i, st, node=None):
        if hasattr(o, "pyvc_index"):
            return o.pyvc_index(self, i, st)
        if self.is_dict(o, st):
            d = st.obj(o).d
            if is_z3(i):
                raise OutOfReach("symbolic dict key")
            if i in d:
                return [(st, d[i])]
            self.raise_exc(st, "KeyError", node)
            return []
        if isinstance(o, RealObj) and isinstance(o.obj, dict):
            if is_z3(i) or not isinstance(i, (str, int, tuple)):
                raise OutOfReach("symbolic key into real dict")
            if i in o.obj:
                return [(st, self.wrap_real(o.obj[i]))]
            self.raise_exc(st, "KeyError", node)
            return []
        if isinstance(o, SeqC):
            return [(st, o.elem(i))]
        if isinstance(o, str):
            if is_z3(i):
                raise OutOfReach("symbolic str index")
            return [(st, o[i])]
        items = self.seq_items(o, st)
        if items is None:
            raise OutOfReach("index into %r" % type(o).__name__)
        n = len(items)
        if not is_z3(i):
            if -n <= i < n:
                return [(st, items[i])]
            self.raise_exc(st, "IndexError", node)
            return []
        self.oblige("%s.no-IndexError@%s" % (self.cur_name, getattr(node, "lineno", "?")), st,
                    z3.And(i >= -n, i < n), kind="safety")
        if n == 0:
            return []
        try:
            r = items[n - 1]
            for k in range(n - 2, -1, -1):
                r = vite(z3.Or(i == k, i == k - n), items[k], r)
            return [(st, r)]
        except TypeError:
            outs = []
            for k in range(n):
                s2 = st.fork()
                s2.assume(z3.Or(i == k, i == k - n))
                if self.feasible(s2.pc):
                    outs.append((s2, items[k]))
            return outs

    # ------------------------------------------------------------ comprehensions
    def iter_concrete(self, v, st):
        if isinstance(v, tuple):
            return list(v)
        if isinstance(v, str):
            return list(v)
        if isinstance(v, Ref):
            h = st.obj(v)
            if h.kind == "list":
                return list(h.items)
            if h.kind == "dict":
                return list(h.d)
        if isinstance(v, RangeV) and not any(
                is_z3(x) for x in (v.lo, v.hi, v.step)):
            return list(range(v.lo, v.hi, v.step))
        if isinstance(v, RealObj) and isinstance(v.obj, dict):
            return [self.wrap_real(k) for k in v.obj]
        if isinstance(v, SeqC) and not is_z3(v.n):
            return [v.elem(k) for k in range(v.n)]
        if hasattr(v, "pyvc_iter"):
            return v.pyvc_iter(self, st)
        raise OutOfReach("iteration over %r" % type(v).__name__)

    def comp_items(self, e, env, st):
        if len(e.generators) != 1:
            raise OutOfReach("nested comprehension")
        g = e.generators[0]
        (s, it) = self.ev1(g.iter, env, st)
        out = []
        for item in self.iter_concrete(it, s):
            env2 = dict(env)
            self.assign_target(g.target, item, env2, s)
            ok = True
            for c in g.ifs:
                (s, cv) = self.ev1(c, env2, s)
                (s, cv), = self.truth(cv, s)
                cv = simp(cv)
                if not isinstance(cv, bool):
                    raise OutOfReach("symbolic comprehension filter")
                ok = ok and cv
            if ok:
                out.append(env2)
        return s, out

    def e_ListComp(self, e, env, st):
        s, envs = self.comp_items(e, env, st)
        vals = []
        for env2 in envs:
            (s, v) = self.ev1(e.elt, env2, s)
            vals.append(v)
        r = s.alloc("list")
        s.obj(r).items = vals
        return [(s, r)]

    def e_GeneratorExp(self, e, env, st):
        s, envs = self.comp_items(e, env, st)
        vals = []
        for env2 in envs:
            (s, v) = self.ev1(e.elt, env2, s)
            vals.append(v)
        return [(s, tuple(vals))]

    def e_DictComp(self, e, env, st):
        s, envs = self.comp_items(e, env, st)
        d = {}
        for env2 in envs:
            (s, k) = self.ev1(e.key, env2, s)
            (s, v) = self.ev1(e.value, env2, s)
            d[k] = v
        r = s.alloc("dict")
        s.obj(r).d = d
        return [(s, r)]

    def str_format(self, fmt, arg, st):
        vals = arg if isinstance(arg, tuple) else (arg,)
        if all(isinstance(v, (int, str, float)) and not is_z3(v) for v in vals):
            return fmt % (tuple(vals) if isinstance(arg, tuple) else arg)
        if hasattr(self, "sym_format"):
            return self.sym_format(fmt, arg, st)
        import re as _re
        m = _re.fullmatch(r"%0(\d+)d", fmt) if isinstance(fmt, str) else None
        if m and len(vals) == 1 and is_z3(vals[0]):
            from .strings import DigitField
            w = int(m.group(1))
            v = trunc_int(vals[0])
            if self.decide(st, z3.And(v >= 0, v < 10 ** w)) is True:
                return DigitField(w, v)      # %0Nd of 0 <= v < 10**N: its N-digit spelling
        return Opaque("formatted-string")


def _add(a, b):
    za, zb_ = coerce2(a, b)
    return za + zb_


def _sub(a, b):
    za, zb_ = coerce2(a, b)
    return za - zb_


def _mul(a, b):
    za, zb_ = coerce2(a, b)
    return za * zb_
