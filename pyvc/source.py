"""Source binding: what is verified is the file on disk (DESIGN.md 2.1).

Every run parses /repo/metomi/isodatetime/<m>.py with `ast`; functions and
classes are located by qualified name and the symbolic executor walks these
nodes directly.  The real package is also imported (from the same files) so
that module-level *constants* (class tables, __slots__, compiled regexes, the
CALENDAR singleton after the real set_mode) can be read concretely.
"""
import ast
import hashlib
import importlib
import os
import sys

REPO = os.environ.get("PYVC_REPO", "/repo")
PKG = "metomi.isodatetime"
MODULES = ["exceptions", "timezone", "parser_spec", "dumpers", "data",
           "parsers", "datetimeoper", "main"]


class FuncInfo:
    def __init__(self, module, qualname, node, cls=None, src=None):
        self.module = module
        self.qualname = qualname          # e.g. "TimePoint._tick_over"
        self.node = node
        self.cls = cls                    # ClassInfo or None
        self.key = module + ":" + qualname
        self.decorators = [ast.unparse(d) for d in node.decorator_list]
        self.is_property = "property" in self.decorators
        self.is_static = "staticmethod" in self.decorators
        self.is_classmethod = "classmethod" in self.decorators
        self.src = src
        loops = [n for n in ast.walk(node)
                 if isinstance(n, (ast.For, ast.While))]
        loops.sort(key=lambda n: (n.lineno, n.col_offset))
        self.loops = loops
        self.is_generator = any(
            isinstance(n, (ast.Yield, ast.YieldFrom)) for n in ast.walk(node))

    def loop_ordinal(self, node):
        return self.loops.index(node)

    def sha(self):
        return hashlib.sha256(
            ast.unparse(self.node).encode()).hexdigest()[:16]

    def lines(self):
        return (self.node.lineno, self.node.end_lineno)

    def __repr__(self):
        return "<Func %s>" % self.key


class ClassInfo:
    def __init__(self, module, name, node, real):
        self.module = module
        self.name = name
        self.node = node
        self.real = real                  # the real class object
        self.key = module + ":" + name
        self.methods = {}                 # name -> FuncInfo
        self.bases = []                   # ClassInfo list (package classes)
        self.base_names = [ast.unparse(b) for b in node.bases]

    def mro(self):
        out = [self]
        for b in self.bases:
            for c in b.mro():
                if c not in out:
                    out.append(c)
        return out

    def find_method(self, name):
        for c in self.mro():
            if name in c.methods:
                return c.methods[name]
        return None

    def is_subclass_of(self, other_name):
        return any(c.name == other_name for c in self.mro())

    def __repr__(self):
        return "<Class %s>" % self.key


class SourceDB:
    def __init__(self, repo=None):
        self.repo = repo or REPO
        if self.repo not in sys.path:
            sys.path.insert(0, self.repo)
        self.trees = {}
        self.real = {}
        self.funcs = {}       # "module:qualname" -> FuncInfo
        self.classes = {}     # "module:Name" -> ClassInfo
        self.class_by_name = {}
        self.module_names = {}   # module -> {name: ('func'|'class'|'import', ...)}
        for m in MODULES:
            path = os.path.join(self.repo, "metomi", "isodatetime", m + ".py")
            text = open(path).read()
            self.trees[m] = ast.parse(text)
        for m in MODULES:
            self.real[m] = importlib.import_module(PKG + "." + m)
            rf = os.path.realpath(self.real[m].__file__)
            want = os.path.realpath(os.path.join(
                self.repo, "metomi", "isodatetime", m + ".py"))
            if rf != want:
                raise RuntimeError(
                    "imported %s from %s, expected %s" % (m, rf, want))
        for m in MODULES:
            self._index(m)
        for c in self.classes.values():
            for bn in c.base_names:
                b = self.class_by_name.get(bn.split(".")[-1])
                if b is not None:
                    c.bases.append(b)

    def _index(self, m):
        names = {}
        tree = self.trees[m]
        for n in tree.body:
            if isinstance(n, ast.FunctionDef):
                fi = FuncInfo(m, n.name, n)
                self.funcs[fi.key] = fi
                names[n.name] = ("func", fi)
            elif isinstance(n, ast.ClassDef):
                ci = ClassInfo(m, n.name, n, getattr(self.real[m], n.name))
                self.classes[ci.key] = ci
                self.class_by_name.setdefault(n.name, ci)
                names[n.name] = ("class", ci)
                for b in n.body:
                    if isinstance(b, ast.FunctionDef):
                        fi = FuncInfo(m, n.name + "." + b.name, b, cls=ci)
                        # property setters etc. are not used in this code base
                        ci.methods[b.name] = fi
                        self.funcs[fi.key] = fi
                    elif isinstance(b, ast.Assign):
                        # alias such as `__call__ = parse`
                        if (isinstance(b.value, ast.Name)
                                and b.value.id in ci.methods):
                            for t in b.targets:
                                if isinstance(t, ast.Name):
                                    ci.methods[t.id] = ci.methods[b.value.id]
            elif isinstance(n, (ast.Import, ast.ImportFrom)):
                for a in n.names:
                    names[a.asname or a.name.split(".")[0]] = ("import", n, a)
        self.module_names[m] = names

    def func(self, key):
        return self.funcs[key]

    def all_function_keys(self):
        return sorted(self.funcs)
