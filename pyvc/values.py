"""Value domain of the PyVC symbolic executor."""
import fractions
import z3


class OutOfReach(Exception):
    """The construct is outside the modelled subset: verdict out-of-reach."""


class ContractBindingError(Exception):
    """A contract no longer binds to the source (renamed local, loop gone)."""


class Ref:
    __slots__ = ("id",)

    def __init__(self, id_):
        self.id = id_

    def __eq__(self, o):
        return isinstance(o, Ref) and o.id == self.id

    def __hash__(self):
        return hash(("Ref", self.id))

    def __repr__(self):
        return "Ref(%d)" % self.id


class HObj:
    """Heap record: an object (slots), a list (items) or a dict (d)."""
    __slots__ = ("kind", "cls", "slots", "items", "d", "fresh", "ro")

    def __init__(self, kind, cls=None, fresh=True):
        self.kind = kind          # 'obj' | 'list' | 'dict'
        self.cls = cls            # ClassInfo for 'obj'
        self.slots = {}
        self.items = []
        self.d = {}
        self.fresh = fresh
        self.ro = False           # read-only (contract-described / cached)

    def copy(self):
        h = HObj(self.kind, self.cls, self.fresh)
        h.slots = dict(self.slots)
        h.items = list(self.items)
        h.d = dict(self.d)
        h.ro = self.ro
        return h


class FuncRef:
    def __init__(self, info):
        self.info = info

    def __repr__(self):
        return "FuncRef(%s)" % self.info.key


class BoundMethod:
    def __init__(self, func, self_val):
        self.func = func          # FuncRef
        self.self_val = self_val

    def __repr__(self):
        return "BoundMethod(%s)" % self.func.info.key


class ClassRef:
    def __init__(self, info):
        self.info = info

    def __repr__(self):
        return "ClassRef(%s)" % self.info.key


class ExtClass:
    """A class outside the package (int, float, str, ValueError, ...)."""

    def __init__(self, real):
        self.real = real

    def __repr__(self):
        return "ExtClass(%s)" % self.real.__name__


class BuiltinRef:
    def __init__(self, name):
        self.name = name

    def __repr__(self):
        return "Builtin(%s)" % self.name


class SpecFn:
    def __init__(self, name, node):
        self.name = name
        self.node = node


class ModuleRef:
    def __init__(self, name, real):
        self.name = name          # package module short name or None
        self.real = real


class RealObj:
    """A real Python object whose attributes are read concretely."""

    def __init__(self, obj):
        self.obj = obj

    def __repr__(self):
        return "RealObj(%r)" % (self.obj,)


class SeqC:
    """Contract-described read-only sequence: length n, element function."""

    def __init__(self, n, elem, desc=""):
        self.n = n
        self.elem = elem
        self.desc = desc


class RangeV:
    def __init__(self, lo, hi, step=1):
        self.lo, self.hi, self.step = lo, hi, step


class HashV:
    """hash(<tuple>) as an uninterpreted function with congruence: two HashV
    are equal when their element tuples are numerically equal."""

    def __init__(self, elems):
        self.elems = elems


class Opaque:
    """An unmodelled value (message text etc.); any use is out-of-reach."""

    def __init__(self, tag):
        self.tag = tag

    def __repr__(self):
        return "Opaque(%s)" % self.tag


class PyList(tuple):
    """A module-level (immutable here) Python LIST constant, held as a tuple
    subclass so that isinstance(x, list/tuple) keeps its Python meaning."""


class IntStr:
    """str(<int term>): the decimal text of an integer (compared by value)."""

    def __init__(self, term):
        self.term = term

    def pyvc_compare(self, E, op, other, st, swapped):
        import ast as _ast
        if isinstance(other, IntStr):
            o = other.term
        elif isinstance(other, str):
            try:
                o = int(other)
            except ValueError:
                return [(st, isinstance(op, _ast.NotEq))]
        else:
            return [(st, isinstance(op, _ast.NotEq))]
        if isinstance(op, (_ast.Eq, _ast.NotEq)):
            r = E.num_cmp(_ast.Eq(), self.term, o)
            return [(st, r if isinstance(op, _ast.Eq) else z_not(r))]
        raise OutOfReach("ordering of int strings")

    def pyvc_isinstance(self, t):
        return t in (str, object)

    def pyvc_int(self, E, st, node):
        return self.term

    def pyvc_float(self, E, st, node):
        return z3.ToReal(self.term) if z3.is_int(self.term) else self.term

    def pyvc_truth(self, E, st):
        return [(st, True)]

    def pyvc_contains(self, E, item, st):
        if isinstance(item, str) and item and any(c not in "0123456789-" for c in item):
            return [(st, False)]
        raise OutOfReach("membership test on an int string")

    def pyvc_binop(self, E, op, other, st, swapped):
        from .strings import Text
        return Text([self]).pyvc_binop(E, op, other, st, swapped)

    def pyvc_attr(self, E, name, st):
        from .strings import Text
        return Text([self]).pyvc_attr(E, name, st)


class SymNS:
    """A small namespace object with (symbolic) attributes."""

    def __init__(self, attrs):
        self.attrs = attrs

    def pyvc_attr(self, E, name, st):
        return [(st, self.attrs[name])]


class _NotImpl:
    def __repr__(self):
        return "NotImplemented"


NOTIMPL = _NotImpl()


class ExcVal:
    def __init__(self, cls_name, mro_names, node=None):
        self.cls_name = cls_name
        self.mro_names = mro_names   # names of all base classes incl. self
        self.node = node

    def isa(self, name):
        return name in self.mro_names

    def __repr__(self):
        return "Exc(%s)" % self.cls_name


# ---------------------------------------------------------------- numerics

def is_z3(v):
    return isinstance(v, z3.ExprRef)


def is_bool(v):
    return isinstance(v, bool) or (is_z3(v) and z3.is_bool(v))


def is_num(v):
    if isinstance(v, bool):
        return False
    if isinstance(v, (int, float)):
        return True
    return is_z3(v) and (z3.is_int(v) or z3.is_real(v))


def is_real(v):
    return isinstance(v, float) or (is_z3(v) and z3.is_real(v))


def is_sym(v):
    return is_z3(v)


def zn(v):
    """Lift a number to z3."""
    if is_z3(v):
        return v
    if isinstance(v, bool):
        return z3.IntVal(1 if v else 0)
    if isinstance(v, int):
        return z3.IntVal(v)
    if isinstance(v, float):
        fr = fractions.Fraction(v)
        return z3.RealVal(fr)
    raise OutOfReach("not a number: %r" % (v,))


def zb(v):
    if isinstance(v, bool):
        return z3.BoolVal(v)
    if is_z3(v) and z3.is_bool(v):
        return v
    raise OutOfReach("not a bool: %r" % (v,))


def coerce2(a, b):
    """Return z3 terms of a common arithmetic sort."""
    za, zb_ = zn(a), zn(b)
    if z3.is_real(za) and not z3.is_real(zb_):
        zb_ = z3.ToReal(zb_)
    elif z3.is_real(zb_) and not z3.is_real(za):
        za = z3.ToReal(za)
    return za, zb_


def simp(t):
    if is_z3(t):
        t = z3.simplify(t)
        if z3.is_true(t):
            return True
        if z3.is_false(t):
            return False
        if z3.is_int_value(t):
            return t.as_long()
    return t


def z_and(*xs):
    out = []
    for x in xs:
        if x is True:
            continue
        if x is False:
            return False
        out.append(zb(x))
    if not out:
        return True
    if len(out) == 1:
        return out[0]
    return z3.And(*out)


def z_or(*xs):
    out = []
    for x in xs:
        if x is False:
            continue
        if x is True:
            return True
        out.append(zb(x))
    if not out:
        return False
    if len(out) == 1:
        return out[0]
    return z3.Or(*out)


def z_not(x):
    if isinstance(x, bool):
        return not x
    return z3.Not(zb(x))


def z_implies(a, b):
    return z_or(z_not(a), b)


def trunc_int(x):
    """Python int(x) for a number."""
    if isinstance(x, (int, float)) and not isinstance(x, bool):
        return int(x)
    if isinstance(x, bool):
        return int(x)
    if z3.is_int(x):
        return x
    return z3.If(x >= 0, z3.ToInt(x), -z3.ToInt(-x))


def floor_int(x):
    if isinstance(x, (int, float)):
        import math
        return math.floor(x)
    if z3.is_int(x):
        return x
    return z3.ToInt(x)


def py_floordiv(a, b):
    if not is_z3(a) and not is_z3(b):
        return a // b
    za, zb_ = coerce2(a, b)
    if z3.is_real(za):
        # float floor division: result is float(floor(a / b))
        return z3.ToReal(z3.ToInt(za / zb_))
    if not is_z3(b):
        if b > 0:
            return za / zb_
        if b < 0:
            return (-za) / z3.IntVal(-b)
        raise OutOfReach("division by literal zero")
    return z3.If(zb_ > 0, za / zb_, (-za) / (-zb_))


def py_mod(a, b):
    if not is_z3(a) and not is_z3(b):
        return a % b
    za, zb_ = coerce2(a, b)
    q = py_floordiv(a, b)
    if z3.is_real(za):
        return za - zb_ * q
    if not is_z3(b) and b > 0:
        return za % zb_
    return za - zb_ * q


def z_abs(x):
    if not is_z3(x):
        return abs(x)
    return z3.If(x >= 0, x, -x)


def z_isint(x):
    if isinstance(x, bool):
        return True
    if isinstance(x, int):
        return True
    if isinstance(x, float):
        return x == int(x)
    if z3.is_int(x):
        return True
    return z3.IsInt(x)
