"""Frame (ownership) obligations over the real AST (DESIGN.md section 5, C16).

A small flow-sensitive abstract interpretation per function.  Abstract values:
  F   an object allocated during this activation (fresh) - may be written
  N   an object that existed before the call (self, a parameter, a global, a
      cached/shared container, or anything reachable from them) - must NOT be written
  V   an immutable value (number, string, tuple, None, bool)
  U   unknown reference (a store through it is UNDECIDED, never ignored)
Function summaries give the freshness of the returned object:
  'F' always fresh | 'R' the receiver itself or a fresh object (to_days, ...)
  'N' may return a pre-existing object other than the receiver | 'V' a value
Summaries are computed from the bodies by fixpoint.

Obligations (named), for every function of the package that handles the four
value classes:
  frame[f].store(<target>@line)        attribute store / setattr / augmented
                                       store targets F, or self inside a function
                                       whose contract says `modifies self`
  frame[f].mutator-call(<m>@line)      a call to a `modifies self` method has an
                                       F receiver (or self inside such a function)
  frame[f].container(<op>@line)        in-place container mutation targets F
"""
import ast

MODIFIES_SELF = {"data:TimePoint._tick_over", "data:TimePoint._tick_over_day_of_month",
                 "data:Calendar.set_mode", "data:Calendar.__init__"}
VALUE_CLASSES = ("TimePoint", "Duration", "TimeZone", "TimeRecurrence")
MUTATORS = ("append", "extend", "remove", "pop", "update", "setdefault", "insert",
            "clear", "sort", "reverse", "popitem", "add", "discard")
ALLOWED_GLOBAL_STORES = {("data:TimePoint.__str__", "TIMEPOINT_DUMPER_MAP")}
ALLOWED_STORES = {("data:Calendar.default", "cls._DEFAULT")}   # singleton creation
F, N, V, U, R = "F", "N", "V", "U", "R"


def join(a, b):
    if a == b:
        return a
    if a is None:
        return b
    if b is None:
        return a
    order = {V: 0, F: 1, R: 2, U: 3, N: 4}
    return a if order[a] >= order[b] else b


class Frames:
    def __init__(self, db):
        self.db = db
        self.summary = {}
        self.scope = [k for k, fi in sorted(db.funcs.items())
                      if not k.startswith("ghost:") and self.in_scope(fi)]
        for k in self.scope:
            self.summary[k] = V
        for _ in range(6):
            changed = False
            for k in self.scope:
                s = self.analyse(self.db.funcs[k], collect=False)
                if s != self.summary[k]:
                    self.summary[k] = s
                    changed = True
            if not changed:
                break

    def in_scope(self, fi):
        if fi.module in ("data", "dumpers"):
            return True
        return False

    def is_modifies_self(self, fi):
        return fi.key in MODIFIES_SELF or fi.qualname.endswith(".__init__")

    # ------------------------------------------------------------ one function
    def analyse(self, fi, collect=True):
        self.fi = fi
        self.obls = []
        self.collect = collect
        self.ret = None
        env = {}
        args = fi.node.args
        for a in args.args + args.kwonlyargs:
            env[a.arg] = N
        if args.vararg:
            env[args.vararg.arg] = V
        if args.kwarg:
            env[args.kwarg.arg] = F
        if fi.cls is not None and args.args and not fi.is_static:
            env[args.args[0].arg] = "SELF"
        self.block(fi.node.body, env)
        r = self.ret if self.ret is not None else V
        return r

    def val(self, e, env):
        if e is None:
            return V
        if isinstance(e, ast.Constant) or isinstance(e, (ast.JoinedStr, ast.Compare,
                                                           ast.BoolOp, ast.UnaryOp)):
            if isinstance(e, ast.BoolOp):
                v = None
                for x in e.values:
                    v = join(v, self.val(x, env))
                return v
            return V
        if isinstance(e, ast.Name):
            v = env.get(e.id)
            if v is None:
                return N if e.id[:1].isupper() or e.id.isupper() else V \
                    if e.id in ("None", "True", "False") else N
            return v
        if isinstance(e, (ast.List, ast.Dict, ast.Set, ast.ListComp, ast.DictComp,
                          ast.SetComp)):
            return F
        if isinstance(e, (ast.Tuple, ast.GeneratorExp)):
            return V
        if isinstance(e, ast.IfExp):
            return join(self.val(e.body, env), self.val(e.orelse, env))
        if isinstance(e, ast.Attribute):
            b = self.val(e.value, env)
            if b == "SELF" and self.fi.qualname.endswith(".__init__"):
                return F          # sub-objects of the object under construction
            # an attribute of anything is a pre-existing (shared) object or a value;
            # sub-objects of a fresh object are shared unless copied: treat as N,
            # except that numbers/strings are immutable anyway (writes are what matter)
            return N if b in (N, "SELF", U, R) else (N if b == F else V)
        if isinstance(e, ast.Subscript):
            if self.fi.qualname.endswith(".__init__") and self.val(e.value, env) == F:
                return F
            return N
        if isinstance(e, ast.BinOp):
            l, r = self.val(e.left, env), self.val(e.right, env)
            if V == l and V == r:
                return V
            # operator on a value object: result freshness per the dunder summary
            names = {ast.Add: "__add__", ast.Sub: "__sub__", ast.Mult: "__mul__",
                     ast.FloorDiv: "__floordiv__"}.get(type(e.op))
            if names is None:
                return V
            out = None
            for k in self.scope:
                if k.endswith("." + names) or k.endswith(".__r" + names[2:]):
                    s = self.summary.get(k, V)
                    out = join(out, F if s in (F, V) else (
                        join(self.recv(l), self.recv(r)) if s == R else N))
            return out or V
        if isinstance(e, ast.Call):
            return self.call(e, env)
        if isinstance(e, ast.Starred):
            return self.val(e.value, env)
        return U

    def recv(self, v):
        return N if v == "SELF" else v

    def call(self, e, env):
        f = e.func
        for a in e.args:
            self.val(a, env)
        if isinstance(f, ast.Name):
            if f.id in ("list", "dict", "set"):
                return F
            if f.id in ("tuple", "int", "float", "str", "len", "abs", "hash", "bool",
                        "isinstance", "getattr", "callable", "divmod", "min", "max",
                        "sum", "range", "enumerate", "reversed", "floor", "any", "all",
                        "repr", "type", "sorted", "zip", "hasattr"):
                if f.id == "getattr":
                    return N
                return V
            if f.id == "setattr":
                tgt = self.val(e.args[0], env)
                self.need_fresh(tgt, "setattr(%s, ...)" % ast.unparse(e.args[0]),
                                e.lineno, "store")
                return V
            ci = self.db.class_by_name.get(f.id)
            if ci is not None:
                return F
            ent = self.db.module_names.get(self.fi.module, {}).get(f.id)
            if ent and ent[0] == "func":
                k = ent[1].key
                if any("lru_cache" in d for d in ent[1].decorators):
                    return N if self.summary.get(k, V) != V else V
                s = self.summary.get(k, V)
                return {R: N}.get(s, s)
            return V
        if isinstance(f, ast.Attribute):
            rv = self.val(f.value, env)
            name = f.attr
            src = ast.unparse(f)
            if name == "__class__" or src.endswith(".__class__"):
                return F
            if isinstance(f.value, ast.Attribute) and f.value.attr == "__class__":
                return F      # self.__class__(...)
            if name in MUTATORS:
                # in-place mutation of a container
                if rv != V:
                    self.need_fresh(rv, "%s.%s()" % (ast.unparse(f.value), name),
                                    e.lineno, "container")
                return V
            if name == "_copy":
                return F
            # method call: summaries of every package method of that name
            out = None
            matched = False
            for k in self.scope:
                fi2 = self.db.funcs[k]
                if fi2.cls is not None and fi2.qualname.endswith("." + name):
                    matched = True
                    if k in MODIFIES_SELF and not fi2.qualname.endswith("__init__"):
                        self.need_fresh(rv, "%s.%s()" % (ast.unparse(f.value), name),
                                        e.lineno, "mutator-call")
                    s = self.summary.get(k, V)
                    out = join(out, self.recv(rv) if s == R else s)
            if not matched:
                # module.function(...) or external
                k2 = ast.unparse(f.value) + ":" + name
                if k2 in self.summary:
                    s = self.summary[k2]
                    return N if s == R else s
                ci = self.db.class_by_name.get(name)
                if ci is not None:
                    return F
                return V
            return out if out is not None else V
        return U

    def need_fresh(self, v, what, line, kind):
        ok = v == F or (v == "SELF" and self.is_modifies_self(self.fi))
        if v == "SELF" and self.fi.cls is not None and \
                self.fi.cls.name not in VALUE_CLASSES + ("Calendar",):
            ok = True     # a helper object's own state (dumper, parser): not a value
        if (self.fi.key, what.split("[")[0].split(" ")[0]) in ALLOWED_STORES:
            ok = True
        if v == U:
            ok = None
        if self.collect:
            self.obls.append(("frame[%s].%s(%s@%d)" % (self.fi.key, kind, what, line),
                              ok, "target is %s" % {
                                  F: "fresh", N: "a pre-existing object", "SELF": "self",
                                  U: "an unknown reference", V: "a value", R: "self-or-fresh"
                              }.get(v, v)))

    def assign(self, tgt, v, env, line):
        if isinstance(tgt, ast.Name):
            env[tgt.id] = v
        elif isinstance(tgt, (ast.Tuple, ast.List)):
            for t in tgt.elts:
                self.assign(t, N if v in (N, "SELF", R, U) else V if v == V else N,
                            env, line)
        elif isinstance(tgt, ast.Attribute):
            b = self.val(tgt.value, env)
            self.need_fresh(b, "%s.%s" % (ast.unparse(tgt.value), tgt.attr), line, "store")
        elif isinstance(tgt, ast.Subscript):
            b = self.val(tgt.value, env)
            base = ast.unparse(tgt.value)
            if (self.fi.key, base) in ALLOWED_GLOBAL_STORES:
                return
            self.need_fresh(b, "%s[...]" % base, line, "container")

    def block(self, stmts, env):
        for st in stmts:
            self.stmt(st, env)

    def stmt(self, st, env):
        if isinstance(st, ast.Assign):
            v = self.val(st.value, env)
            # tuple unpacking of a tuple display keeps element-wise values
            for t in st.targets:
                if isinstance(t, (ast.Tuple, ast.List)) and isinstance(
                        st.value, (ast.Tuple, ast.List)) and len(t.elts) == len(st.value.elts):
                    for tt, vv in zip(t.elts, st.value.elts):
                        self.assign(tt, self.val(vv, env), env, st.lineno)
                else:
                    self.assign(t, v, env, st.lineno)
        elif isinstance(st, ast.AugAssign):
            self.val(st.value, env)
            if isinstance(st.target, ast.Name):
                cur = env.get(st.target.id, V)
                rhs_list = isinstance(st.value, (ast.List, ast.ListComp)) or (
                    isinstance(st.value, ast.Name) and env.get(st.value.id) == F)
                if rhs_list and cur not in (V, F, None):
                    # lst += [...] mutates lst in place
                    self.need_fresh(cur, "%s (augmented)" % st.target.id,
                                    st.lineno, "container")
            else:
                self.assign(st.target, V, env, st.lineno)
        elif isinstance(st, ast.AnnAssign):
            if st.value is not None:
                self.assign(st.target, self.val(st.value, env), env, st.lineno)
        elif isinstance(st, ast.Expr):
            self.val(st.value, env)
        elif isinstance(st, ast.Return):
            v = self.val(st.value, env) if st.value is not None else V
            if v == "SELF":
                v = R
            self.ret = join(self.ret, v)
        elif isinstance(st, ast.If):
            self.val(st.test, env)
            e1, e2 = dict(env), dict(env)
            self.block(st.body, e1)
            self.block(st.orelse, e2)
            for k in set(e1) | set(e2):
                env[k] = join(e1.get(k), e2.get(k))
        elif isinstance(st, (ast.For, ast.While)):
            if isinstance(st, ast.For):
                self.val(st.iter, env)
                self.assign(st.target, N, env, st.lineno)
            else:
                self.val(st.test, env)
            for _ in range(2):
                e1 = dict(env)
                self.block(st.body, e1)
                for k in set(e1) | set(env):
                    env[k] = join(e1.get(k), env.get(k))
            self.block(st.orelse, env)
        elif isinstance(st, ast.Try):
            self.block(st.body, env)
            for h in st.handlers:
                e1 = dict(env)
                self.block(h.body, e1)
                for k in set(e1) | set(env):
                    env[k] = join(e1.get(k), env.get(k))
            self.block(st.orelse, env)
            self.block(st.finalbody, env)
        elif isinstance(st, ast.With):
            self.block(st.body, env)
        elif isinstance(st, (ast.Raise, ast.Pass, ast.Break, ast.Continue, ast.Import,
                             ast.ImportFrom, ast.Global, ast.Assert, ast.Delete)):
            if isinstance(st, ast.Delete):
                for t in st.targets:
                    if isinstance(t, ast.Attribute):
                        self.need_fresh(self.val(t.value, env), ast.unparse(t),
                                        st.lineno, "store")

    # ------------------------------------------------------------ all obligations
    def obligations(self):
        out = []
        for k in self.scope:
            fi = self.db.funcs[k]
            self.analyse(fi, collect=True)
            seen = set()
            for o in self.obls:
                # loops are analysed twice: keep the weakest verdict per name
                if o[0] in seen:
                    continue
                seen.add(o[0])
                worst = o
                for p in self.obls:
                    if p[0] == o[0] and p[1] is not True:
                        worst = p
                out.append(worst)
        # generators that yield shared state are fine (iteration reads only)
        return out
