"""Statement execution: paths, merging, loops with invariants, exceptions."""
import ast
import z3

from .values import *   # noqa
from .state import State, vite, merge_states


class StmtMixin:

    # outcome tuple: (env, state, signal, value); signal in
    # fall | return | raise | break | continue

    def exec_block(self, stmts, env, st):
        outs = [(env, st, "fall", None)]
        for stmt in stmts:
            nxt = []
            for (en, s, sig, v) in outs:
                if sig != "fall":
                    nxt.append((en, s, sig, v))
                    continue
                nxt += self.exec_stmt(stmt, en, s)
            outs = nxt
            if self.cur_contract is not None and self.cur_contract.cuts and \
                    self.frame_func is self.cur_func and self.depth == 0:
                outs = self.apply_cuts(stmt, outs)
            if len([o for o in outs if o[2] == "fall"]) > self.max_paths:
                raise OutOfReach("path explosion (%d paths) in %s at line %d" % (
                    len(outs), self.cur_name, stmt.lineno))
        return outs

    def apply_cuts(self, stmt, outs):
        """Hint assertions (contract.cuts): after the statement whose source
        starts with the given text, prove the assertion on every fall-through
        path and keep it as a fact (an `assert` in the sidecar, not in /repo)."""
        src = None
        for k, (pattern, texts) in enumerate(self.cur_contract.cuts):
            if src is None:
                src = ast.unparse(stmt)
            if not src.startswith(pattern):
                continue
            for (en, s, sig, v) in outs:
                if sig != "fall":
                    continue
                for j, t in enumerate(texts):
                    (s_, val) = self.ev1(self.parse(t), en, s)
                    (s_, b), = self.truth(val, s)
                    self.oblige("%s.cut[%d.%d]#%s" % (self.cur_name, k, j,
                                                     self.path_tag(s)), s, b, kind="cut")
                    s.assume(b)
        return outs

    def exec_stmt(self, stmt, env, st):
        m = getattr(self, "s_" + type(stmt).__name__, None)
        if m is None:
            raise OutOfReach("statement " + type(stmt).__name__)
        saved = self.pending
        self.pending = []
        try:
            outs = m(stmt, dict(env), st)
            raised = self.pending
        finally:
            self.pending = saved
        for (rs, exc) in raised:
            outs.append((env, rs, "raise", exc))
        return outs

    # ------------------------------------------------------------ simple
    def s_Expr(self, stmt, env, st):
        if isinstance(stmt.value, ast.Constant):
            return [(env, st, "fall", None)]
        if isinstance(stmt.value, (ast.Yield,)):
            outs = []
            for (s, v) in self.ev(stmt.value.value, env, st):
                s.ghost.setdefault("yielded", [])
                s.ghost["yielded"] = s.ghost["yielded"] + [v]
                if self.on_yield is not None:
                    self.on_yield(self, s, env, v)
                outs.append((env, s, "fall", None))
            return outs
        return [(env, s, "fall", None) for (s, v) in self.ev(stmt.value, env, st)]

    def s_Pass(self, stmt, env, st):
        return [(env, st, "fall", None)]

    def s_Import(self, stmt, env, st):
        import importlib
        for a in stmt.names:
            env[a.asname or a.name.split(".")[0]] = self.wrap_real(
                importlib.import_module(a.name.split(".")[0] if not a.asname else a.name))
        return [(env, st, "fall", None)]

    def s_ImportFrom(self, stmt, env, st):
        import importlib
        mod = stmt.module or ""
        if stmt.level:
            base = "metomi.isodatetime"
            full = base + ("." + mod if mod else "")
        else:
            full = mod
        m = importlib.import_module(full)
        for a in stmt.names:
            try:
                v = getattr(m, a.name)
            except AttributeError:
                v = importlib.import_module(full + "." + a.name)
            env[a.asname or a.name] = self.wrap_real(v)
        return [(env, st, "fall", None)]

    def s_Return(self, stmt, env, st):
        if stmt.value is None:
            return [(env, st, "return", None)]
        return [(env, s, "return", v) for (s, v) in self.ev(stmt.value, env, st)]

    def s_Break(self, stmt, env, st):
        return [(env, st, "break", None)]

    def s_Continue(self, stmt, env, st):
        return [(env, st, "continue", None)]

    def s_Raise(self, stmt, env, st):
        if stmt.exc is None:
            exc = env.get("__active_exc__")
            if exc is None:
                raise OutOfReach("bare raise outside handler")
            return [(env, st, "raise", exc)]
        e = stmt.exc
        # the class is modelled, the message arguments are not evaluated
        cls_expr = e.func if isinstance(e, ast.Call) else e
        (s, c) = self.ev1(cls_expr, env, st)
        if isinstance(c, ClassRef):
            exc = self.mk_exc(c.info.name, stmt)
        elif isinstance(c, ExtClass):
            exc = self.mk_exc(c.real.__name__, stmt)
        elif isinstance(c, ExcVal):
            exc = c
        else:
            raise OutOfReach("raise of %r" % (c,))
        return [(env, s, "raise", exc)]

    def s_Assert(self, stmt, env, st):
        outs = []
        for (s, c) in self.ev_cond(stmt.test, env, st):
            self.oblige("%s.assert@%d" % (self.cur_name, stmt.lineno), s, c,
                        kind="assert")
            s.assume(c)
            outs.append((env, s, "fall", None))
        return outs

    # ------------------------------------------------------------ assignment
    def assign_target(self, tgt, v, env, st, node=None):
        if isinstance(tgt, ast.Name):
            env[tgt.id] = v
        elif isinstance(tgt, (ast.Tuple, ast.List)):
            if isinstance(v, tuple):
                items = list(v)
            else:
                items = self.iter_concrete(v, st)
            if len(items) != len(tgt.elts):
                raise OutOfReach("unpack length mismatch")
            for t, x in zip(tgt.elts, items):
                self.assign_target(t, x, env, st, node)
        elif isinstance(tgt, ast.Attribute):
            (s, o) = self.ev1(tgt.value, env, st)
            self.store_attr(o, tgt.attr, v, st, tgt)
        elif isinstance(tgt, ast.Subscript):
            (s, o) = self.ev1(tgt.value, env, st)
            (s, k) = self.ev1(tgt.slice, env, st)
            if self.is_dict(o, st):
                if is_z3(k):
                    raise OutOfReach("symbolic dict key store")
                self._mut(o, st, tgt).d[k] = v
            elif self.is_list(o, st):
                if is_z3(k):
                    raise OutOfReach("symbolic list index store")
                self._mut(o, st, tgt).items[k] = v
            elif isinstance(o, RealObj):
                self.oblige("%s.frame[store-into-global@%d]" % (
                    self.cur_name, tgt.lineno), st,
                    (id(o.obj) in self.allowed_global_stores), kind="frame")
            else:
                raise OutOfReach("subscript store")
        else:
            raise OutOfReach("assignment target " + type(tgt).__name__)

    def store_attr(self, o, name, v, st, node=None):
        if isinstance(o, Ref) and st.obj(o).kind == "obj":
            h = st.obj(o)
            if self.check_frames and not h.fresh and not self.cur_modifies_self(o):
                self.oblige("%s.frame[store %s@%s]" % (
                    self.cur_name, name, getattr(node, "lineno", "?")),
                    st, False, kind="frame")
            h.slots[name] = v
            return
        if isinstance(o, RealObj) and self.model_calendar:
            self.sym_globals[(id(o.obj), name)] = v
            self.global_writes.append((name, v))
            return
        raise OutOfReach("attribute store on %r" % type(o).__name__)

    def s_Assign(self, stmt, env, st):
        outs = []
        for (s, v) in self.ev(stmt.value, env, st):
            en = dict(env)
            for t in stmt.targets:
                self.assign_target(t, v, en, s, stmt)
            outs.append((en, s, "fall", None))
        return outs

    def s_AnnAssign(self, stmt, env, st):
        if stmt.value is None:
            return [(env, st, "fall", None)]
        outs = []
        for (s, v) in self.ev(stmt.value, env, st):
            en = dict(env)
            self.assign_target(stmt.target, v, en, s, stmt)
            outs.append((en, s, "fall", None))
        return outs

    def s_AugAssign(self, stmt, env, st):
        import copy
        lhs = copy.deepcopy(stmt.target)
        for n in ast.walk(lhs):
            if hasattr(n, "ctx"):
                n.ctx = ast.Load()
        outs = []
        for (s, (a, b)) in [(s, tuple(v)) for (s, v) in
                            self.ev_seq([lhs, stmt.value], env, st)]:
            if self.is_list(a, s) and isinstance(stmt.op, ast.Add):
                self._mut(a, s, stmt).items.extend(self.iter_concrete(b, s))
                outs.append((dict(env), s, "fall", None))
                continue
            for (s2, r) in self.binop(stmt.op, a, b, s, stmt):
                en = dict(env)
                self.assign_target(stmt.target, r, en, s2, stmt)
                outs.append((en, s2, "fall", None))
        return outs

    # ------------------------------------------------------------ if
    def s_If(self, stmt, env, st):
        outs = []
        for (s, c) in self.ev_cond(stmt.test, env, st):
            c = simp(c)
            if isinstance(c, bool):
                outs += self.exec_block(stmt.body if c else stmt.orelse, env, s)
                continue
            n0 = len(s.pc)
            ft = self.feasible(s.pc, c)
            fe = self.feasible(s.pc, z3.Not(c))
            ot, oe = [], []
            if ft:
                s1 = s.fork() if fe else s
                s1.assume(c)
                s1.trace.append((stmt.lineno, True))
                ot = self.exec_block(stmt.body, dict(env), s1)
            if fe:
                s2 = s
                if ft:
                    s2 = s.fork()
                    # s1 was forked from s before assume
                s2.pc = s2.pc[:n0] + [z3.Not(c)]
                s2.trace.append((stmt.lineno, False))
                oe = self.exec_block(stmt.orelse, dict(env), s2)
            outs += self.join(c, ot, oe, n0)
        return outs

    def join(self, c, ot, oe, n0):
        if not self.merge:
            return ot + oe
        ft = [o for o in ot if o[2] == "fall"]
        fe = [o for o in oe if o[2] == "fall"]
        rest = [o for o in ot + oe if o[2] != "fall"]
        if len(ft) == 1 and len(fe) == 1:
            m = merge_states(c, ft[0][0], ft[0][1], fe[0][0], fe[0][1], n0)
            if m is not None:
                self.stats["merges"] += 1
                return [(m[0], m[1], "fall", None)] + rest
        # merge returns with equal-shaped values as well (keeps callers small)
        return ft + fe + rest

    # ------------------------------------------------------------ try
    def s_Try(self, stmt, env, st):
        if stmt.finalbody:
            raise OutOfReach("try/finally")
        outs = []
        for (en, s, sig, v) in self.exec_block(stmt.body, env, st):
            if sig == "raise":
                handled = False
                for h in stmt.handlers:
                    if self.handler_matches(h, v, en, s):
                        en2 = dict(en)
                        if h.name:
                            en2[h.name] = v
                        en2["__active_exc__"] = v
                        for o in self.exec_block(h.body, en2, s):
                            e3 = dict(o[0])
                            e3.pop("__active_exc__", None)
                            outs.append((e3, o[1], o[2], o[3]))
                        handled = True
                        break
                if not handled:
                    outs.append((en, s, sig, v))
            elif sig == "fall":
                outs += self.exec_block(stmt.orelse, en, s)
            else:
                outs.append((en, s, sig, v))
        return outs

    def handler_matches(self, h, exc, env, st):
        if h.type is None:
            return True
        (s, c) = self.ev1(h.type, env, st)
        cs = c if isinstance(c, tuple) else (c,)
        for k in cs:
            if isinstance(k, ClassRef):
                nm = k.info.name
            elif isinstance(k, ExtClass):
                nm = k.real.__name__
            else:
                raise OutOfReach("except clause %r" % (k,))
            if exc.isa(nm):
                return True
        return False

    # ------------------------------------------------------------ loops
    def loop_spec(self, node):
        fi = self.frame_func
        if fi is None:
            return None, None
        c = self.contracts.get(fi.key)
        try:
            n = fi.loop_ordinal(node)
        except ValueError:
            return None, None
        if c is None:
            return None, n
        return c.loops.get(n), n

    def assigned_names(self, stmts, target=None):
        names, attrs, calls = set(), set(), []
        mod = ast.Module(body=list(stmts), type_ignores=[])
        for n in ast.walk(mod):
            if isinstance(n, ast.Name) and isinstance(n.ctx, ast.Store):
                names.add(n.id)
            elif isinstance(n, ast.Attribute) and isinstance(n.ctx, ast.Store):
                attrs.add((ast.unparse(n.value), n.attr))
            elif isinstance(n, ast.Call):
                calls.append(n)
        if target is not None:
            for n in ast.walk(target):
                if isinstance(n, ast.Name):
                    names.add(n.id)
        return names, attrs, calls

    def fresh_like(self, v, tag):
        """A fresh symbol of the same shape as v."""
        self.fresh_n += 1
        nm = "%s!%d" % (tag, self.fresh_n)
        if v is None or isinstance(v, (str, Ref)):
            return v
        if isinstance(v, bool) or (is_z3(v) and z3.is_bool(v)):
            return z3.Bool(nm)
        if isinstance(v, float) or (is_z3(v) and z3.is_real(v)):
            return z3.Real(nm)
        if isinstance(v, int) or (is_z3(v) and z3.is_int(v)):
            return z3.Int(nm)
        if isinstance(v, tuple):
            return tuple(self.fresh_like(x, tag + "_%d" % i) for i, x in enumerate(v))
        return v

    def havoc_loop(self, stmts, env, st, spec, target=None, tag="h"):
        names, attrs, calls = self.assigned_names(stmts, target)
        shapes = (spec.shapes if spec is not None else None) or {}
        for n in names:
            if n in shapes:
                env[n] = self.fresh_like(shapes[n], tag + "_" + n)
            elif n in env:
                env[n] = self.fresh_like(env[n], tag + "_" + n)
        for (base, attr) in attrs:
            try:
                (s_, o) = self.ev1(ast.parse(base, mode="eval").body, env, st)
            except (OutOfReach, KeyError):
                continue
            if isinstance(o, Ref) and st.obj(o).kind == "obj":
                h = st.obj(o)
                if attr in h.slots:
                    h.slots[attr] = self.fresh_like(h.slots[attr], "%s_%s.%s" % (tag, base, attr))
        # receivers of calls to functions whose contract modifies self
        for c in calls:
            if isinstance(c.func, ast.Attribute):
                mname = c.func.attr
                try:
                    (s_, o) = self.ev1(c.func.value, env, st)
                except Exception:
                    continue
                if isinstance(o, Ref) and st.obj(o).kind == "obj":
                    fi = st.obj(o).cls.find_method(mname)
                    cc = self.contracts.get(fi.key) if fi else None
                    if cc is not None and cc.modifies_self:
                        h = st.obj(o)
                        for k in list(h.slots):
                            if cc.mod_slots is None or k in cc.mod_slots:
                                h.slots[k] = self.fresh_like(
                                    h.slots[k], "%s_%s.%s" % (tag, ast.unparse(c.func.value), k))
        if spec is not None and spec.havoc is not None:
            spec.havoc(self, st, env, tag)

    def inv_holds(self, spec, env, st, extra=None):
        """Evaluate the conjunction of the loop invariant clauses."""
        acc = []
        env2 = dict(env)
        if extra:
            env2.update(extra)
        for t in spec.invariant:
            (s_, v) = self.ev1(self.parse(t), env2, st)
            (s_, b), = self.truth(v, st)
            acc.append(b)
        return acc

    def s_While(self, stmt, env, st):
        spec, n = self.loop_spec(stmt)
        if spec is None:
            raise OutOfReach("while loop %s.loop[%s] has no invariant" % (
                self.frame_func.key if self.frame_func else "?", n))
        name = "%s.loop[%d]" % (self.loop_owner(), n)
        if self.guard_concretely_false(stmt.test, env, st):
            return self.exec_block(stmt.orelse, env, st)     # never entered
        self.entry_stack.append((dict(env), {k: h.copy() for k, h in st.heap.items()}))
        try:
            res = []
            if spec.peel:
                # the loop is entered (obligation); the first iteration runs
                # from the entry state; the invariant must hold after it
                heads = []
                for (sg, g) in self.ev_cond(stmt.test, env, st.fork()):
                    self.oblige("%s.entered" % name, sg, g, kind="loop-init")
                    sg.assume(g)
                    for (e2, s2, sig, v) in self.exec_block(stmt.body, dict(env), sg):
                        if sig in ("fall", "continue"):
                            for i, b in enumerate(self.inv_holds(spec, e2, s2)):
                                self.oblige("%s.init[%d]" % (name, i), s2, b,
                                            kind="loop-init")
                            heads.append((e2, s2))
                        elif sig == "break":
                            res.append((e2, s2, "fall", None))
                        else:
                            res.append((e2, s2, sig, v))
                if not heads:
                    return res
                env, st = heads[0][0], heads[0][1]
            else:
                for i, b in enumerate(self.inv_holds(spec, env, st)):
                    self.oblige("%s.init[%d]" % (name, i), st, b, kind="loop-init")
            # --- arbitrary iteration
            en = dict(env)
            s = st.fork()
            self.havoc_loop(stmt.body, en, s, spec, tag="w%d" % n)
            for b in self.inv_holds(spec, en, s):
                s.assume(b)
            s_exit = s.fork()
            en_exit = dict(en)
            for (sg, g) in self.ev_cond(stmt.test, en, s):
                sg.assume(g)
                if not self.feasible(sg.pc):
                    self.stats["vacuous_loop_bodies"].append(name)
                    continue
                v0 = None
                if spec.decreases is not None and not getattr(self, "partial", False):
                    (s_, v0) = self.ev1(self.parse(spec.decreases), en, sg)
                for (e2, s2, sig, v) in self.exec_block(stmt.body, en, sg):
                    if sig in ("fall", "continue") and self.guard_concretely_false(
                            stmt.test, e2, s2):
                        # the loop test is false in this very state (e.g. the loop
                        # variable became None): the path leaves the loop here
                        res += self.exec_block(stmt.orelse, e2, s2)
                        continue
                    if sig in ("fall", "continue"):
                        for i, b in enumerate(self.inv_holds(spec, e2, s2)):
                            self.oblige("%s.preserve[%d]" % (name, i), s2, b,
                                        kind="loop-preserve")
                        if v0 is not None:
                            (s_, v1) = self.ev1(self.parse(spec.decreases), e2, s2)
                            self.oblige("%s.decreases" % name, s2,
                                        z_and(self.num_cmp(ast.GtE(), v0, 0),
                                              self.num_cmp(ast.Lt(), v1, v0)),
                                        kind="loop-variant")
                    elif sig == "break":
                        res.append((e2, s2, "fall", None))
                    else:
                        res.append((e2, s2, sig, v))
            # --- exit
            for (sx, g) in self.ev_cond(stmt.test, en_exit, s_exit):
                sx.assume(z_not(g))
                if self.feasible(sx.pc):
                    res += self.exec_block(stmt.orelse, en_exit, sx)
            return res
        finally:
            self.entry_stack.pop()

    def guard_concretely_false(self, test, env, st):
        """True iff the loop test evaluates to the concrete value False without
        consulting the solver (shape-level decision, e.g. `x is not None`)."""
        try:
            np_ = len(self.pending)
            tmp = st.fork()
            r = self.ev_cond(test, env, tmp)
            if len(self.pending) != np_:
                del self.pending[np_:]
                return False
            return len(r) == 1 and r[0][1] is False
        except OutOfReach:
            return False

    def loop_owner(self):
        if self.frame_func is not None and self.frame_func is not self.cur_func:
            return "%s>%s" % (self.cur_name, self.frame_func.qualname)
        return self.cur_name

    def s_For(self, stmt, env, st):
        outs = []
        for (s, it) in self.ev(stmt.iter, env, st):
            outs += self.for_over(stmt, it, env, s)
        return outs

    def for_over(self, stmt, it, env, st):
        spec, n = self.loop_spec(stmt)
        sym = isinstance(it, SeqC) and (it.n is None or is_z3(it.n) or spec is not None) or (
            isinstance(it, RangeV) and any(is_z3(x) for x in (it.lo, it.hi, it.step)))
        if hasattr(it, "pyvc_for"):
            return it.pyvc_for(self, stmt, env, st, spec, n)
        if not sym:
            return self.for_unrolled(stmt, self.iter_concrete(it, st), env, st, spec, n)
        if isinstance(it, RangeV):
            if it.step != 1:
                raise OutOfReach("symbolic range with step")
            lo, hi = it.lo, it.hi
            cnt = simp(z3.If(zn(hi) - zn(lo) > 0, zn(hi) - zn(lo), z3.IntVal(0)))
            it = SeqC(cnt, lambda k: self.arith(ast.Add(), lo, k, st))
        if spec is None:
            raise OutOfReach("for loop %s.loop[%s] over a symbolic sequence has no invariant" % (
                self.frame_func.key if self.frame_func else "?", n))
        return self.for_invariant(stmt, it, env, st, spec, n)

    def for_unrolled(self, stmt, items, env, st, spec, n):
        outs = [(env, st, "fall", None)]
        name = "%s.loop[%s]" % (self.loop_owner(), n)
        done = []
        for j, item in enumerate(items + [None]):
            last = j == len(items)
            if spec is not None and spec.join is not None:
                outs = self.join_assert(stmt, outs, spec, j, name, env, st)
            if last:
                break
            nxt = []
            for (en, s, sig, v) in outs:
                if sig != "fall":
                    done.append((en, s, sig, v))
                    continue
                en = dict(en)
                self.assign_target(stmt.target, item, en, s, stmt)
                for o in self.exec_block(stmt.body, en, s):
                    if o[2] == "continue":
                        nxt.append((o[0], o[1], "fall", None))
                    else:
                        nxt.append(o)
            outs = nxt
            if len(outs) > self.max_paths:
                raise OutOfReach("path explosion in unrolled loop %s" % name)
        res = []
        for (en, s, sig, v) in outs + done:
            if sig == "fall":
                res += self.exec_block(stmt.orelse, en, s)
            elif sig == "break":
                res.append((en, s, "fall", None))
            else:
                res.append((en, s, sig, v))
        return res

    def join_assert(self, stmt, outs, spec, j, name, env0, st0):
        """Prove the join assertion on every incoming path, then continue from
        ONE state in which the loop-modified variables are havocked and the
        join is assumed (DESIGN 2.4)."""
        falls = [o for o in outs if o[2] == "fall"]
        rest = [o for o in outs if o[2] != "fall"]
        if not falls:
            return outs
        for (en, s, sig, v) in falls:
            (s_, b) = self.ev1(self.parse(spec.join), dict(en, i=j), s)
            (s_, b), = self.truth(b, s)
            self.oblige("%s.join[%d]" % (name, j), s, b, kind="loop-join")
        en, s = dict(falls[0][0]), st0.fork()
        # start again from the loop-entry state (facts before the loop)
        en = dict(env0)
        for k in falls[0][0]:
            if k not in en:
                en[k] = falls[0][0][k]
        self.havoc_loop(stmt.body, en, s, None, target=stmt.target, tag="j%d" % j)
        (s_, b) = self.ev1(self.parse(spec.join), dict(en, i=j), s)
        (s_, b), = self.truth(b, s)
        s.assume(b)
        return [(en, s, "fall", None)] + rest

    def for_invariant(self, stmt, it, env, st, spec, n):
        name = "%s.loop[%d]" % (self.loop_owner(), n)
        idx = spec.index or "i"
        self.fresh_n += 1
        i = z3.Int("%s!%d" % (idx, self.fresh_n))
        self.entry_stack.append((dict(env), {k: h.copy() for k, h in st.heap.items()}))
        try:
            for k, b in enumerate(self.inv_holds(spec, env, st, {idx: 0})):
                self.oblige("%s.init[%d]" % (name, k), st, b, kind="loop-init")
            res = []
            # arbitrary iteration i
            en = dict(env)
            s = st.fork()
            self.havoc_loop(stmt.body, en, s, spec, target=stmt.target, tag="f%d" % n)
            s.assume(i >= 0)
            if it.n is not None:          # None: an unbounded (infinite) sequence
                s.assume(self.num_cmp(ast.Lt(), i, it.n))
            for b in self.inv_holds(spec, en, s, {idx: i}):
                s.assume(b)
            if self.feasible(s.pc):
                ev = it.elem(i, s) if getattr(it, "with_state", False) else it.elem(i)
                self.assign_target(stmt.target, ev, en, s, stmt)
                en[idx + "__loop"] = i
                for (e2, s2, sig, v) in self.exec_block(stmt.body, en, s):
                    if sig in ("fall", "continue"):
                        for k, b in enumerate(self.inv_holds(spec, e2, s2, {idx: i + 1})):
                            self.oblige("%s.preserve[%d]" % (name, k), s2, b,
                                        kind="loop-preserve")
                    elif sig == "break":
                        res.append((e2, s2, "fall", None))
                    else:
                        res.append((e2, s2, sig, v))
            else:
                self.stats["vacuous_loop_bodies"].append(name)
            # exhausted
            if it.n is None:
                return res                # an infinite sequence is never exhausted
            en = dict(env)
            s = st.fork()
            self.havoc_loop(stmt.body, en, s, spec, target=stmt.target, tag="x%d" % n)
            for b in self.inv_holds(spec, en, s, {idx: it.n}):
                s.assume(b)
            # loop variable keeps the last element when n > 0
            npos = self.decide(s, self.num_cmp(ast.Gt(), it.n, 0))
            if npos is True and not getattr(it, "with_state", False):
                self.assign_target(stmt.target, it.elem(
                    self.arith(ast.Sub(), it.n, 1, s)), en, s, stmt)
            if self.feasible(s.pc):
                res += self.exec_block(stmt.orelse, en, s)
            return res
        finally:
            self.entry_stack.pop()

    def s_With(self, stmt, env, st):
        raise OutOfReach("with statement")

    def s_Global(self, stmt, env, st):
        raise OutOfReach("global statement")

    def s_Delete(self, stmt, env, st):
        raise OutOfReach("del statement")

    def s_FunctionDef(self, stmt, env, st):
        raise OutOfReach("nested function")
