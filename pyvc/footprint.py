"""Footprint (reads-set) and memoisation-soundness obligations over the real
AST (DESIGN.md section 5, C15).  Pure `ast`, no solver.

For every function the analysis computes, transitively through the package's
call graph, which MUTABLE state it reads:
  * attributes of the process-wide Calendar singleton that `set_mode` writes,
  * attributes of `self`,
  * the process environment (time.*, os.getenv).
Obligations (each named, each either holds syntactically or is refuted):
  memo[f].key-covers-calendar   an lru_cache'd function whose footprint meets the
                                mode-dependent Calendar state receives
                                `CALENDAR.mode` in a key position at EVERY call site
  memo[f].store-key-covers      a hand-rolled cache store  C[k] = v  into state that
                                outlives the call: every mutable input of the
                                enclosing function is part of k
  calendar.single-writer        no store to a Calendar attribute outside set_mode
  set_mode.history-free         set_mode reads no attribute it has not written
                                earlier in the same call (class constants excepted)
"""
import ast


BUILTIN_METHOD_NAMES = {
    "get", "pop", "update", "items", "keys", "values", "append", "extend", "remove",
    "index", "count", "copy", "format", "split", "rsplit", "strip", "lstrip", "rstrip",
    "join", "replace", "startswith", "endswith", "setdefault", "lower", "upper",
    "splitlines", "match", "search", "sub", "groupdict", "group", "is_integer", "read"}


def unparse(n):
    return ast.unparse(n)


class Analysis:
    def __init__(self, db):
        self.db = db
        self.calendar_written = self._set_mode_writes()
        self.direct = {}
        for key, fi in db.funcs.items():
            if key.startswith("ghost:"):
                continue
            self.direct[key] = self._direct(fi)
        self.trans = {}

    # ------------------------------------------------------------ set_mode
    def _set_mode_writes(self):
        fi = self.db.funcs.get("data:Calendar.set_mode")
        out = set()
        if fi is None:
            return out
        for n in ast.walk(fi.node):
            if isinstance(n, ast.Attribute) and isinstance(n.ctx, ast.Store) and \
                    isinstance(n.value, ast.Name) and n.value.id == "self":
                out.add(n.attr)
        return out

    def set_mode_history_free(self):
        """Reads of self.X in set_mode must follow a write of X in the same
        (straight-line) body, or X is never written by set_mode (constant)."""
        fi = self.db.funcs.get("data:Calendar.set_mode")
        if fi is None:
            return [("set_mode.history-free", False, "Calendar.set_mode not found")]
        written = set()
        bad = []

        def reads(node):
            return [x.attr for x in ast.walk(node)
                    if isinstance(x, ast.Attribute) and isinstance(x.ctx, ast.Load)
                    and isinstance(x.value, ast.Name) and x.value.id == "self"]

        def visit(stmts):
            for st in stmts:
                if isinstance(st, ast.Assign):
                    for a in reads(st.value):
                        if a in self.calendar_written and a not in written:
                            bad.append("line %d reads self.%s before writing it"
                                       % (st.lineno, a))
                    for t in st.targets:
                        for x in ast.walk(t):
                            if isinstance(x, ast.Attribute) and isinstance(x.ctx, ast.Store):
                                written.add(x.attr)
                elif isinstance(st, ast.If):
                    for a in reads(st.test):
                        if a in self.calendar_written and a not in written:
                            bad.append("line %d tests self.%s before writing it"
                                       % (st.lineno, a))
                    w0 = set(written)
                    visit(st.body)
                    w1 = set(written)
                    written.clear()
                    written.update(w0)
                    visit(st.orelse)
                    w2 = set(written)
                    written.clear()
                    written.update(w1 & w2)
                elif isinstance(st, ast.Expr):
                    for a in reads(st.value):
                        if a in self.calendar_written and a not in written:
                            bad.append("line %d reads self.%s before writing it"
                                       % (st.lineno, a))
                else:
                    for a in reads(st):
                        if a in self.calendar_written and a not in written:
                            bad.append("line %d reads self.%s before writing it"
                                       % (st.lineno, a))
        visit(fi.node.body)
        return [("set_mode.history-free", not bad, "; ".join(bad))]

    def calendar_single_writer(self):
        bad = []
        for key, fi in self.db.funcs.items():
            if key in ("data:Calendar.set_mode",) or key.startswith("ghost:"):
                continue
            for n in ast.walk(fi.node):
                if isinstance(n, ast.Attribute) and isinstance(n.ctx, ast.Store):
                    base = unparse(n.value)
                    if base in ("CALENDAR", "Calendar.default()", "Calendar",
                                "cls._DEFAULT") and not (
                            key == "data:Calendar.default" and n.attr == "_DEFAULT"):
                        bad.append("%s line %d stores %s.%s" % (key, n.lineno, base, n.attr))
                    if n.attr in self.calendar_written and n.attr.isupper() and \
                            base != "self":
                        bad.append("%s line %d stores %s.%s" % (key, n.lineno, base, n.attr))
                if isinstance(n, ast.Call) and unparse(n.func) == "setattr" and n.args:
                    if unparse(n.args[0]) in ("CALENDAR", "Calendar.default()"):
                        bad.append("%s line %d setattr on the calendar" % (key, n.lineno))
        return [("calendar.single-writer", not bad, "; ".join(sorted(set(bad))))]

    # ------------------------------------------------------------ direct footprint
    def _direct(self, fi):
        cal, selfattrs, env, calls = set(), set(), set(), set()
        cal_alias = {"CALENDAR"}
        for n in ast.walk(fi.node):
            if isinstance(n, ast.Assign) and unparse(n.value) in (
                    "Calendar.default()", "CALENDAR", "data.CALENDAR"):
                for t in n.targets:
                    if isinstance(t, ast.Name):
                        cal_alias.add(t.id)
        for n in ast.walk(fi.node):
            if isinstance(n, ast.Attribute) and isinstance(n.ctx, ast.Load):
                base = unparse(n.value)
                if base in cal_alias or base in ("Calendar.default()", "data.CALENDAR"):
                    cal.add(n.attr)
                elif base == "self":
                    selfattrs.add(n.attr)
                elif base == "time" or base.startswith("time."):
                    env.add("time." + n.attr)
            if isinstance(n, ast.Call):
                f = unparse(n.func)
                if f in ("os.getenv", "os.environ.get"):
                    env.add("os.environ")
                if f.startswith("time."):
                    env.add(f)
                calls.update(self._resolve(fi, n))
        return {"cal": cal, "self": selfattrs, "env": env, "calls": calls}

    def _resolve(self, fi, call):
        """Callee keys a call may reach (over-approximation inside the package)."""
        out = set()
        f = call.func
        names = self.db.module_names.get(fi.module, {})
        if isinstance(f, ast.Name):
            ent = names.get(f.id)
            if ent and ent[0] == "func":
                out.add(ent[1].key)
            elif ent and ent[0] == "class":
                init = ent[1].find_method("__init__")
                if init:
                    out.add(init.key)
            elif ent and ent[0] == "import":
                # from .data import get_timepoint_for_now as now2point
                for m in self.db.trees:
                    for k2, fi2 in self.db.funcs.items():
                        if fi2.cls is None and fi2.qualname == ent[2].name and \
                                fi2.module == m:
                            out.add(k2)
                ci = self.db.class_by_name.get(ent[2].name)
                if ci is not None and ci.find_method("__init__"):
                    out.add(ci.find_method("__init__").key)
        elif isinstance(f, ast.Attribute):
            base = unparse(f.value)
            if base == "self" and fi.cls is not None:
                m = fi.cls.find_method(f.attr)
                if m is not None:
                    out.add(m.key)
                    return out
            if base in self.db.trees:           # module.function
                k2 = base + ":" + f.attr
                if k2 in self.db.funcs:
                    out.add(k2)
                    return out
                ci = self.db.classes.get(k2)
                if ci is not None and ci.find_method("__init__"):
                    out.add(ci.find_method("__init__").key)
                    return out
            # unknown receiver: every package method of that name (names of
            # builtin container/str methods are taken to be those builtins)
            if f.attr in BUILTIN_METHOD_NAMES:
                return out
            for k2, fi2 in self.db.funcs.items():
                if fi2.cls is not None and fi2.qualname.endswith("." + f.attr) \
                        and not k2.startswith("ghost:"):
                    out.add(k2)
        return out

    # operators reach dunder methods without a Call node
    DUNDERS = {ast.Add: ["__add__", "__radd__"], ast.Sub: ["__sub__"],
               ast.Mult: ["__mul__", "__rmul__"], ast.FloorDiv: ["__floordiv__"]}

    VALUE_WORDS = ("TimePoint(", "Duration(", "TimeRecurrence(", "TimeZone(",
                   ".parse(", "strptime(", "now2point(", "date_parse(",
                   "date_shift(", "date_diff(")

    def _handles_values(self, fi):
        if fi.module == "data" and fi.cls is not None and fi.cls.name in (
                "TimePoint", "Duration", "TimeZone", "TimeRecurrence"):
            return True
        src = ast.unparse(fi.node)
        return fi.module != "data" and any(w in src for w in self.VALUE_WORDS) or (
            fi.module == "data" and fi.cls is None and any(
                w in src for w in ("TimePoint(", "Duration(", "TimeZone(")))

    def _operator_calls(self, fi):
        out = set()
        if not self._handles_values(fi):
            return out
        for n in ast.walk(fi.node):
            names = []
            if isinstance(n, ast.BinOp):
                names = self.DUNDERS.get(type(n.op), [])
            elif isinstance(n, ast.AugAssign):
                names = self.DUNDERS.get(type(n.op), [])
            elif isinstance(n, ast.Compare):
                names = ["__eq__", "__lt__", "__le__", "__gt__", "__ge__"]
            elif isinstance(n, (ast.For, ast.comprehension)):
                names = ["__iter__"]
            for nm in names:
                for k2, fi2 in self.db.funcs.items():
                    if fi2.cls is not None and fi2.qualname.endswith("." + nm) and \
                            fi2.module == "data":
                        out.add(k2)
        return out

    def transitive(self, key, with_operators=True):
        if key in self.trans:
            return self.trans[key]
        seen, todo = set(), [key]
        cal, env = set(), set()
        path = {key: None}
        why = {}
        while todo:
            k = todo.pop()
            if k in seen or k not in self.direct:
                continue
            seen.add(k)
            d = self.direct[k]
            for a in d["cal"]:
                why.setdefault(a, k)
            cal |= d["cal"]
            env |= d["env"]
            nxt = set(d["calls"])
            if with_operators:
                nxt |= self._operator_calls(self.db.funcs[k])
            for c in nxt:
                if c not in seen:
                    path.setdefault(c, k)
                    todo.append(c)
        r = {"cal": cal, "env": env, "funcs": seen, "why": why, "path": path}
        self.trans[key] = r
        return r

    def chain(self, tr, target):
        out, k = [], target
        while k is not None:
            out.append(k)
            k = tr["path"].get(k)
        return list(reversed(out))

    # ------------------------------------------------------------ memoised functions
    def memoised(self):
        return [fi for k, fi in sorted(self.db.funcs.items())
                if any("lru_cache" in d or d in ("cache", "functools.cache")
                       for d in fi.decorators)]

    def call_sites(self, target):
        """(caller FuncInfo | None, ast.Call) for every call of `target`."""
        out = []
        name = target.qualname.split(".")[-1]
        for k, fi in self.db.funcs.items():
            if k.startswith("ghost:"):
                continue
            for n in ast.walk(fi.node):
                if isinstance(n, ast.Call):
                    f = n.func
                    if isinstance(f, ast.Name) and f.id == name and target.cls is None:
                        out.append((fi, n))
                    elif isinstance(f, ast.Attribute) and f.attr == name and (
                            target.cls is not None or unparse(f.value) in self.db.trees):
                        out.append((fi, n))
        return out

    def memo_obligations(self):
        res = []
        for fi in self.memoised():
            tr = self.transitive(fi.key)
            dep = sorted(a for a in tr["cal"] if a in self.calendar_written and a != "mode")
            name = "memo[%s].key-covers-calendar" % fi.key
            if not dep:
                res.append((name, True, "footprint has no mode-dependent calendar state"
                            " (reads: %s)" % (sorted(tr["cal"]) or "none")))
                continue
            params = [a.arg for a in fi.node.args.args]
            if fi.cls is not None and params and params[0] in ("self", "cls"):
                params_eff = params[1:]
            else:
                params_eff = params
            sites = self.call_sites(fi)
            if not sites:
                res.append((name, False, "reads %s (e.g. %s via %s) but has no call site "
                            "passing CALENDAR.mode" % (dep, dep[0], " -> ".join(
                                self.chain(tr, tr["why"][dep[0]])))))
                continue
            ok_positions = None
            for (caller, call) in sites:
                pos = set()
                for i, a in enumerate(call.args):
                    if unparse(a) in ("CALENDAR.mode", "Calendar.default().mode",
                                      "data.CALENDAR.mode"):
                        if i < len(params_eff):
                            pos.add(params_eff[i])
                for kw in call.keywords:
                    if kw.arg and unparse(kw.value) in ("CALENDAR.mode",
                                                        "Calendar.default().mode"):
                        pos.add(kw.arg)
                ok_positions = pos if ok_positions is None else (ok_positions & pos)
            if ok_positions:
                res.append((name, True, "mode-dependent reads %s; CALENDAR.mode bound to "
                            "parameter %s at all %d call sites" % (
                                dep, sorted(ok_positions), len(sites))))
            else:
                res.append((name, False, "reads mode-dependent calendar state %s (e.g. %s "
                            "via %s) but no key parameter receives CALENDAR.mode at every "
                            "call site (%d sites)" % (dep, dep[0], " -> ".join(
                                self.chain(tr, tr["why"][dep[0]])), len(sites))))
        return res

    # ------------------------------------------------------------ hand-rolled caches
    def persistent_store_obligations(self, allowed=()):
        """C[k] = v where C outlives the call (module global, class attribute or
        attribute of self): the enclosing function's mutable inputs must all occur
        in k.  Stores inside __init__ (construction) are not caches."""
        res = []
        for key, fi in sorted(self.db.funcs.items()):
            if key.startswith("ghost:") or fi.qualname.endswith("__init__") or \
                    key == "data:Calendar.set_mode":
                continue
            for n in ast.walk(fi.node):
                tgt = None
                if isinstance(n, ast.Assign):
                    for t in n.targets:
                        if isinstance(t, ast.Subscript):
                            tgt = t
                elif isinstance(n, ast.Call) and isinstance(n.func, ast.Attribute) and \
                        n.func.attr in ("setdefault",) and n.args:
                    tgt = ast.Subscript(value=n.func.value, slice=n.args[0], ctx=ast.Store())
                if tgt is None:
                    continue
                base = unparse(tgt.value)
                root = base.split(".")[0].split("[")[0]
                local_names = {x.id for x in ast.walk(fi.node)
                               if isinstance(x, ast.Name) and isinstance(x.ctx, ast.Store)}
                params = {a.arg for a in fi.node.args.args}
                persistent = (root == "self" or root == "cls" or (
                    root not in local_names and root not in params))
                if not persistent:
                    continue
                name = "memo[%s].store-key-covers(%s@%d)" % (key, base, n.lineno)
                if (key, base) in allowed:
                    res.append((name, True, "allow-listed monotone cache"))
                    continue
                keytext = unparse(tgt.slice)
                # construction helpers: only ever called from __init__ of the class
                sites = self.call_sites(fi)
                if fi.cls is not None and sites and all(
                        c.cls is fi.cls and c.qualname.endswith("__init__")
                        for (c, _) in sites):
                    res.append((name, True, "construction-time store (only called "
                                "from %s.__init__)" % fi.cls.name))
                    continue
                value = n.value if isinstance(n, ast.Assign) else (
                    n.args[1] if len(n.args) > 1 else ast.Constant(None))
                inputs = self.value_inputs(fi, value)
                missing = []
                dep = sorted(a for a in inputs["cal"] if a in self.calendar_written)
                if dep and "CALENDAR.mode" not in keytext and ".mode" not in keytext:
                    missing.append("calendar state %s" % dep[:4])
                for a in sorted(inputs["self"]):
                    if base.startswith("self." + a) or base == "self." + a:
                        continue
                    if ("self." + a) not in keytext:
                        missing.append("self." + a)
                for a in sorted(inputs["params"]):
                    if a not in ("self", "cls") and a not in keytext:
                        missing.append("parameter " + a)
                if inputs["env"]:
                    missing.append("process environment %s" % sorted(inputs["env"])[:3])
                res.append((name, not missing,
                            "key (%s) omits mutable inputs of the stored value: %s"
                            % (keytext, missing)
                            if missing else "key covers the stored value's mutable inputs"))
        return res

    def value_inputs(self, fi, expr, depth=0, seen=None):
        """Mutable inputs an expression depends on inside function fi: calendar
        attributes (transitively through calls), self attributes (incl. those read
        by self.method() callees), parameters, environment."""
        seen = seen if seen is not None else set()
        out = {"cal": set(), "self": set(), "params": set(), "env": set()}
        params = {a.arg for a in fi.node.args.args}
        assigns = {}
        for st in ast.walk(fi.node):
            if isinstance(st, ast.Assign):
                for t in st.targets:
                    for x in ast.walk(t):
                        if isinstance(x, ast.Name):
                            assigns.setdefault(x.id, []).append(st.value)
            elif isinstance(st, ast.AugAssign) and isinstance(st.target, ast.Name):
                assigns.setdefault(st.target.id, []).append(st.value)
            elif isinstance(st, (ast.For, ast.comprehension)):
                for x in ast.walk(st.target):
                    if isinstance(x, ast.Name):
                        assigns.setdefault(x.id, []).append(st.iter)

        def merge(o):
            for k in out:
                out[k] |= o[k]

        for n in ast.walk(expr):
            if isinstance(n, ast.Attribute) and isinstance(n.ctx, ast.Load):
                b = unparse(n.value)
                if b == "self":
                    m = fi.cls.find_method(n.attr) if fi.cls else None
                    if m is None:
                        out["self"].add(n.attr)
                elif b in ("CALENDAR", "Calendar.default()"):
                    out["cal"].add(n.attr)
            elif isinstance(n, ast.Name) and isinstance(n.ctx, ast.Load):
                if n.id in assigns and (n.id, fi.key) not in seen and depth < 6:
                    seen.add((n.id, fi.key))
                    for v in assigns[n.id]:
                        merge(self.value_inputs(fi, v, depth + 1, seen))
                elif n.id in params:
                    out["params"].add(n.id)
            if isinstance(n, ast.Call):
                for k2 in self._resolve(fi, n):
                    tr = self.transitive(k2)
                    out["cal"] |= tr["cal"]
                    out["env"] |= tr["env"]
                    f = n.func
                    if isinstance(f, ast.Attribute) and unparse(f.value) == "self":
                        for k3 in tr["funcs"]:
                            fi3 = self.db.funcs[k3]
                            if fi3.cls is not None and fi.cls is not None and \
                                    fi.cls.is_subclass_of(fi3.cls.name):
                                out["self"] |= {
                                    a for a in self.direct[k3]["self"]
                                    if fi3.cls.find_method(a) is None}
        return out
