"""Lemmas: obligations whose body is contract/spec text only (DESIGN 2.5)."""
import z3
from .state import State
from .engine import VC
from .values import simp


class Lemma:
    def __init__(self, name, vars, goal, assumes=None, modes=None, note=""):
        self.name = name
        self.vars = vars            # {"t": "int" | "real" | "bool"}
        self.assumes = assumes or []
        self.goal = goal
        self.modes = modes
        self.note = note


def lemma_vc(E, lem):
    st = State()
    env = {"__module__": "data"}
    for n, k in lem.vars.items():
        env[n] = {"int": z3.Int, "real": z3.Real, "bool": z3.Bool}[k]("p:" + n)
    E.cur_func = None
    E.cur_name = "lemma:" + lem.name
    E.cur_case = None
    E.frame_func = None
    E.opaque = {}
    for a in lem.assumes:
        (s_, v) = E.ev1(E.parse(a), env, st)
        (s_, b), = E.truth(v, st)
        st.assume(b)
    (s_, v) = E.ev1(E.parse(lem.goal), env, st)
    (s_, g), = E.truth(v, st)
    vcs = [VC("lemma:%s.assumptions-satisfiable" % lem.name, list(st.pc), "SAT",
              "vacuity", None, None),
           VC("lemma:%s" % lem.name, list(st.pc), simp(g), "lemma", None, None)]
    return vcs
