"""Python `re` patterns -> z3 regular languages (RegLan), mechanically from
re's own parse tree.  Supported subset: literals, classes, ranges, negated
classes, \\d, '.', concatenation, alternation, repeats, groups (named or not),
^ / $ at the ends.  Anything else raises Unsupported."""
import re
import z3

try:
    from re import _parser as sre_parse, _constants as C
except ImportError:           # python < 3.11
    import sre_parse
    import sre_constants as C


class Unsupported(Exception):
    pass


S = z3.StringSort()
RS = z3.ReSort(S)


def _lit(ch):
    return z3.Re(z3.StringVal(chr(ch)))


def _class(items):
    neg = False
    parts = []
    for (op, av) in items:
        if op is C.NEGATE:
            neg = True
        elif op is C.LITERAL:
            parts.append(_lit(av))
        elif op is C.RANGE:
            parts.append(z3.Range(chr(av[0]), chr(av[1])))
        elif op is C.CATEGORY:
            parts.append(_category(av))
        else:
            raise Unsupported("class item %s" % op)
    r = parts[0] if len(parts) == 1 else z3.Union(*parts)
    if neg:
        r = z3.Intersect(z3.AllChar(RS), z3.Complement(r))
    return r


def _category(av):
    if av is C.CATEGORY_DIGIT:
        return z3.Range("0", "9")      # ASCII digits (see trusted base)
    raise Unsupported("category %s" % av)


def _seq(items):
    parts = []
    for (op, av) in items:
        if op is C.LITERAL:
            parts.append(_lit(av))
        elif op is C.NOT_LITERAL:
            parts.append(z3.Intersect(z3.AllChar(RS), z3.Complement(_lit(av))))
        elif op is C.IN:
            parts.append(_class(av))
        elif op is C.ANY:
            parts.append(z3.AllChar(RS))
        elif op is C.SUBPATTERN:
            parts.append(_seq(av[3]))
        elif op is C.BRANCH:
            parts.append(z3.Union(*[_seq(b) for b in av[1]]))
        elif op in (C.MAX_REPEAT, C.MIN_REPEAT):
            lo, hi, sub = av
            r = _seq(sub)
            if hi is C.MAXREPEAT:
                parts.append(z3.Star(r) if lo == 0 else z3.Plus(r) if lo == 1
                             else z3.Concat(z3.Loop(r, lo, lo), z3.Star(r)))
            elif (lo, hi) == (0, 1):
                parts.append(z3.Option(r))
            else:
                parts.append(z3.Loop(r, lo, hi))
        elif op is C.AT:
            if av in (C.AT_BEGINNING, C.AT_END):
                continue       # whole-string matching is expressed by InRe
            raise Unsupported("anchor %s" % av)
        elif op is C.ASSERT or op is C.ASSERT_NOT:
            raise Unsupported("lookaround")
        else:
            raise Unsupported("regex op %s" % op)
    if not parts:
        return z3.Re(z3.StringVal(""))
    return parts[0] if len(parts) == 1 else z3.Concat(*parts)


def to_z3(pattern, flags=0):
    if hasattr(pattern, "pattern"):
        flags = pattern.flags
        pattern = pattern.pattern
    tree = sre_parse.parse(pattern, flags & ~re.UNICODE if False else flags)
    return _seq(list(tree))


def anchored(pattern):
    """True iff the pattern is anchored at both ends (so match == fullmatch)."""
    if hasattr(pattern, "pattern"):
        pattern = pattern.pattern
    return pattern.startswith("^") and pattern.endswith("$") and not pattern.endswith("\\$")


def fixed_width(pattern):
    if hasattr(pattern, "pattern"):
        pattern = pattern.pattern
    lo, hi = sre_parse.parse(pattern).getwidth()
    return lo == hi


def disjoint(r1, r2, timeout_ms=10000):
    s = z3.Solver()
    s.set("timeout", timeout_ms)
    x = z3.String("x")
    s.add(z3.InRe(x, r1), z3.InRe(x, r2))
    res = s.check()
    if res == z3.sat:
        return False, s.model()[x].as_string()
    return (True, None) if res == z3.unsat else (None, None)


def included(r_small, r_big, timeout_ms=10000):
    s = z3.Solver()
    s.set("timeout", timeout_ms)
    x = z3.String("x")
    s.add(z3.InRe(x, r_small), z3.Not(z3.InRe(x, r_big)))
    res = s.check()
    if res == z3.sat:
        return False, s.model()[x].as_string()
    return (True, None) if res == z3.unsat else (None, None)
