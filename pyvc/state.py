"""Symbolic state: heap + path condition (+ ghost data)."""
import z3
from .values import HObj, Ref, is_z3, is_num, zn, zb, coerce2, OutOfReach


class State:
    _ids = [1000]

    def __init__(self):
        self.heap = {}
        self.pc = []
        self.ghost = {}      # e.g. 'yielded': [values]
        self.trace = []      # branch decisions (line numbers) for naming

    def fork(self):
        s = State()
        s.heap = {k: h.copy() for k, h in self.heap.items()}
        s.pc = list(self.pc)
        s.ghost = {k: (list(v) if isinstance(v, list) else v)
                   for k, v in self.ghost.items()}
        s.trace = list(self.trace)
        return s

    def alloc(self, kind, cls=None, fresh=True):
        State._ids[0] += 1
        i = State._ids[0]
        self.heap[i] = HObj(kind, cls, fresh)
        return Ref(i)

    def obj(self, ref):
        return self.heap[ref.id]

    def assume(self, c):
        if c is True:
            return
        if c is False:
            self.pc.append(z3.BoolVal(False))
            return
        self.pc.append(zb(c))


def vite(c, a, b):
    """ite on engine values; raises TypeError when shapes differ."""
    if isinstance(c, bool):
        return a if c else b
    if a is b:
        return a
    if a is None or b is None:
        if a is None and b is None:
            return None
        raise TypeError("None vs value")
    if isinstance(a, tuple) and isinstance(b, tuple):
        if len(a) != len(b):
            raise TypeError("tuple length")
        return tuple(vite(c, x, y) for x, y in zip(a, b))
    if isinstance(a, Ref) or isinstance(b, Ref):
        if isinstance(a, Ref) and isinstance(b, Ref) and a.id == b.id:
            return a
        raise TypeError("different refs")
    if isinstance(a, str) or isinstance(b, str):
        if a == b:
            return a
        raise TypeError("different strings")
    abool = isinstance(a, bool) or (is_z3(a) and z3.is_bool(a))
    bbool = isinstance(b, bool) or (is_z3(b) and z3.is_bool(b))
    if abool or bbool:
        if abool and bbool:
            if isinstance(a, bool) and isinstance(b, bool) and a == b:
                return a
            return z3.If(c, zb(a), zb(b))
        raise TypeError("bool vs non-bool")
    if is_num(a) and is_num(b):
        if not is_z3(a) and not is_z3(b) and a == b and type(a) is type(b):
            return a
        za, zb_ = coerce2(a, b)
        if za.eq(zb_):
            return a
        return z3.If(c, za, zb_)
    if type(a) is type(b) and not is_z3(a):
        try:
            if a == b:
                return a
        except Exception:
            pass
    raise TypeError("unmergeable %r / %r" % (type(a), type(b)))


def merge_states(c, env1, st1, env2, st2, base_len):
    """Merge two fall-through states of an if with condition c.

    st1.pc == base + [c] + extra1, st2.pc == base + [Not c] + extra2.
    Returns (env, st) or None when shapes differ."""
    try:
        env = {}
        for k in set(env1) | set(env2):
            if k in env1 and k in env2:
                env[k] = vite(c, env1[k], env2[k])
            else:
                # defined on one arm only: keep (reading it on the other arm
                # would be an UnboundLocalError in Python; not modelled)
                env[k] = env1[k] if k in env1 else env2[k]
        st = State()
        st.trace = list(st1.trace[:len(st1.trace)])
        for i in set(st1.heap) | set(st2.heap):
            if i in st1.heap and i in st2.heap:
                h1, h2 = st1.heap[i], st2.heap[i]
                if h1.kind != h2.kind or h1.cls is not h2.cls:
                    return None
                h = HObj(h1.kind, h1.cls, h1.fresh and h2.fresh)
                h.ro = h1.ro
                if set(h1.slots) != set(h2.slots):
                    return None
                for s in h1.slots:
                    h.slots[s] = vite(c, h1.slots[s], h2.slots[s])
                if len(h1.items) != len(h2.items):
                    return None
                h.items = [vite(c, x, y) for x, y in zip(h1.items, h2.items)]
                if list(h1.d) != list(h2.d):
                    return None
                h.d = {k: vite(c, h1.d[k], h2.d[k]) for k in h1.d}
                st.heap[i] = h
            else:
                st.heap[i] = (st1.heap.get(i) or st2.heap.get(i)).copy()
        x1 = st1.pc[base_len + 1:]
        x2 = st2.pc[base_len + 1:]
        st.pc = list(st1.pc[:base_len])
        if x1 or x2:
            a1 = z3.And(*x1) if x1 else z3.BoolVal(True)
            a2 = z3.And(*x2) if x2 else z3.BoolVal(True)
            st.pc.append(z3.If(c, a1, a2))
        # ghosts must agree
        if set(st1.ghost) != set(st2.ghost):
            return None
        for k in st1.ghost:
            g1, g2 = st1.ghost[k], st2.ghost[k]
            if isinstance(g1, list):
                if len(g1) != len(g2):
                    return None
                st.ghost[k] = [vite(c, x, y) for x, y in zip(g1, g2)]
            else:
                st.ghost[k] = vite(c, g1, g2)
        return env, st
    except TypeError:
        return None
