"""Calls: builtins, inlining, contract application, constructors."""
import ast
import z3

from .values import *   # noqa
from .state import State, vite


class CallMixin:

    def e_Call(self, e, env, st):
        # spec pseudo-functions that must see unevaluated arguments
        if isinstance(e.func, ast.Name) and e.func.id not in env:
            if e.func.id == "old":
                return self.eval_old(e.args[0], env, st)
            if e.func.id == "entry":
                return self.eval_entry(e.args[0], env, st)
        outs = []
        for (s, f) in self.ev(e.func, env, st):
            pos_exprs = e.args
            for (s1, args) in self.ev_seq(pos_exprs, env, s):
                kw_paths = [(s1, {})]
                for k in e.keywords:
                    nxt = []
                    for (s2, kws) in kw_paths:
                        for (s3, v) in self.ev(k.value, env, s2):
                            kk = dict(kws)
                            if k.arg is None:
                                if self.is_dict(v, s3):
                                    kk.update(s3.obj(v).d)
                                elif isinstance(v, RealObj) and isinstance(v.obj, dict):
                                    kk.update({a: self.wrap_real(b)
                                               for a, b in v.obj.items()})
                                else:
                                    raise OutOfReach("** of non-dict")
                            else:
                                kk[k.arg] = v
                            nxt.append((s3, kk))
                    kw_paths = nxt
                for (s2, kws) in kw_paths:
                    outs += self.call(f, list(args), kws, s2, e)
        return outs

    def eval_old(self, expr, env, st):
        if not self.old_stack:
            raise ContractBindingError("old() outside a contract")
        oenv, oheap = self.old_stack[-1]
        tmp = State()
        tmp.heap = {k: h.copy() for k, h in oheap.items()}
        tmp.pc = st.pc
        tmp.ghost = st.ghost
        env2 = dict(oenv)
        env2["__module__"] = env.get("__module__")
        (s, v) = self.ev1(expr, env2, tmp)
        return [(st, v)]

    def eval_entry(self, expr, env, st):
        if not self.entry_stack:
            raise ContractBindingError("entry() outside a loop contract")
        oenv, oheap = self.entry_stack[-1]
        tmp = State()
        tmp.heap = {k: h.copy() for k, h in oheap.items()}
        tmp.pc = st.pc
        tmp.ghost = st.ghost
        env2 = dict(oenv)
        (s, v) = self.ev1(expr, env2, tmp)
        return [(st, v)]

    # ------------------------------------------------------------ dispatch
    def call(self, f, args, kws, st, node=None):
        if isinstance(f, BoundMethod):
            if isinstance(f.func, FuncRef):
                return self.call_func(f.func, [f.self_val] + args, kws, st, node)
            return self.call_builtin(f.func.name, [f.self_val] + args, kws, st, node)
        if isinstance(f, FuncRef):
            return self.call_func(f, args, kws, st, node)
        if isinstance(f, SpecFn):
            return self.call_spec(f, args, kws, st)
        if isinstance(f, ClassRef):
            return self.construct(f.info, args, kws, st, node)
        if isinstance(f, BuiltinRef):
            return self.call_builtin(f.name, args, kws, st, node)
        if isinstance(f, ExtClass):
            if issubclass(f.real, BaseException):
                return [(st, self.mk_exc(f.real.__name__, node))]
            return self.call_builtin(f.real.__name__, args, kws, st, node)
        if hasattr(f, "pyvc_call"):
            return f.pyvc_call(self, args, kws, st, node)
        raise OutOfReach("call of %r" % (f,))

    def bind_args(self, info, args, kws, st):
        """Bind to parameter names. Defaults are evaluated concretely."""
        a = info.node.args
        names = [x.arg for x in a.posonlyargs + a.args]
        env = {}
        if a.vararg is not None:
            env[a.vararg.arg] = tuple(args[len(names):])
            args = args[:len(names)]
        if len(args) > len(names):
            raise OutOfReach("too many positional args for " + info.key)
        for n, v in zip(names, args):
            env[n] = v
        kwonly = [x.arg for x in a.kwonlyargs]
        extra = {}
        for k, v in kws.items():
            if k in names or k in kwonly:
                if k in env:
                    raise OutOfReach("duplicate arg " + k)
                env[k] = v
            else:
                extra[k] = v
        if extra:
            if a.kwarg is None:
                return None   # TypeError: unexpected keyword
            r = st.alloc("dict")
            st.obj(r).d = extra
            env[a.kwarg.arg] = r
        elif a.kwarg is not None:
            r = st.alloc("dict")
            env[a.kwarg.arg] = r
        defaults = a.defaults
        dnames = names[len(names) - len(defaults):]
        menv = {"__module__": info.module}
        for n, d in zip(dnames, defaults):
            if n not in env:
                (s_, v) = self.ev1(d, menv, st)
                env[n] = v
        for n, d in zip(kwonly, a.kw_defaults):
            if n not in env and d is not None:
                (s_, v) = self.ev1(d, menv, st)
                env[n] = v
        for n in names + kwonly:
            if n not in env:
                return None   # TypeError: missing argument
        env["__module__"] = info.module
        env["__func__"] = info
        return env

    def call_func(self, fref, args, kws, st, node=None):
        info = fref.info
        if info.cls is not None and info.cls.name == "Calendar" and \
                not self.model_calendar:
            raise OutOfReach("Calendar method call " + info.key)
        env = self.bind_args(info, args, kws, st)
        if env is None:
            self.raise_exc(st, "TypeError", node)
            return []
        if any("lru_cache" in d or d in ("cache", "functools.cache") for d in info.decorators):
            # memoisation: the cache compares key arguments with == / hash.  The executor
            # treats lru_cache as the identity decorator, which is sound only if equal keys
            # are indistinguishable to the function: an argument that is an instance of a
            # class with its own __eq__ (TimePoint, Duration: equal by instant / length,
            # whatever the representation, zone or unit spelling) is not - obligation.
            for pn, av in env.items():
                for x in (av if isinstance(av, (tuple, list)) else (av,)):
                    if isinstance(x, Ref) and st.obj(x).kind == "obj" and any(
                            "__eq__" in getattr(k, "methods", {})
                            for k in st.obj(x).cls.mro()):
                        self.oblige("memo[%s].key-equality-is-identity(%s: %s)@%d" % (
                            info.key, pn, st.obj(x).cls.name,
                            getattr(node, "lineno", 0)), st, False, kind="memo")
        nm = info.qualname.split(".")[-1]
        if nm in getattr(self, "abstract_calls", ()) and info.cls is not None and \
                self.cur_func is not info and \
                ("%s:%s.abstract.%s" % (info.module, info.cls.name, nm)) in self.contracts:
            ac = self.contracts.get("%s:%s.abstract.%s" % (info.module, info.cls.name, nm))
            if ac is None:
                raise ContractBindingError("no abstract stand-in for " + info.key)
            self.stats["contracts_used"].add(ac.key)
            cenv = dict(env)
            cenv["__module__"] = info.module
            (s_, res) = self.ev1(self.parse(ac.returns), cenv, st)
            return [(st, res)]
        c = self.contracts.get(info.key)
        if info.is_generator and not (self.cur_func is info and self.depth == 0):
            return self.call_generator(info, env, st, node)
        verifying_self = (self.cur_func is info and self.depth == 0)
        if c is not None and c.use_at_calls and not (
                verifying_self and not c.recursive_ok) and \
                info.key not in getattr(self, "force_inline", ()):
            return self.call_contract(info, c, env, st, node)
        if c is None:
            # a helper without a contract (e.g. introduced by a refactoring):
            # treated as transparent; its loops still need invariants
            self.stats["inlined_uncontracted"].add(info.key)
        return self.call_inline(info, env, st, node)

    def call_inline(self, info, env, st, node=None):
        if self.depth > 12:
            raise OutOfReach("inline depth")
        if info.is_generator:
            return self.call_generator(info, env, st, node)
        self.depth += 1
        saved = self.frame_func
        self.frame_func = info
        self.stats["inlined"].add(info.key)
        try:
            outs = []
            for (env2, s, sig, v) in self.exec_block(info.node.body, env, st):
                if sig == "raise":
                    self.pending.append((s, v))
                elif sig == "return":
                    outs.append((s, v))
                elif sig == "fall":
                    outs.append((s, None))
                else:
                    raise OutOfReach("stray %s in %s" % (sig, info.key))
            return outs
        finally:
            self.depth -= 1
            self.frame_func = saved

    def call_spec(self, f, args, kws, st):
        if f.name in self.opaque and len(args) == 1 and not kws:
            t = args[0]
            if is_z3(t):
                return [(st, self.opaque[f.name](t))]
        a = f.node.args
        names = [x.arg for x in a.args]
        env = dict(zip(names, args))
        env.update(kws)
        env["__module__"] = None
        env["__func__"] = None
        self.depth += 1
        saved = self.frame_func
        self.frame_func = None
        try:
            outs = []
            for (env2, s, sig, v) in self.exec_block(f.node.body, env, st):
                if sig == "return":
                    outs.append((s, v))
                elif sig == "fall":
                    outs.append((s, None))
                else:
                    raise OutOfReach("spec function %s: %s" % (f.name, sig))
            if len(outs) > 1:
                outs = self.merge_returns(outs, st)
            return outs
        finally:
            self.depth -= 1
            self.frame_func = saved

    def merge_returns(self, outs, st):
        """Merge several (state, value) results that share st's pc prefix."""
        n0 = len(st.pc)
        try:
            acc_s, acc_v = outs[-1]
            for (s, v) in reversed(outs[:-1]):
                cond = z3.And(*s.pc[n0:]) if s.pc[n0:] else z3.BoolVal(True)
                acc_v = vite(cond, v, acc_v)
            # all paths are pure (spec): keep base state, add disjunction
            res = st
            return [(res, acc_v)]
        except TypeError:
            return outs

    # ------------------------------------------------------------ contracts
    def call_contract(self, info, c, env, st, node=None):
        self.stats["contracts_used"].add(info.key)
        site = "%s.call[%s@%s]" % (self.cur_name, info.qualname,
                                   getattr(node, "lineno", "?"))
        cenv = dict(env)
        # shape guard: the contract may restrict the shapes it speaks about
        if c.applicable is not None and not c.applicable(self, st, cenv):
            if c.inline_fallback:
                return self.call_inline(info, env, st, node)
            raise OutOfReach("contract of %s not applicable at %s" % (info.key, site))
        for i, r in enumerate(c.requires):
            (s_, v) = self.ev1(self.parse(r), cenv, st)
            (s_, b), = self.truth(v, st)
            self.oblige("%s.pre[%d]" % (site, i), st, b, kind="call-pre")
        outs = []
        # exceptional outcomes
        noraise = True
        for (exc, cond) in c.raises:
            (s_, v) = self.ev1(self.parse(cond), cenv, st)
            (s_, b), = self.truth(v, st)
            b = simp(b)
            if b is False:
                continue
            sr = st.fork()
            sr.assume(b)
            if b is True or self.feasible(sr.pc):
                self.pending.append((sr, self.mk_exc(exc, node)))
            noraise = z_and(noraise, z_not(b))
        noraise = simp(noraise)
        if noraise is False:
            return []
        st.assume(noraise)
        if noraise is not True and not self.feasible(st.pc):
            return []
        old_env, old_heap = dict(cenv), {k: h.copy() for k, h in st.heap.items()}
        self.old_stack.append((old_env, old_heap))
        try:
            if c.havoc is not None:
                self.check_frame_call(info, c, cenv, st, site)
                c.havoc(self, st, cenv)
            if c.returns is not None:
                (s_, res) = self.ev1(self.parse(c.returns), cenv, st)
            elif c.result is not None:
                res = c.result(self, st, cenv)
            else:
                res = None
            cenv["result"] = res
            n_before = len(st.pc)
            outside = True
            for rg in c.regions:
                (s_, v) = self.ev1(self.parse(rg["when"]), dict(old_env), st)
                (s_, w), = self.truth(v, st)
                w = simp(w)
                if w is not False and w is not True:
                    dec = self.decide(st, w)      # most call sites are clearly outside
                    if dec is not None:
                        w = dec
                outside = z_and(outside, z_not(w))
                if w is False:
                    continue
                for r in rg["ensures"]:
                    (s_, v) = self.ev1(self.parse(r), cenv, st)
                    (s_, b), = self.truth(v, st)
                    st.assume(z_implies(w, b))
            outside = simp(outside)
            for r in c.ensures:
                if outside is False:
                    break
                (s_, v) = self.ev1(self.parse(r), cenv, st)
                (s_, b), = self.truth(v, st)
                if b is False and outside is True:
                    raise ContractBindingError(
                        "contract of %s is contradictory at %s: clause %r is "
                        "concretely false" % (info.key, site, r))
                st.assume(b if outside is True else z_implies(outside, b))
            # (a contradictory ensures is caught by the exit-feasibility guard
            #  of Engine.verify: some exit path must be satisfiable)
        finally:
            self.old_stack.pop()
        return [(st, res)]

    def check_frame_call(self, info, c, cenv, st, site):
        """A callee that modifies its receiver must get a fresh receiver."""
        tgt = cenv.get("self")
        if isinstance(tgt, Ref) and self.check_frames:
            h = st.obj(tgt)
            if not h.fresh and not self.cur_modifies_self(tgt):
                self.oblige("%s.frame[receiver-fresh]" % site, st, False,
                            kind="frame")

    def cur_modifies_self(self, ref):
        return self.cur_self is not None and ref == self.cur_self \
            and self.cur_contract is not None and self.cur_contract.modifies_self

    # ------------------------------------------------------------ constructors
    def construct(self, ci, args, kws, st, node=None):
        if issubclass(ci.real, BaseException):
            return [(st, self.mk_exc(ci.name, node))]
        init = ci.find_method("__init__")
        r = st.alloc("obj", ci, fresh=True)
        if init is None:
            return [(st, r)]
        outs = []
        for (s, v) in self.call_func(FuncRef(init), [r] + args, kws, st, node):
            outs.append((s, r))
        return outs

    # ------------------------------------------------------------ builtins
    def call_builtin(self, name, args, kws, st, node=None):
        if name.startswith("real.") and getattr(self, "b_" + name.replace(".", "_"), None) is None:
            recv = args[0]
            conc = lambda v: isinstance(v, (str, int, float, bool, tuple)) or v is None
            if isinstance(recv, RealObj) and all(conc(a) for a in args[1:]) and \
                    all(conc(v) for v in kws.values()):
                import re as _re
                if isinstance(recv.obj, (_re.Pattern, _re.Match)):
                    r = getattr(recv.obj, name[5:])(*args[1:], **kws)
                    if isinstance(r, dict):
                        dr = st.alloc("dict")
                        st.obj(dr).d = dict(r)
                        return [(st, dr)]
                    if isinstance(r, list):
                        return [(st, self.wrap_str_result(r, st))]
                    return [(st, self.wrap_real(r))]
            if isinstance(recv, RealObj) and name in ("real.search", "real.match") and \
                    len(args) == 2 and not kws:
                import re as _re
                from .strings import Text as _Text
                from .values import IntStr as _IntStr
                from .strings import FmtResult as _Fmt0
                tx = _Text.of(args[1]._view(self, st) if isinstance(args[1], _Fmt0) else args[1])
                if isinstance(recv.obj, _re.Pattern) and tx is not None:
                    from . import textlex
                    for pc_ in tx.pieces:
                        if isinstance(pc_, _IntStr) and self.decide(st, pc_.term >= 0) is not True:
                            raise OutOfReach("regex on the spelling of a possibly negative integer")
                    verdict, groups, obs = textlex.analyse(recv.obj, textlex.shape_of(tx))
                    self.lex_log.append((recv.obj.pattern, repr(tx), verdict, obs))
                    if verdict == "nomatch":
                        return [(st, None)]
                    if verdict == "match":
                        from .strings import DigitField as _DF

                        def cap(g):
                            if g is None:
                                return None
                            if g[0] == "piece":
                                return tx.pieces[g[1]]
                            if g[0] == "span":
                                cells = textlex._cells[(recv.obj.pattern, recv.obj.flags,
                                                        textlex.shape_of(tx))]
                                ps = []
                                for cc in cells[g[1]:g[2]]:
                                    ps.append(cc[1] if cc[0] == "c" else tx.pieces[cc[2]])
                                return _Text(ps).simplest()
                            if g[0] == "sub":
                                # digits off..off+w of a W-digit field: (v div 10^(W-off-w)) mod 10^w
                                f = tx.pieces[g[1]]
                                lowp = 10 ** (f.width - g[2] - g[3])
                                return _DF(g[3], (f.var / lowp) % (10 ** g[3]))
                            return g[1]
                        return [(st, textlex.MatchModel({k: cap(g) for k, g in groups.items()}))]
                    raise OutOfReach("lexing lemma for %r on %r undecided: %s" % (
                        recv.obj.pattern[:30], tx, [o for o in obs if o[1] is not True][:2]))
            if isinstance(recv, RealObj) and name == "real.sub" and len(args) == 3 and not kws:
                import re as _re
                from .strings import Text as _Text, FmtResult as _Fmt
                a2 = args[2]._view(self, st) if isinstance(args[2], _Fmt) else args[2]
                tx = _Text.of(a2)
                if isinstance(recv.obj, _re.Pattern) and tx is not None and isinstance(args[1], str):
                    from . import textlex
                    try:
                        return [(st, textlex.text_sub(recv.obj, args[1], tx).simplest())]
                    except textlex.Unsupported as e:
                        raise OutOfReach("regex substitution on a piecewise text: %s" % e)
            raise OutOfReach("method %s of a real object on symbolic arguments" % name)
        if name.startswith("x."):
            r = self.extra_builtins[name[2:]](self, args, kws, st)
            return r if isinstance(r, list) else [(st, r)]
        m = getattr(self, "b_" + name.replace(".", "_"), None)
        if m is None:
            raise OutOfReach("builtin " + name)
        r = m(args, kws, st, node)
        if isinstance(r, list):
            return r
        return [(st, r)]

    def b_re_escape(self, args, kws, st, node):
        import re as _re
        if isinstance(args[0], str):
            return _re.escape(args[0])
        raise OutOfReach("re.escape of a symbolic text")

    def b_re_compile(self, args, kws, st, node):
        import re as _re
        if all(isinstance(a, (str, int)) for a in args) and not kws:
            try:
                return RealObj(_re.compile(*args))
            except _re.error:
                self.raise_exc(st, "Exception", node)
                return []
        raise OutOfReach("re.compile of a symbolic pattern")

    def b_spec_implies(self, args, kws, st, node):
        (a, b) = args
        (s, ta), = self.truth(a, st)
        (s, tb), = self.truth(b, st)
        return simp(z_implies(ta, tb))

    def b_spec_ite(self, args, kws, st, node):
        (c, a, b) = args
        (s, tc), = self.truth(c, st)
        return vite(tc, a, b) if not isinstance(tc, bool) else (a if tc else b)

    def b_spec_isint(self, args, kws, st, node):
        return z_isint(args[0])

    def b_isint(self, args, kws, st, node):
        return z_isint(args[0])

    def b_spec_is_none(self, args, kws, st, node):
        return args[0] is None

    def b_spec_fresh(self, args, kws, st, node):
        v = args[0]
        return isinstance(v, Ref) and st.obj(v).fresh

    def b_spec_classname(self, args, kws, st, node):
        v = args[0]
        if isinstance(v, Ref) and st.obj(v).kind == "obj":
            return st.obj(v).cls.name
        return type(v).__name__

    def b_spec_hashkey(self, args, kws, st, node):
        return HashV(tuple(args))

    def b_spec_seq_eq(self, args, kws, st, node):
        a, b = args
        if not isinstance(a, SeqC) or not isinstance(b, SeqC):
            raise OutOfReach("seq_eq on non-sequences")
        self.fresh_n += 1
        j = z3.Int("j!%d" % self.fresh_n)
        (s_, eq), = self.compare(ast.Eq(), a.elem(j), b.elem(j), st)
        return simp(z_and(self.num_cmp(ast.Eq(), a.n, b.n),
                          z_implies(z_and(j >= 0, self.num_cmp(ast.Lt(), j, a.n)), eq)))

    def b_spec_fmt_value(self, args, kws, st, node):
        from .strings import FmtResult
        if not isinstance(args[0], FmtResult):
            raise OutOfReach("fmt_value of %r" % type(args[0]).__name__)
        return args[0].mapping[args[1]]

    def b_spec_fmt_template(self, args, kws, st, node):
        from .strings import FmtResult
        if not isinstance(args[0], FmtResult):
            if isinstance(args[0], str):
                return args[0]
            raise OutOfReach("fmt_template of %r" % type(args[0]).__name__)
        return args[0].template

    def b_spec_intstr(self, args, kws, st, node):
        v = args[0]
        if not is_z3(v):
            return str(int(v))
        return IntStr(trunc_int(v))

    def b_spec_hash_elems(self, args, kws, st, node):
        if not isinstance(args[0], HashV):
            raise OutOfReach("hash_elems of a non-hash")
        return tuple(args[0].elems)

    def b_spec_use_lemma(self, args, kws, st, node):
        """Assume an INSTANCE of a registered (separately proved) lemma."""
        import contracts as _c
        lem = _c.LEMMAS[args[0]]
        if set(kws) != set(lem.vars):
            raise ContractBindingError("use_lemma(%s): bindings %s != variables %s" % (
                args[0], sorted(kws), sorted(lem.vars)))
        env = dict(kws)
        env["__module__"] = "data"
        saved = self.opaque
        acc = True
        for a in lem.assumes:
            (s_, v) = self.ev1(self.parse(a), env, st)
            (s_, b), = self.truth(v, st)
            acc = z_and(acc, b)
        (s_, v) = self.ev1(self.parse(lem.goal), env, st)
        (s_, g), = self.truth(v, st)
        st.assume(z_implies(acc, g))
        self.stats["lemmas_used"].add(args[0])
        return True

    def b_spec_assume(self, args, kws, st, node):
        (s_, b), = self.truth(args[0], st)
        st.assume(b)
        return None

    def b_spec_seq_len(self, args, kws, st, node):
        v = args[0]
        if isinstance(v, SeqC):
            return v.n
        return len(self.iter_concrete(v, st))

    def b_spec_seq_at(self, args, kws, st, node):
        return self.index(args[0], args[1], st, node)

    def b_spec_unchanged(self, args, kws, st, node):
        """unchanged(obj): every slot equals its old() value."""
        ref = args[0]
        oenv, oheap = self.old_stack[-1]
        now, was = st.obj(ref), oheap.get(ref.id)
        if was is None:
            return True
        acc = True
        for k, v in now.slots.items():
            w = was.slots.get(k)
            if v is w:
                continue
            if isinstance(v, Ref) or isinstance(w, Ref):
                r = isinstance(v, Ref) and isinstance(w, Ref) and v.id == w.id
            elif v is None or w is None or isinstance(v, str) or isinstance(w, str):
                r = (v == w) if type(v) is type(w) else False
            else:
                (s, r), = self.compare(ast.Eq(), v, w, st)
            acc = z_and(acc, r)
        return simp(acc)

    def b_int(self, args, kws, st, node):
        if not args:
            return 0
        v = args[0]
        if is_num(v) or isinstance(v, bool):
            return trunc_int(v)
        if isinstance(v, str):
            try:
                return int(v)
            except ValueError:
                self.raise_exc(st, "ValueError", node)
                return []
        if hasattr(v, "pyvc_int"):
            return v.pyvc_int(self, st, node)
        if v is None or isinstance(v, (Ref, tuple)):
            self.raise_exc(st, "TypeError", node)
            return []
        raise OutOfReach("int(%r)" % type(v).__name__)

    def b_float(self, args, kws, st, node):
        v = args[0]
        if isinstance(v, bool):
            return float(v)
        if isinstance(v, (int, float)):
            return float(v)
        if is_z3(v) and (z3.is_int(v) or z3.is_real(v)):
            return z3.ToReal(v) if z3.is_int(v) else v
        if isinstance(v, str):
            try:
                return float(v)
            except ValueError:
                self.raise_exc(st, "ValueError", node)
                return []
        if hasattr(v, "pyvc_float"):
            return v.pyvc_float(self, st, node)
        if v is None or isinstance(v, (Ref, tuple)):
            self.raise_exc(st, "TypeError", node)
            return []
        raise OutOfReach("float(%r)" % type(v).__name__)

    def b_bool(self, args, kws, st, node):
        if not args:
            return False
        return self.truth(args[0], st, node)

    def b_abs(self, args, kws, st, node):
        v = args[0]
        if self.is_obj(v, st):
            m = st.obj(v).cls.find_method("__abs__")
            return self.call_func(FuncRef(m), [v], {}, st, node)
        return z_abs(v)

    def b_time_localtime(self, args, kws, st, node):
        v = self.sym_modattrs.get(("time", "localtime().tm_isdst"))
        if v is None:
            raise OutOfReach("time.localtime() without a symbolic environment")
        return SymNS({"tm_isdst": v})

    def b_math_fmod(self, args, kws, st, node):
        a, b = args
        self.need_nonzero(b, st, node)
        if not is_z3(a) and not is_z3(b):
            import math
            return math.fmod(a, b)
        za, zb_ = coerce2(a, b)
        if not z3.is_real(za):
            za, zb_ = z3.ToReal(za), z3.ToReal(zb_)
        q = za / zb_
        tq = z3.If(q >= 0, z3.ToReal(z3.ToInt(q)), -z3.ToReal(z3.ToInt(-q)))
        return za - zb_ * tq

    def b_math_isclose(self, args, kws, st, node):
        a, b = args[0], args[1]
        rel = kws.get("rel_tol", 1e-09)
        ab = kws.get("abs_tol", 0.0)
        if is_z3(rel) or is_z3(ab):
            raise OutOfReach("symbolic tolerance")
        diff = z_abs(self.arith(ast.Sub(), a, b, st, node))
        m = self.b_max([z_abs(a), z_abs(b)], {}, st, node)
        bound = self.b_max([self.arith(ast.Mult(), rel, m, st, node), ab], {}, st, node)
        return self.num_cmp(ast.LtE(), diff, bound)

    def b_math_trunc(self, args, kws, st, node):
        return trunc_int(args[0])

    def b_math_floor(self, args, kws, st, node):
        return floor_int(args[0])

    def b_floor(self, args, kws, st, node):
        return floor_int(args[0])

    def b_divmod(self, args, kws, st, node):
        a, b = args
        self.need_nonzero(b, st, node)
        if is_z3(b) and not z3.is_int_value(b) and not z3.is_rational_value(b):
            return self.sym_divmod(a, b, st)
        return (py_floordiv(a, b), py_mod(a, b))

    def b_spec_local(self, args, kws, st, node):
        loc = self.exit_locals
        if loc is None or args[0] not in loc:
            # unbound at this exit: an arbitrary value (a clause that depends on it
            # on such a path cannot be proved, which is the sound outcome)
            self.fresh_n += 1
            return z3.Int("unbound_%s!%d" % (args[0], self.fresh_n))
        return loc[args[0]]

    def b_min(self, args, kws, st, node):
        vals = args if len(args) > 1 else self.iter_concrete(args[0], st)
        r = vals[0]
        for v in vals[1:]:
            if not is_z3(r) and not is_z3(v):
                r = min(r, v)
            else:
                za, zb_ = coerce2(v, r)
                r = z3.If(za < zb_, za, zb_)
        return r

    def b_max(self, args, kws, st, node):
        vals = args if len(args) > 1 else self.iter_concrete(args[0], st)
        r = vals[0]
        for v in vals[1:]:
            if not is_z3(r) and not is_z3(v):
                r = max(r, v)
            else:
                za, zb_ = coerce2(v, r)
                r = z3.If(za > zb_, za, zb_)
        return r

    def b_sum(self, args, kws, st, node):
        r = args[1] if len(args) > 1 else 0
        for v in self.iter_concrete(args[0], st):
            r = self.arith(ast.Add(), r, v, st, node)
        return r

    def b_len(self, args, kws, st, node):
        v = args[0]
        if isinstance(v, SeqC):
            return v.n
        if hasattr(v, "pyvc_len"):
            return v.pyvc_len(self, st)
        if isinstance(v, (str, tuple)):
            return len(v)
        if isinstance(v, Ref):
            h = st.obj(v)
            if h.kind == "list":
                return len(h.items)
            if h.kind == "dict":
                return len(h.d)
        raise OutOfReach("len(%r)" % type(v).__name__)

    def b_range(self, args, kws, st, node):
        if len(args) == 1:
            return RangeV(0, args[0], 1)
        if len(args) == 2:
            return RangeV(args[0], args[1], 1)
        return RangeV(args[0], args[1], args[2])

    def b_enumerate(self, args, kws, st, node):
        v = args[0]
        if isinstance(v, SeqC):
            if getattr(v, "with_state", False):
                q = SeqC(v.n, lambda k, s, v=v: (k, v.elem(k, s)), "enumerate")
                q.with_state = True
                return q
            return SeqC(v.n, lambda k, v=v: (k, v.elem(k)), "enumerate")
        if hasattr(v, "pyvc_enumerate"):
            return v.pyvc_enumerate(self, st)
        return tuple((i, x) for i, x in enumerate(self.iter_concrete(v, st)))

    def b_reversed(self, args, kws, st, node):
        return tuple(reversed(self.iter_concrete(args[0], st)))

    def b_list(self, args, kws, st, node):
        r = st.alloc("list")
        if args:
            v = args[0]
            if self.is_dict(v, st):
                st.obj(r).items = list(st.obj(v).d)
            else:
                st.obj(r).items = list(self.iter_concrete(v, st))
        return r

    def b_tuple(self, args, kws, st, node):
        if not args:
            return ()
        return tuple(self.iter_concrete(args[0], st))

    def b_dict(self, args, kws, st, node):
        r = st.alloc("dict")
        d = {}
        if args:
            v = args[0]
            if self.is_dict(v, st):
                d.update(st.obj(v).d)
            else:
                for it in self.iter_concrete(v, st):
                    k, val = it
                    d[k] = val
        d.update(kws)
        st.obj(r).d = d
        return r

    def b_str(self, args, kws, st, node):
        if not args:
            return ""
        v = args[0]
        if isinstance(v, (str, int, float)) and not isinstance(v, bool):
            return str(v)
        if hasattr(v, "pyvc_str"):
            return v.pyvc_str(self, st)
        if self.is_obj(v, st):
            m = st.obj(v).cls.find_method("__str__")
            if m is not None:
                return self.call_func(FuncRef(m), [v], {}, st, node)
        if is_z3(v) and z3.is_int(v):
            return IntStr(v)
        if hasattr(self, "sym_str"):
            return self.sym_str(v, st)
        return Opaque("str()")

    def b_repr(self, args, kws, st, node):
        return Opaque("repr()")

    def b_type(self, args, kws, st, node):
        v = args[0]
        if self.is_obj(v, st):
            return ClassRef(st.obj(v).cls)
        if v is None:
            return ExtClass(type(None))
        if isinstance(v, bool):
            return ExtClass(bool)
        if isinstance(v, int) or (is_z3(v) and z3.is_int(v)):
            return ExtClass(int)
        if isinstance(v, float) or (is_z3(v) and z3.is_real(v)):
            return ExtClass(float)
        if isinstance(v, str):
            return ExtClass(str)
        return Opaque("type()")

    def b_callable(self, args, kws, st, node):
        return isinstance(args[0], (FuncRef, BoundMethod, ClassRef, BuiltinRef))

    def b_hash(self, args, kws, st, node):
        v = args[0]
        if isinstance(v, tuple):
            flat = []
            for x in v:
                if self.is_obj(x, st):
                    m = st.obj(x).cls.find_method("__hash__")
                    if m is None:
                        raise OutOfReach("identity hash")
                    rs = self.call_func(FuncRef(m), [x], {}, st, node)
                    if len(rs) != 1:
                        raise OutOfReach("forking __hash__")
                    st, hv = rs[0]
                    flat.append(hv)
                else:
                    flat.append(x)
            return [(st, HashV(tuple(flat)))]
        if self.is_obj(v, st):
            m = st.obj(v).cls.find_method("__hash__")
            return self.call_func(FuncRef(m), [v], {}, st, node)
        return HashV((v,))

    def b_any(self, args, kws, st, node):
        acc = False
        for v in self.iter_concrete(args[0], st):
            (st, t), = self.truth(v, st)
            acc = z_or(acc, t)
        return [(st, simp(acc))]

    def b_all(self, args, kws, st, node):
        acc = True
        for v in self.iter_concrete(args[0], st):
            (st, t), = self.truth(v, st)
            acc = z_and(acc, t)
        return [(st, simp(acc))]

    def b_isinstance(self, args, kws, st, node):
        v, c = args
        if isinstance(c, tuple):
            acc = False
            for cc in c:
                acc = acc or self.b_isinstance([v, cc], kws, st, node)
            return acc
        if isinstance(c, ClassRef):
            if self.is_obj(v, st):
                return st.obj(v).cls.is_subclass_of(c.info.name)
            if isinstance(v, RealObj):
                return isinstance(v.obj, c.info.real)
            return False
        if isinstance(c, BuiltinRef):
            import builtins
            c = ExtClass(getattr(builtins, c.name))
        if isinstance(c, ExtClass):
            t = c.real
            if isinstance(v, Ref) or v is None:
                return t is type(None) and v is None or (
                    t is list and self.is_list(v, st)) or (
                    t is dict and self.is_dict(v, st)) or (
                    t is object)
            if hasattr(v, "pyvc_isinstance"):
                return v.pyvc_isinstance(t)
            if isinstance(v, PyList):
                return t in (list, object)
            if isinstance(v, (bool, int, float, str, tuple)):
                return isinstance(v, t)
            if is_z3(v):
                if z3.is_bool(v):
                    return t in (bool, int, object)
                if z3.is_int(v):
                    return t in (int, object)
                if z3.is_real(v):
                    return t in (float, object)
            if isinstance(v, ExcVal):
                return t.__name__ in v.mro_names
            return False
        raise OutOfReach("isinstance against %r" % (c,))

    def b_getattr(self, args, kws, st, node):
        o, name = args[0], args[1]
        if not isinstance(name, str):
            raise OutOfReach("getattr with symbolic name")
        if len(args) == 3:
            if isinstance(o, Ref) and st.obj(o).kind == "obj":
                h = st.obj(o)
                if name in h.slots:
                    return h.slots[name]
                if h.cls.find_method(name) is None and not hasattr(h.cls.real, name):
                    return args[2]
                if name in getattr(h.cls.real, "__slots__", ()) or any(
                        name in getattr(k, "__slots__", ())
                        for k in h.cls.real.__mro__):
                    return args[2]    # unset slot
                return self.load_attr(o, name, st, node)
            if not isinstance(o, (Ref, ClassRef, ModuleRef, RealObj)):
                # plain value (number, None, str): only real attributes
                if o is None or is_num(o) or is_bool(o) or isinstance(o, (str, tuple)):
                    return args[2]
            try:
                return self.load_attr(o, name, st, node)
            except OutOfReach:
                raise
        return self.load_attr(o, name, st, node)

    def b_setattr(self, args, kws, st, node):
        o, name, v = args
        if not isinstance(name, str):
            raise OutOfReach("setattr with symbolic name")
        self.store_attr(o, name, v, st, node)
        return None

    def b_hasattr(self, args, kws, st, node):
        o, name = args
        if isinstance(o, RealObj):
            return hasattr(o.obj, name)
        if self.is_obj(o, st):
            h = st.obj(o)
            return name in h.slots or h.cls.find_method(name) is not None
        raise OutOfReach("hasattr")

    # list / dict / str methods -------------------------------------------
    def _mut(self, ref, st, node):
        h = st.obj(ref)
        if h.ro:
            self.oblige("%s.frame[mutates-readonly@%s]" % (
                self.cur_name, getattr(node, "lineno", "?")), st, False, kind="frame")
        if not h.fresh and self.check_frames:
            self.oblige("%s.frame[mutates-nonfresh-container@%s]" % (
                self.cur_name, getattr(node, "lineno", "?")), st, False, kind="frame")
        return h

    def b_list_append(self, args, kws, st, node):
        self._mut(args[0], st, node).items.append(args[1])
        return None

    def b_list_remove(self, args, kws, st, node):
        h = self._mut(args[0], st, node)
        for i, x in enumerate(h.items):
            (s_, r), = self.compare(ast.Eq(), x, args[1], st)
            r = simp(r)
            if r is True:
                del h.items[i]
                return None
            if r is not False:
                raise OutOfReach("symbolic list.remove")
        self.raise_exc(st, "ValueError", node)
        return []

    def b_list_extend(self, args, kws, st, node):
        self._mut(args[0], st, node).items.extend(self.iter_concrete(args[1], st))
        return None

    def b_list_index(self, args, kws, st, node):
        h = st.obj(args[0])
        for i, x in enumerate(h.items):
            if x is args[1]:
                return i
        raise OutOfReach("list.index")

    def b_tuple_index(self, args, kws, st, node):
        for i, x in enumerate(args[0]):
            if x is args[1] or (not is_z3(x) and not is_z3(args[1]) and x == args[1]):
                return i
        raise OutOfReach("tuple.index")

    def b_dict_get(self, args, kws, st, node):
        d = st.obj(args[0]).d
        k = args[1]
        dflt = args[2] if len(args) > 2 else None
        return d.get(k, dflt)

    def b_dict_pop(self, args, kws, st, node):
        h = self._mut(args[0], st, node)
        k = args[1]
        if k in h.d:
            return h.d.pop(k)
        if len(args) > 2:
            return args[2]
        self.raise_exc(st, "KeyError", node)
        return []

    def b_dict_update(self, args, kws, st, node):
        h = self._mut(args[0], st, node)
        if len(args) > 1:
            o = args[1]
            if self.is_dict(o, st):
                h.d.update(st.obj(o).d)
            else:
                for k, v in self.iter_concrete(o, st):
                    h.d[k] = v
        h.d.update(kws)
        return None

    def b_dict_items(self, args, kws, st, node):
        return tuple((k, v) for k, v in st.obj(args[0]).d.items())

    def b_dict_keys(self, args, kws, st, node):
        return tuple(st.obj(args[0]).d.keys())

    def b_dict_values(self, args, kws, st, node):
        return tuple(st.obj(args[0]).d.values())

    def b_dict_setdefault(self, args, kws, st, node):
        h = self._mut(args[0], st, node)
        return h.d.setdefault(args[1], args[2] if len(args) > 2 else None)

    def b_real_items(self, args, kws, st, node):
        return tuple((self.wrap_real(k), self.wrap_real(v))
                     for k, v in args[0].obj.items())

    def b_real_get(self, args, kws, st, node):
        o = args[0].obj
        k = args[1]
        if is_z3(k):
            raise OutOfReach("symbolic key")
        return self.wrap_real(o.get(k, args[2] if len(args) > 2 else None))

    def b_real_keys(self, args, kws, st, node):
        return tuple(self.wrap_real(k) for k in args[0].obj.keys())

    def _strm(name):
        def f(self, args, kws, st, node):
            if all(isinstance(a, (str, int, tuple)) or a is None for a in args):
                return self.wrap_str_result(getattr(args[0], name)(*args[1:]), st)
            raise OutOfReach("str.%s on symbolic" % name)
        return f

    for _n in ("startswith", "endswith", "split", "rsplit", "strip", "lstrip",
               "rstrip", "replace", "lower", "upper", "join", "splitlines",
               "format", "isdigit", "find"):
        locals()["b_str_" + _n] = _strm(_n)
    del _n

    def wrap_str_result(self, r, st):
        if isinstance(r, list):
            ref = st.alloc("list")
            st.obj(ref).items = list(r)
            return ref
        return r

    def b_float_is_integer(self, args, kws, st, node):
        return z_isint(args[0])

    def b_operator_eq(self, args, kws, st, node):
        return self.compare(ast.Eq(), args[0], args[1], st, node)

    def b_operator_lt(self, args, kws, st, node):
        return self.compare(ast.Lt(), args[0], args[1], st, node)

    def b_operator_le(self, args, kws, st, node):
        return self.compare(ast.LtE(), args[0], args[1], st, node)

    def b_operator_gt(self, args, kws, st, node):
        return self.compare(ast.Gt(), args[0], args[1], st, node)

    def b_operator_ge(self, args, kws, st, node):
        return self.compare(ast.GtE(), args[0], args[1], st, node)

    b__operator_eq = b_operator_eq
    b__operator_lt = b_operator_lt
    b__operator_le = b_operator_le
    b__operator_gt = b_operator_gt
    b__operator_ge = b_operator_ge
