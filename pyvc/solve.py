"""Discharge verification conditions.

Phase 1: z3 5.x through its Python API with a short budget (most VCs take ms).
Phase 2 (only for what phase 1 leaves unknown): the same query as SMT-LIB 2
text to a portfolio of back ends run as parallel subprocesses — cvc5 1.0
(/usr/bin/cvc5), z3 5.1 CLI (z3-new) and z3 4.8.12 (/usr/bin/z3); the first
definite answer wins.  `unknown`/timeout is never mapped to a violation.
"""
import os
import re
import shutil
import subprocess
import tempfile
import time
import z3

Z3_FAST_MS = int(os.environ.get("PYVC_Z3_FAST_MS", "4000"))
PORTFOLIO_S = int(os.environ.get("PYVC_PORTFOLIO_S", "150"))
CVC5 = "/usr/bin/cvc5"
Z3NEW = shutil.which("z3-new") or "/usr/local/bin/z3-new"
Z3OLD = "/usr/bin/z3"


class Result:
    __slots__ = ("name", "kind", "verdict", "backend", "time", "model",
                 "func", "case", "detail")

    def __init__(self, vc):
        self.name, self.kind = vc.name, vc.kind
        self.func, self.case = vc.func, vc.case
        self.verdict, self.backend, self.time = None, None, 0.0
        self.model, self.detail = None, ""

    def as_dict(self):
        return {k: getattr(self, k) for k in self.__slots__}


def model_dict(m):
    out = {}
    for d in m.decls():
        if d.arity() != 0:
            continue
        out[d.name()] = str(m[d])
    return out


def _scale():
    return int(os.environ.get("PYVC_BUDGET_SCALE", "1") or 1)


def small_model(s):
    """Prefer a counter-model whose input parameters are small (replays fast)."""
    try:
        m = s.model()
        ps = [d for d in m.decls() if d.arity() == 0 and d.name().startswith("p:")]
        s.push()
        s.set("timeout", 2000)
        for d in ps:
            c = d()
            if z3.is_int(c):
                s.add(c >= -3000, c <= 3000)
            elif z3.is_real(c):
                s.add(c >= -100000, c <= 100000)
        out = None
        if s.check() == z3.sat:
            out = model_dict(s.model())
        s.pop()
        return out
    except Exception:
        return None


def solve_vc(vc, use_portfolio=True):
    r = Result(vc)
    t0 = time.time()
    if isinstance(vc.goal, str) and vc.goal == "SAT":
        s = z3.Solver()
        s.set("timeout", 20000 * _scale())
        s.add(*vc.pc)
        res = s.check()
        r.backend = "z3"
        r.verdict = ("proved" if res == z3.sat else
                     "vacuous" if res == z3.unsat else "unknown")
        if r.verdict == "unknown":
            # satisfiability (vacuity guard): any back end's verdict is enough
            verdict, backend, _ = portfolio(s)
            if verdict == "sat":
                r.verdict, r.backend = "proved", backend
            elif verdict == "unsat":
                r.verdict, r.backend = "vacuous", backend
        r.time = time.time() - t0
        return r
    if vc.goal is True:
        r.verdict, r.backend = "proved", "syntactic"
        return r
    s = z3.Solver()
    s.set("timeout", Z3_FAST_MS * _scale())
    s.add(*vc.pc)
    if vc.goal is not False:
        s.add(z3.Not(vc.goal))
    r.backend = "z3"
    if vc.defs:
        # opaque spec functions: first the abstraction (lemma instances only)
        s.push()
        s.add(*vc.lemmas)
        res = s.check()
        if res == z3.unsat:
            r.verdict, r.backend = "proved", "z3(opaque)"
            r.time = time.time() - t0
            return r
        s.pop()
        # reveal the definitions (exact); lemmas stay as redundant hints
        s.add(*vc.defs)
        s.add(*vc.lemmas)
    res = s.check()
    if res == z3.unsat:
        r.verdict = "proved"
    elif res == z3.sat:
        r.verdict = "refuted"
        r.model = model_dict(s.model())
        small = small_model(s)
        if small is not None:
            r.model = small
    else:
        r.verdict = "unknown"
        r.detail = s.reason_unknown()
        if use_portfolio == "defer":
            r.detail = "deferred"
            r.model = {"__smt2__": s.to_smt2()}
        elif use_portfolio:
            verdict, backend, model = portfolio(s)
            if verdict == "unsat":
                r.verdict, r.backend = "proved", backend
            elif verdict == "sat":
                r.verdict, r.backend, r.model = "refuted", backend, model
                if model is None:
                    # a refutation without a model cannot be replayed: keep it
                    # undecided rather than raise an unsupported alarm
                    r.verdict = "unknown"
                    r.detail = "%s says sat but gave no model" % backend
    r.time = time.time() - t0
    return r


_DEF_RE = re.compile(r"\(define-fun\s+(\|[^|]*\||[^\s()]+)\s+\(\)\s+(Int|Real|Bool)\s")


def parse_model(text):
    """Parse `(get-model)` output of z3 for nullary Int/Real/Bool constants."""
    out = {}
    for m in _DEF_RE.finditer(text):
        name = m.group(1).strip("|")
        i = m.end()
        depth, j = 0, i
        while j < len(text):
            ch = text[j]
            if ch == "(":
                depth += 1
            elif ch == ")":
                if depth == 0:
                    break
                depth -= 1
            j += 1
        val = " ".join(text[i:j].split())
        val = _sexp_num(val)
        out[name] = val
    return out


def _sexp_num(v):
    v = v.strip()
    m = re.fullmatch(r"\(-\s*(.+)\)", v)
    if m:
        inner = _sexp_num(m.group(1))
        return "-" + inner
    m = re.fullmatch(r"\(/\s*(\S+)\s+(\S+)\)", v)
    if m:
        return "%s/%s" % (m.group(1).rstrip(".0") or "0", m.group(2).rstrip(".0") or "0")
    if re.fullmatch(r"\d+\.0", v):
        return v[:-2]
    return v


def portfolio(solver, budget=None):
    return portfolio_text(solver.to_smt2(), budget)


def portfolio_text(text, budget=None, only=None, need_model=True):
    budget = budget or PORTFOLIO_S * min(2, _scale())
    text = text.replace("(check-sat)", "")
    d = tempfile.mkdtemp(prefix="pyvc")
    path = os.path.join(d, "q.smt2")
    pathm = os.path.join(d, "qm.smt2")
    with open(path, "w") as f:
        f.write("(set-logic ALL)\n" + text + "\n(check-sat)\n")
    with open(pathm, "w") as f:
        f.write("(set-option :produce-models true)\n(set-logic ALL)\n" + text +
                "\n(check-sat)\n(get-model)\n")
    cmds = []
    if os.path.exists(CVC5):
        cmds.append(("cvc5", [CVC5, "--tlimit=%d" % (budget * 1000), path]))
    if os.path.exists(Z3NEW):
        cmds.append(("z3-5.1-cli", [Z3NEW, "-T:%d" % budget, pathm]))
    if os.path.exists(Z3OLD):
        cmds.append(("z3-4.8", [Z3OLD, "-T:%d" % budget, pathm]))
    if only:
        cmds = [c for c in cmds if c[0] in only] or cmds
    procs = []
    for name, cmd in cmds:
        try:
            procs.append((name, subprocess.Popen(
                cmd, stdout=subprocess.PIPE, stderr=subprocess.DEVNULL, text=True)))
        except OSError:
            pass
    verdict, backend, model = None, None, None
    t0 = time.time()
    live = list(procs)
    try:
        while live and time.time() - t0 < budget + 5:
            for (name, p) in list(live):
                if p.poll() is None:
                    continue
                live.remove((name, p))
                out = p.stdout.read()
                first = out.strip().splitlines()[0].strip() if out.strip() else ""
                if first == "unsat":
                    verdict, backend = "unsat", name
                    live = []
                    break
                if first == "sat":
                    verdict, backend = "sat", name
                    if name != "cvc5":
                        model = parse_model(out)
                        live = []
                        break
                    if not need_model:
                        live = []
                        break
                    # cvc5 said sat: keep waiting for a z3 to produce the model
                    live = [x for x in live if x[0] != "cvc5"]
            time.sleep(0.05)
    finally:
        for (name, p) in procs:
            if p.poll() is None:
                p.kill()
            try:
                p.stdout.close()
            except Exception:
                pass
        shutil.rmtree(d, ignore_errors=True)
    return verdict, backend, model


def discharge(vcs, use_portfolio=True):
    return [solve_vc(vc, use_portfolio) for vc in vcs]
