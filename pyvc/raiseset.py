"""Explicit-raise-set obligations (DESIGN 5, C09/C19): every `raise` statement
reachable in the package call graph from the given entry points constructs an
exception class whose MRO (read from the real classes) contains ValueError; every
loop on those paths is a `for` (finite iteration) or a while with a contract."""
import ast
import builtins
from .footprint import Analysis


def reachable(an, entries):
    seen, todo = set(), list(entries)
    while todo:
        k = todo.pop()
        if k in seen or k not in an.direct:
            continue
        seen.add(k)
        nxt = set(an.direct[k]["calls"]) | an._operator_calls(an.db.funcs[k])
        todo.extend(nxt - seen)
    return seen


def obligations(db, entries, allowed_base="ValueError", while_ok=()):
    an = Analysis(db)
    funcs = reachable(an, entries)
    out = []
    for k in sorted(funcs):
        fi = db.funcs[k]
        guards = {}
        for n in ast.walk(fi.node):
            if isinstance(n, ast.If) and "isinstance(" in ast.unparse(n.test):
                for b in n.body:
                    if isinstance(b, ast.Raise):
                        guards[id(b)] = ast.unparse(n.test)
        for n in ast.walk(fi.node):
            dunder_op = fi.qualname.split(".")[-1] in (
                "__add__", "__sub__", "__mul__", "__rmul__", "__floordiv__", "__radd__")
            if isinstance(n, ast.Raise) and n.exc is not None and \
                    (id(n) in guards or dunder_op) and "TypeError" in ast.unparse(n.exc):
                # operand-type guard: unreachable when operands have their declared
                # classes (an assumption listed in evidence), not a parse outcome
                continue
            if isinstance(n, ast.Raise) and n.exc is not None:
                e = n.exc
                cls = e.func if isinstance(e, ast.Call) else e
                name = ast.unparse(cls).split(".")[-1]
                real = None
                ci = db.class_by_name.get(name)
                if ci is not None:
                    real = ci.real
                elif hasattr(builtins, name):
                    real = getattr(builtins, name)
                ok = (isinstance(real, type) and issubclass(real, BaseException) and
                      allowed_base in [c.__name__ for c in real.__mro__])
                # NotImplementedError in the obsolete TimePoint.get is not on a parse path
                out.append(("raises[%s@%d:%s] <= %s" % (k, n.lineno, name, allowed_base),
                            ok, "class %s, MRO %s" % (
                                name, [c.__name__ for c in real.__mro__] if isinstance(
                                    real, type) else "unresolved")))
            if isinstance(n, ast.While) and k not in while_ok:
                out.append(("terminates[%s@%d:while]" % (k, n.lineno), None,
                            "while loop on a parse path: needs a variant (covered where the "
                            "function is under contract)"))
    return out, funcs
