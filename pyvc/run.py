"""Task runner: one (function, case, mode) per task, 16-process pool."""
import multiprocessing as mp
import os
import re
import sys
import time
import traceback

VERIF = os.path.dirname(os.path.dirname(os.path.abspath(__file__)))
if VERIF not in sys.path:
    sys.path.insert(0, VERIF)

_ENG = {}


def get_engine(mode):
    from pyvc.engine import Engine
    import contracts
    e = _ENG.get(mode)
    if e is None:
        reg = contracts.load_all()
        e = Engine(mode=mode, contracts=dict(reg))
        # robustness against the cache-key refactoring: a contract written for
        # "m:_f(args, _)" also binds to "m:f(args)" when "_f" no longer exists
        import copy as _copy
        for k in list(e.contracts):
            m, q = k.split(":")
            if k not in e.db.funcs and q.startswith("_") and (m + ":" + q[1:]) in e.db.funcs:
                c2 = _copy.copy(e.contracts[k])
                c2.key = m + ":" + q[1:]
                c2.inline, c2.use_at_calls = False, True
                e.contracts[c2.key] = c2
                e.aliases[k] = c2.key
        for hook in getattr(contracts, "ENGINE_HOOKS", []):
            hook(e)
        _ENG[mode] = e
    else:
        e.db.real["data"].CALENDAR.set_mode(mode)
        e.spec_mod.set_mode(mode)
    e.vcs = []
    e.reset_stats()
    return e


def run_task(task):
    """task = dict(key, case, mode). Returns dict with results per obligation."""
    from pyvc.values import OutOfReach, ContractBindingError
    from pyvc.solve import solve_vc
    t0 = time.time()
    out = {"task": task, "results": [], "status": "ok", "error": None}
    try:
        e = get_engine(task["mode"])
        if task.get("kind") == "lemma":
            import contracts as _c
            from pyvc.lemmas import lemma_vc
            for vc in lemma_vc(e, _c.LEMMAS[task["lemma"]]):
                r = solve_vc(vc, use_portfolio=task.get("portfolio", "defer"))
                out["results"].append(r.as_dict())
            out["wall_s"] = time.time() - t0
            return out
        task = dict(task)
        task["key"] = e.aliases.get(task["key"], task["key"])
        c = e.contracts[task["key"]]
        case = [k for k in c.cases if k.name == task["case"]][0]
        if task.get("extra_requires"):
            import copy as _copy
            case = _copy.copy(case)
            case.requires = list(case.requires) + list(task["extra_requires"])
        e.verify(task["key"], case, region=task.get("region"))
        out["gen_s"] = time.time() - t0
        for vc in e.vcs:
            r = solve_vc(vc, use_portfolio=task.get("portfolio", "defer"))
            out["results"].append(r.as_dict())
        out["stats"] = {k: (sorted(v) if isinstance(v, set) else v)
                        for k, v in e.stats.items()}
        out["recipe"] = e.param_recipe
        out["contract"] = {
            "requires": c.requires + list(case.requires) + [
                rg["when"] if rg["name"] == task.get("region") else "not (%s)" % rg["when"]
                for rg in c.regions],
            "ensures": ([r for rg in c.regions if rg["name"] == task.get("region")
                         for r in rg["ensures"]] if task.get("region") else
                        (case.ensures if case.ensures is not None else c.ensures)),
            "returns": c.returns if case.ensures is None else None,
            "raises": case.raises if case.raises is not None else c.raises,
            "modifies_self": c.modifies_self}
        info = e.db.funcs[task["key"]]
        out["func"] = {"key": info.key, "lines": info.lines(), "sha": info.sha()}
    except OutOfReach as ex:
        out["status"] = "out-of-reach"
        out["error"] = str(ex)
        try:
            out["recipe"] = e.param_recipe
            out["contract"] = {
                "requires": c.requires + list(case.requires) + [
                rg["when"] if rg["name"] == task.get("region") else "not (%s)" % rg["when"]
                for rg in c.regions],
                "ensures": case.ensures if case.ensures is not None else c.ensures,
                "returns": c.returns if case.ensures is None else None,
                "raises": case.raises if case.raises is not None else c.raises,
                "modifies_self": c.modifies_self}
        except Exception:
            pass
    except ContractBindingError as ex:
        out["status"] = "binding-error"
        out["error"] = str(ex)
    except Exception as ex:
        out["status"] = "crash"
        out["error"] = "%s: %s\n%s" % (type(ex).__name__, ex, traceback.format_exc())
    out["wall_s"] = time.time() - t0
    return out


def _portfolio_job(job):
    from pyvc.solve import portfolio_text
    t0 = time.time()
    text, budget = job[0], job[1]
    verdict, backend, model = portfolio_text(text, budget, job[2] if len(job) > 2 else None,
                                             job[3] if len(job) > 3 else True)
    return verdict, backend, model, time.time() - t0


def _is_violation(r, x):
    return x["verdict"] == "refuted" and not r["task"].get("canary") \
        and ".region[" not in x["name"]


def run_tasks(tasks, procs=None, retry=True):
    procs = procs or int(os.environ.get("PYVC_PROCS", "16"))
    _t0 = time.time()

    def _tick(label):
        if os.environ.get("PYVC_TIMING"):
            sys.stderr.write("[pyvc timing] %s at %.1fs\n" % (label, time.time() - _t0))
    ctx = mp.get_context("fork")
    if procs <= 1 or len(tasks) <= 1:
        res = [run_task(t) for t in tasks]
    else:
        with ctx.Pool(min(procs, len(tasks))) as pool:
            res = pool.map(run_task, tasks, chunksize=1)
    _tick("phase 1 done (%d tasks)" % len(tasks))
    # phase 2: deferred (z3-fast unknown) obligations to the solver portfolio
    jobs = []
    expected_sat = set()     # obligations whose refutation is EXPECTED (canaries, the general
    #                          clauses inside a recorded finding's region): never a reason to stop
    for r in res:
        for x in r["results"]:
            if x["verdict"] == "unknown" and x["detail"] == "deferred":
                if r["task"].get("canary") or ".region[" in x["name"]:
                    expected_sat.add(len(jobs))
                jobs.append((x, x["model"]["__smt2__"]))
                x["model"] = None
    if jobs and any(_is_violation(r, x) for r in res for x in r.get("results", [])):
        # something is already refuted: this run reports that violation whatever the
        # open obligations turn out to be, so they are not pursued (on a broken tree
        # there can be hundreds, each worth minutes of portfolio time)
        for (x, _) in jobs:
            x["detail"] = "not pursued: another obligation of this run is already refuted"
        jobs = []
    if jobs:
        from pyvc.solve import PORTFOLIO_S, _scale
        n = max(1, min(len(jobs), procs // 3))
        # the whole phase fits a wall-clock allowance: with many open obligations each
        # gets a smaller share (never below 30 s)
        wall = int(os.environ.get("PYVC_PHASE2_WALL_S", "900")) * _scale()
        full = PORTFOLIO_S * min(2, _scale())
        per = int(max(30, min(full, wall * n // len(jobs))))
        outs = [None] * len(jobs)
        todo = list(range(len(jobs)))
        if len(jobs) > 2 * n:
            # phase 2a: cvc5 alone decides most of what z3's 4 s leave open (proofs only: a
            # cvc5 `sat` carries no model here and is left to phase 2b); one process per
            # job, so all cores work on different obligations
            first = [i for i in range(len(jobs)) if i not in expected_sat]
            with ctx.Pool(max(1, min(procs, len(first)))) as pool:
                pre = pool.map(_portfolio_job,
                               [(jobs[i][1], min(per, 25), ("cvc5",)) for i in first],
                               chunksize=1)
            done = set()
            for i, o in zip(first, pre):
                if o[0] == "unsat":
                    outs[i] = o
                    done.add(i)
            todo = [i for i in range(len(jobs)) if i not in done]
        if todo:
            with ctx.Pool(min(n, len(todo))) as pool:
                # an EXPECTED refutation (canary, general clause inside a recorded finding's
                # region) is matched by name: cvc5's `sat` is enough, no model needed
                it = pool.imap(_portfolio_job, [(jobs[i][1], per, None, i not in expected_sat)
                                                for i in todo], chunksize=1)
                for i in todo:
                    outs[i] = it.next()
                    if outs[i][0] == "sat" and outs[i][2] is not None and \
                            i not in expected_sat:
                        pool.terminate()   # a refutation: the rest cannot change the verdict
                        break
        outs = [o if o is not None else (None, None, None, 0.0) for o in outs]
        for (x, _), (verdict, backend, model, dt) in zip(jobs, outs):
            x["time"] += dt
            x["detail"] = "phase2"
            if verdict == "unsat":
                x["verdict"], x["backend"] = "proved", backend
            elif verdict == "sat" and model is not None:
                x["verdict"], x["backend"], x["model"] = "refuted", backend, model
            elif verdict == "sat":
                # a definite answer of a trusted back end; without a model the violation is
                # reported with `no-failing-input-found`
                x["verdict"], x["backend"], x["model"] = "refuted", backend, {}
                x["detail"] = "%s says sat; no model was produced within the budget" % backend
            elif verdict is None and backend is None and dt == 0.0:
                x["detail"] = "not pursued: another obligation of this run was refuted first"
            else:
                x["detail"] = "all back ends: unknown/timeout"
    _tick("phase 2 done (%d jobs)" % len(jobs))
    # phase 3: one retry of tasks that still have an undecided obligation (solver
    # verdicts can flip under load); a fresh process, fewer workers, larger budget
    # (pointless when something is already refuted: the check reports that violation)
    if retry and not any(_is_violation(r, x) for r in res for x in r.get("results", [])):
        again = [i for i, r in enumerate(res)
                 if any(x["verdict"] == "unknown" for x in r.get("results", []))]
        if again and len(again) <= 24:
            os.environ["PYVC_BUDGET_SCALE"] = "3"
            try:
                res2 = run_tasks([res[i]["task"] for i in again], procs=max(1, procs // 2),
                                 retry=False)
            finally:
                os.environ.pop("PYVC_BUDGET_SCALE", None)
            for i, r2 in zip(again, res2):
                if r2.get("status") != "ok":
                    continue
                names = [x["name"] for x in r2["results"]]
                new = {x["name"]: x for x in r2["results"] if names.count(x["name"]) == 1}
                for x in res[i]["results"]:
                    y = new.get(x["name"])
                    if x["verdict"] == "unknown" and y and y["verdict"] in ("proved", "refuted"):
                        y["detail"] = (y.get("detail") or "") + " (decided on retry)"
                        x.update(y)
    return res


def tasks_for(keys, modes, contracts_reg):
    ts = []
    for k in keys:
        for case in contracts_reg[k].cases:
            for m in modes:
                if getattr(case, "modes", None) and m not in case.modes:
                    continue
                ts.append({"key": k, "case": case.name, "mode": m})
                for rg in contracts_reg[k].regions:
                    if re.fullmatch(rg.get("cases", ".*"), case.name):
                        ts.append({"key": k, "case": case.name, "mode": m,
                                   "region": rg["name"]})
    return ts


if __name__ == "__main__":
    import contracts
    reg = contracts.load_all()
    keys = sys.argv[1].split(",") if len(sys.argv) > 1 and sys.argv[1] not in ("", "all") else [
        k for k in reg if reg[k].cases]
    modes = sys.argv[2].split(",") if len(sys.argv) > 2 else ["gregorian"]
    verbose = "-v" in sys.argv
    t0 = time.time()
    tasks = tasks_for(keys, modes, reg)
    if "-l" in sys.argv:
        tasks = [{"kind": "lemma", "lemma": n, "mode": m}
                 for n in contracts.LEMMAS for m in modes]
    res = run_tasks(tasks,
                    procs=1 if "-s" in sys.argv else None)
    for r in res:
        t = r["task"]
        t.setdefault("key", "lemma:" + t.get("lemma", "?"))
        t.setdefault("case", "")
        bad = [x for x in r["results"] if x["verdict"] != "proved"]
        print("%-55s %-14s %-10s %s obl=%d bad=%d %.1fs" % (
            t["key"], t["case"], t["mode"], r["status"], len(r["results"]),
            len(bad), r["wall_s"]))
        if r["error"]:
            print("    ", r["error"][:2000])
        for x in (r["results"] if verbose else bad):
            print("     %-9s %-60s %.2fs %s" % (x["verdict"], x["name"], x["time"],
                  ({k: v for k, v in (x["model"] or {}).items() if k.startswith("p:")}
                   if x["verdict"] == "refuted" else x["detail"])))
    print("total %.1fs" % (time.time() - t0))
