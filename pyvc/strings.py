"""Field segments: the symbolic part of a segmented string (DESIGN 2.2, tier 4).

A DigitField is a run of exactly `width` ASCII digits whose numeric value is
the Int variable `var` (0 <= var < 10**width is assumed where it is created).
Decode obligations therefore end up as INTEGER VCs over the field values; no
word equations or str.to_int terms are generated."""
import ast
import z3
from .values import OutOfReach, z_not


class DigitField:
    def __init__(self, width, var, frac=None):
        self.width, self.var, self.frac = width, var, frac

    def pyvc_int(self, E, st, node):
        return self.var

    def pyvc_float(self, E, st, node):
        return z3.ToReal(self.var)

    def pyvc_truth(self, E, st):
        return [(st, self.width > 0)]

    def pyvc_len(self, E, st):
        return self.width

    def pyvc_isinstance(self, t):
        return t in (str, object)

    def pyvc_compare(self, E, op, other, st, swapped):
        if isinstance(other, str):
            if other.isdigit() and len(other) == self.width:
                r = self.var == int(other)
            else:
                r = False            # a digit run never equals a non-digit text
            if isinstance(op, ast.Eq):
                return [(st, r)]
            if isinstance(op, ast.NotEq):
                return [(st, z_not(r))]
        raise OutOfReach("comparison of a digit field")

    def pyvc_binop(self, E, op, other, st, swapped):
        if isinstance(op, ast.Add) and swapped and other == "0.":
            if self.frac is not None:
                return [(st, DecimalText(self.frac))]
            E.fresh_n += 1
            r = z3.Real("frac!%d" % E.fresh_n)
            st.assume(z3.And(r >= 0, r < 1))
            # value of "0." + digits: digits / 10**width, a real in [0, 1)
            return [(st, DecimalText(r))]
        raise OutOfReach("string operation on a digit field")

    def pyvc_attr(self, E, name, st):
        if name == "endswith":
            from .values import BoundMethod, BuiltinRef
            return [(st, _Never())]
        raise OutOfReach("attribute %s of a digit field" % name)


class DecimalText:
    """The text "0.<digits>": float() gives a real in [0, 1)."""

    def __init__(self, r):
        self.r = r

    def pyvc_float(self, E, st, node):
        return self.r

    def pyvc_int(self, E, st, node):
        E.raise_exc(st, "ValueError", node)
        return []

    def pyvc_isinstance(self, t):
        return t in (str, object)

    def pyvc_compare(self, E, op, other, st, swapped):
        if isinstance(op, ast.Eq):
            return [(st, False)]
        if isinstance(op, ast.NotEq):
            return [(st, True)]
        raise OutOfReach("comparison of a decimal text")


class _Never:
    def pyvc_call(self, E, args, kws, st, node):
        return [(st, False)]


class FmtResult:
    """The text  template % mapping  with symbolic values: what each %(name)...
    conversion prints is the value of mapping[name] (formatting itself is a
    builtin axiom: %0Nd of an int in range is its N-digit spelling)."""

    def __init__(self, template, mapping):
        self.template, self.mapping = template, mapping

    def pyvc_isinstance(self, t):
        return t in (str, object)
