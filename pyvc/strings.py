"""Field segments: the symbolic part of a segmented string (DESIGN 2.2, tier 4).

A DigitField is a run of exactly `width` ASCII digits whose numeric value is
the Int variable `var` (0 <= var < 10**width is assumed where it is created).
Decode obligations therefore end up as INTEGER VCs over the field values; no
word equations or str.to_int terms are generated."""
import ast
import z3
from .values import OutOfReach, z_not


class DigitField:
    def __init__(self, width, var, frac=None):
        self.width, self.var, self.frac = width, var, frac

    def pyvc_int(self, E, st, node):
        return self.var

    def pyvc_float(self, E, st, node):
        return z3.ToReal(self.var)

    def pyvc_truth(self, E, st):
        return [(st, self.width > 0)]

    def pyvc_len(self, E, st):
        return self.width

    def pyvc_isinstance(self, t):
        return t in (str, object)

    def pyvc_compare(self, E, op, other, st, swapped):
        if isinstance(other, str):
            if other.isdigit() and len(other) == self.width:
                r = self.var == int(other)
            else:
                r = False            # a digit run never equals a non-digit text
            if isinstance(op, ast.Eq):
                return [(st, r)]
            if isinstance(op, ast.NotEq):
                return [(st, z_not(r))]
        raise OutOfReach("comparison of a digit field")

    def pyvc_binop(self, E, op, other, st, swapped):
        if isinstance(op, ast.Add) and swapped and other == "0.":
            if self.frac is not None:
                return [(st, DecimalText(self.frac))]
            E.fresh_n += 1
            r = z3.Real("frac!%d" % E.fresh_n)
            st.assume(z3.And(r >= 0, r < 1))
            # value of "0." + digits: digits / 10**width, a real in [0, 1)
            return [(st, DecimalText(r))]
        if isinstance(op, ast.Add) and Text.of(other) is not None:
            return Text([self]).pyvc_binop(E, op, other, st, swapped)
        raise OutOfReach("string operation on a digit field")

    def pyvc_contains(self, E, item, st):
        if isinstance(item, str) and item and not item.isdigit():
            return [(st, False)]
        raise OutOfReach("membership test on a digit field")

    def pyvc_attr(self, E, name, st):
        if name == "endswith":
            from .values import BoundMethod, BuiltinRef
            return [(st, _Never())]
        if name in ("split", "rsplit", "startswith", "replace"):
            return Text([self]).pyvc_attr(E, name, st)
        raise OutOfReach("attribute %s of a digit field" % name)


class DecimalText:
    """The text "0.<digits>": float() gives a real in [0, 1)."""

    def __init__(self, r):
        self.r = r

    def pyvc_float(self, E, st, node):
        return self.r

    def pyvc_int(self, E, st, node):
        E.raise_exc(st, "ValueError", node)
        return []

    def pyvc_isinstance(self, t):
        return t in (str, object)

    def pyvc_compare(self, E, op, other, st, swapped):
        if isinstance(op, ast.Eq):
            return [(st, False)]
        if isinstance(op, ast.NotEq):
            return [(st, True)]
        raise OutOfReach("comparison of a decimal text")


class _Never:
    def pyvc_call(self, E, args, kws, st, node):
        return [(st, False)]


class FmtResult:
    """The text  template % mapping  with symbolic values: what each %(name)...
    conversion prints is the value of mapping[name] (formatting itself is a
    builtin axiom: %0Nd of an int in range is its N-digit spelling)."""

    def __init__(self, template, mapping):
        self.template, self.mapping = template, mapping

    def pyvc_isinstance(self, t):
        return t in (str, object)

    # ---- the same text as a piecewise Text (needed when the library goes on to
    # split / parse what it formatted): %0Nd of a value proved to be in
    # 0..10**N-1 is an N-digit field; %s of a text is that text
    def as_text(self, E, st):
        import re as _re
        from .values import IntStr, trunc_int, is_z3
        out = []
        tpl = Text.of(self.template)
        if tpl is None:
            raise OutOfReach("formatted text with an opaque template")
        for pc in tpl.pieces:
            if not isinstance(pc, str):
                out.append(pc)
                continue
            pos = 0
            for m in _re.finditer(r"%(?:\((\w+)\))(0?)(\d*)([ds])|%%", pc):
                out.append(pc[pos:m.start()])
                pos = m.end()
                if m.group(0) == "%%":
                    out.append("%")
                    continue
                name, zero, width, conv = m.groups()
                v = self.mapping[name]
                if conv == "s":
                    t = Text.of(v)
                    if t is None:
                        if is_z3(v) and z3.is_int(v):
                            t = Text([IntStr(v)])
                        elif isinstance(v, (int, float)) and not isinstance(v, bool):
                            t = Text([str(v)])
                        else:
                            raise OutOfReach("%%s of %r" % (type(v).__name__,))
                    out.append(t)
                    continue
                if not is_z3(v):
                    out.append(("%" + zero + width + "d") % v)
                    continue
                w = int(width or 0)
                vi = trunc_int(v)
                if zero and w:
                    fits = z3.And(vi >= 0, vi < 10 ** w)
                    if E.decide(st, fits) is not True:
                        # assert, then assume: the value fits the field width
                        E.oblige("%s.format[%%(%s)0%dd fits]" % (E.cur_name, name, w), st, fits,
                                 kind="safety")
                        st.assume(fits)
                    out.append(DigitField(w, vi))
                elif not w:
                    out.append(IntStr(vi))
                else:
                    raise OutOfReach("%%%s%sd of a value not known to fit" % (zero, width))
            if "%" in pc[pos:]:
                raise OutOfReach("unsupported conversion in %r" % pc[pos:])
            out.append(pc[pos:])
        return Text(out)

    def _view(self, E, st):
        return self.as_text(E, st).simplest()

    def pyvc_attr(self, E, name, st):
        v = self._view(E, st)
        if isinstance(v, str):
            from .values import BoundMethod, BuiltinRef
            return [(st, BoundMethod(BuiltinRef("str." + name), v))]
        return v.pyvc_attr(E, name, st)

    def pyvc_contains(self, E, item, st):
        v = self._view(E, st)
        if isinstance(v, str):
            return [(st, item in v)]
        return v.pyvc_contains(E, item, st)

    def pyvc_slice(self, E, lo, hi, step, st):
        return Text.of(self._view(E, st)).pyvc_slice(E, lo, hi, step, st)

    def pyvc_binop(self, E, op, other, st, swapped):
        if isinstance(other, FmtResult):
            other = other._view(E, st)
        return Text.of(self._view(E, st)).pyvc_binop(E, op, other, st, swapped)

    def pyvc_compare(self, E, op, other, st, swapped):
        if isinstance(other, FmtResult):
            other = other._view(E, st)
        return Text.of(self._view(E, st)).pyvc_compare(E, op, other, st, swapped)


# ---------------------------------------------------------------- piecewise texts
# A Text is a string known as a SEQUENCE OF PIECES: concrete str pieces and
# symbolic number pieces (IntStr: the decimal spelling of an Int term; DecStr:
# digits, a decimal mark, digits).  String operations the library performs on
# such texts (concatenation, startswith/endswith, slicing off concrete ends,
# replace of a non-digit character, regex search - see textlex) are decided on
# the piece structure; no word equations are generated.
def _digits_only(s):
    return all(c in "0123456789-" for c in s)


class DecStr:
    """The text  <digits><mark><digits>  whose float() is the real `value`
    (>= 0; floats as reals); mark is ',' or '.'."""

    def __init__(self, value, mark):
        self.value, self.mark = value, mark

    def pyvc_isinstance(self, t):
        return t in (str, object)

    def pyvc_float(self, E, st, node):
        if self.mark != ".":
            E.raise_exc(st, "ValueError", node)
            return []
        return self.value

    def pyvc_int(self, E, st, node):
        E.raise_exc(st, "ValueError", node)
        return []

    def pyvc_truth(self, E, st):
        return [(st, True)]

    def pyvc_contains(self, E, item, st):
        if isinstance(item, str) and len(item) == 1 and not item.isdigit():
            return [(st, item == self.mark)]
        raise OutOfReach("membership test on a decimal text")

    def pyvc_attr(self, E, name, st):
        if name == "replace":
            return [(st, _Method(self._replace))]
        raise OutOfReach("attribute %s of a decimal text" % name)

    def _replace(self, E, args, kws, st, node):
        a, b = args[:2]
        if a in (",", ".") and b in (",", "."):
            return [(st, DecStr(self.value, b if a == self.mark else self.mark))]
        raise OutOfReach("replace on a decimal text")


class _Method:
    def __init__(self, fn):
        self.fn = fn

    def pyvc_call(self, E, args, kws, st, node):
        return self.fn(E, args, kws, st, node)


def is_piece(v):
    from .values import IntStr
    return isinstance(v, (str, IntStr, DecStr, DigitField))


class Text:
    def __init__(self, pieces):
        out = []
        for p in pieces:
            if isinstance(p, Text):
                ps = p.pieces
            else:
                ps = [p]
            for q in ps:
                if isinstance(q, str):
                    if not q:
                        continue
                    if out and isinstance(out[-1], str):
                        out[-1] += q
                        continue
                out.append(q)
        self.pieces = out

    def __repr__(self):
        from .values import IntStr
        return "Text(%s)" % " ".join(
            repr(p) if isinstance(p, str) else "<%s>" % (
                p.term if isinstance(p, IntStr) else p.var if isinstance(p, DigitField)
                else p.value) for p in self.pieces)

    @staticmethod
    def of(v):
        if isinstance(v, Text):
            return v
        if is_piece(v):
            return Text([v])
        return None

    def simplest(self):
        if not self.pieces:
            return ""
        if len(self.pieces) == 1:
            return self.pieces[0]
        return self

    def pyvc_isinstance(self, t):
        return t in (str, object)

    def pyvc_truth(self, E, st):
        return [(st, bool(self.pieces))]

    def pyvc_binop(self, E, op, other, st, swapped):
        if isinstance(other, FmtResult):
            other = other._view(E, st)
        o = Text.of(other)
        if isinstance(op, ast.Add) and o is not None:
            r = Text(o.pieces + self.pieces) if swapped else Text(self.pieces + o.pieces)
            return [(st, r.simplest())]
        if isinstance(op, ast.Mod) and not swapped and E.is_dict(other, st):
            import re as _re
            d = st.obj(other).d
            for pc in self.pieces:
                if isinstance(pc, str):
                    for nm in _re.findall(r"%\((\w+)\)", pc):
                        if nm not in d:
                            E.raise_exc(st, "KeyError", None)
                            return []
            return [(st, FmtResult(self, dict(d)))]
        raise OutOfReach("string operation on a piecewise text")

    def pyvc_compare(self, E, op, other, st, swapped):
        o = Text.of(other)
        if o is None or not isinstance(op, (ast.Eq, ast.NotEq)):
            if isinstance(op, (ast.Eq, ast.NotEq)):
                return [(st, isinstance(op, ast.NotEq))]
            raise OutOfReach("ordering of piecewise texts")
        eq = text_equal(E, self, o, st)
        return [(st, eq if isinstance(op, ast.Eq) else z_not(eq))]

    def pyvc_contains(self, E, item, st):
        # `item in text` for a non-digit character
        from .values import IntStr
        if isinstance(item, str) and len(item) == 1 and not item.isdigit() and \
                all(isinstance(p, (str, DigitField)) or (
                    item not in ",." and not (item == "-" and isinstance(p, IntStr)))
                    for p in self.pieces):
            return [(st, any(isinstance(p, str) and item in p for p in self.pieces))]
        raise OutOfReach("membership test %r on %r" % (item, self))

    def pyvc_len(self, E, st):
        n = 0
        for p in self.pieces:
            if isinstance(p, str):
                n += len(p)
            elif isinstance(p, DigitField):
                n += p.width
            else:
                raise OutOfReach("len of a piecewise text with a variable-width piece")
        return n

    def _split(self, E, args, kws, st, node, right=False):
        sep = args[0] if args else None
        maxsplit = args[1] if len(args) > 1 else kws.get("maxsplit", -1)
        if not (isinstance(sep, str) and len(sep) == 1 and not sep.isdigit()) or \
                not isinstance(maxsplit, int):
            raise OutOfReach("split(%r) on a piecewise text" % (sep,))
        if sep in ",." and any(isinstance(p, DecStr) for p in self.pieces):
            raise OutOfReach("split at a decimal mark")
        if sep == "-" and any(not isinstance(p, (str, DigitField)) for p in self.pieces):
            raise OutOfReach("split at '-' next to an int spelling")
        # positions of the separator: only inside concrete pieces
        parts, cur = [], []
        for p in self.pieces:
            if isinstance(p, str):
                segs = p.split(sep)
                cur.append(segs[0])
                for sg in segs[1:]:
                    parts.append(cur)
                    cur = [sg]
            else:
                cur.append(p)
        parts.append(cur)
        if maxsplit >= 0 and len(parts) - 1 > maxsplit:
            if right:
                head = parts[:len(parts) - maxsplit]
                merged = []
                for i, h in enumerate(head):
                    merged += h + ([sep] if i + 1 < len(head) else [])
                parts = [merged] + parts[len(parts) - maxsplit:]
            else:
                tail = parts[maxsplit:]
                merged = []
                for i, h in enumerate(tail):
                    merged += h + ([sep] if i + 1 < len(tail) else [])
                parts = parts[:maxsplit] + [merged]
        r = st.alloc("list")
        st.obj(r).items = [Text(x).simplest() for x in parts]
        return [(st, r)]

    def pyvc_attr(self, E, name, st):
        m = {"startswith": self._startswith, "endswith": self._endswith,
             "replace": self._replace, "split": self._split,
             "rsplit": lambda E, a, k, s_, n: self._split(E, a, k, s_, n, right=True)}.get(name)
        if m is None:
            raise OutOfReach("attribute %s of a piecewise text" % name)
        return [(st, _Method(m))]

    def _startswith(self, E, args, kws, st, node):
        pre = args[0]
        first = self.pieces[0] if self.pieces else ""
        if isinstance(pre, str):
            if isinstance(first, str) and len(pre) <= len(first):
                return [(st, first.startswith(pre))]
            if not isinstance(first, str) and pre and not _digits_only(pre[0]):
                return [(st, False)]          # a number piece starts with a digit or '-'
            if not isinstance(first, str) and pre == "-":
                from .values import IntStr
                if isinstance(first, IntStr):
                    return [(st, first.term < 0)]
                return [(st, False)]
            if isinstance(first, DigitField) and pre and not pre[0].isdigit():
                return [(st, False)]
        raise OutOfReach("startswith(%r) on %r" % (pre, self))

    def _endswith(self, E, args, kws, st, node):
        suf = args[0]
        last = self.pieces[-1] if self.pieces else ""
        if isinstance(suf, str):
            if isinstance(last, str) and len(suf) <= len(last):
                return [(st, last.endswith(suf))]
            if not isinstance(last, str) and suf and not suf[-1].isdigit():
                return [(st, False)]          # a number piece ends with a digit
        raise OutOfReach("endswith(%r) on %r" % (suf, self))

    def _replace(self, E, args, kws, st, node):
        a, b = args[:2]
        if not (isinstance(a, str) and isinstance(b, str) and len(a) == 1 and not _digits_only(a)):
            raise OutOfReach("replace(%r, ...) on a piecewise text" % (a,))
        out = []
        for p in self.pieces:
            if isinstance(p, str):
                out.append(p.replace(a, b))
            elif isinstance(p, DecStr):
                if a == p.mark:
                    if b not in (",", "."):
                        raise OutOfReach("replace of a decimal mark by %r" % b)
                    out.append(DecStr(p.value, b))
                else:
                    out.append(p)
            else:
                out.append(p)
        return [(st, Text(out).simplest())]

    def pyvc_slice(self, E, lo, hi, step, st):
        if step not in (None, 1) or any(not (x is None or isinstance(x, int)) for x in (lo, hi)):
            raise OutOfReach("symbolic slice of a piecewise text")
        ps = list(self.pieces)
        if lo not in (None, 0):
            if lo < 0 or not ps or not isinstance(ps[0], str) or len(ps[0]) < lo:
                raise OutOfReach("slice start inside a symbolic piece")
            ps[0] = ps[0][lo:]
        if hi is not None:
            if hi >= 0 or not ps or not isinstance(ps[-1], str) or len(ps[-1]) < -hi:
                raise OutOfReach("slice end inside a symbolic piece")
            ps[-1] = ps[-1][:hi]
        return [(st, Text(ps).simplest())]


def text_equal(E, a, b, st):
    """Equality of two piecewise texts with the same piece structure (numbers are
    compared by value: the decimal spelling of an integer is injective)."""
    from .values import IntStr, z_and
    def skeleton(t):
        return "".join(c for p in t.pieces if isinstance(p, str) for c in p
                       if not c.isdigit() and c not in ",.-")
    if len(a.pieces) != len(b.pieces) or any(
            type(p) is not type(q) for p, q in zip(a.pieces, b.pieces)):
        if all(isinstance(p, str) for p in a.pieces + b.pieces):
            return "".join(a.pieces) == "".join(b.pieces)
        # symbolic pieces spell digits (and a sign / decimal mark) only: texts whose
        # other characters differ are different whatever the digits are
        if skeleton(a) != skeleton(b):
            return False
        raise OutOfReach("equality of piecewise texts of different structure: %r / %r" % (a, b))
    if [p for p in a.pieces if isinstance(p, str)] != [p for p in b.pieces if isinstance(p, str)] \
            and skeleton(a) != skeleton(b):
        return False
    cs = []
    for p, q in zip(a.pieces, b.pieces):
        if isinstance(p, str) and isinstance(q, str):
            if p != q:
                return False
        elif isinstance(p, IntStr) and isinstance(q, IntStr):
            cs.append(E.num_cmp(ast.Eq(), p.term, q.term))
        elif isinstance(p, DigitField) and isinstance(q, DigitField):
            if p.width != q.width:
                return False
            cs.append(E.num_cmp(ast.Eq(), p.var, q.var))
        elif isinstance(p, DecStr) and isinstance(q, DecStr):
            if p.mark != q.mark:
                return False
            cs.append(E.num_cmp(ast.Eq(), p.value, q.value))
        else:
            raise OutOfReach("equality of piecewise texts of different structure: %r / %r" % (a, b))
    out = True
    for c in cs:
        out = z_and(out, c)
    return out
