#!/usr/bin/env python3
"""Native witnesses of the known findings (run with /venv/bin/python or any
python; PYVC_REPO selects the tree).  exit 1 = the finding still reproduces,
exit 0 = it no longer does."""
import os
import sys
sys.path.insert(0, os.environ.get("PYVC_REPO", "/repo"))
from metomi.isodatetime.data import TimePoint, Duration, CALENDAR  # noqa


def c01_2400_plus_zero():
    p = TimePoint(year=2000, month_of_year=8, day_of_month=1, hour_of_day=24)
    r = p + Duration(days=0)
    return r.hour_of_day == 24        # field outside 0 <= h < 24


WITNESSES = {"c01_2400_plus_zero": c01_2400_plus_zero}

if __name__ == "__main__":
    sys.exit(1 if WITNESSES[sys.argv[1]]() else 0)
