#!/usr/bin/env python3
"""Native witnesses of the known findings (run with /venv/bin/python or any
python; PYVC_REPO selects the tree).  exit 1 = the finding still reproduces,
exit 0 = it no longer does."""
import os
import sys
sys.path.insert(0, os.environ.get("PYVC_REPO", "/repo"))
from metomi.isodatetime.data import TimePoint, Duration, CALENDAR  # noqa


def c01_2400_plus_zero():
    p = TimePoint(year=2000, month_of_year=8, day_of_month=1, hour_of_day=24)
    r = p + Duration(days=0)
    return r.hour_of_day == 24        # field outside 0 <= h < 24


def c09_overflow_in_bounded_recurrence():
    from metomi.isodatetime.parsers import TimeRecurrenceParser
    try:
        TimeRecurrenceParser().parse("R3/PT1E999H/2000-01-01T00Z")
    except ValueError:
        return False
    except OverflowError:
        return True                   # not derived from ValueError
    return False


def c20_day_plus_minute_not_earliest():
    p = TimePoint(year=2021, month_of_year=1, day_of_month=15, hour_of_day=0,
                  minute_of_hour=30, second_of_minute=1, time_zone_hour=0, time_zone_minute=0)
    t = TimePoint(truncated=True, day_of_month=31, minute_of_hour=30)
    r = t + p
    earliest = TimePoint(year=2021, month_of_year=1, day_of_month=31, hour_of_day=0,
                         minute_of_hour=30, second_of_minute=0, time_zone_hour=0,
                         time_zone_minute=0)
    return r > earliest               # a later match than the earliest one


def c12_mixed_nominal_start_duration_count():
    from metomi.isodatetime.data import TimeRecurrence
    r = TimeRecurrence(repetitions=4,
                       start_point=TimePoint(year=0, month_of_year=1, day_of_month=30,
                                             hour_of_day=0, minute_of_hour=0, second_of_minute=0,
                                             time_zone_hour=0, time_zone_minute=0),
                       duration=Duration(months=1, hours=12))
    return len(list(r)) != 4          # n repetitions, fewer than n points


WITNESSES = {"c01_2400_plus_zero": c01_2400_plus_zero,
             "c12_mixed_nominal_start_duration_count": c12_mixed_nominal_start_duration_count,
             "c20_day_plus_minute_not_earliest": c20_day_plus_minute_not_earliest,
             "c09_overflow_in_bounded_recurrence": c09_overflow_in_bounded_recurrence}

if __name__ == "__main__":
    sys.exit(1 if WITNESSES[sys.argv[1]]() else 0)
