#!/usr/bin/env python3
"""Replay a counterexample on the REAL code (DESIGN.md 2.7).

    /venv/bin/python /verif/replay.py <replay-file.json> [--repo DIR]

The replay file is self-contained: function, calendar mode, concrete inputs
(taken from the solver's model), and the contract clauses as text.  The real
function is called natively and the same clause text is evaluated natively
(spec functions are ordinary Python).  Exit 0: the contract HOLDS on this
input (not reproduced); exit 1: the contract is violated (reproduced);
exit 2: inconclusive (precondition false natively, or the call hung).
Needs no z3.
"""
import ast
import copy
import importlib
import json
import os
import signal
import sys
from fractions import Fraction

VERIF = os.path.dirname(os.path.abspath(__file__))


def load(repo):
    if repo not in sys.path:
        sys.path.insert(0, repo)
    if VERIF not in sys.path:
        sys.path.insert(1, VERIF)
    mods = {}
    for m in ("data", "timezone", "dumpers", "parsers", "parser_spec",
              "exceptions", "datetimeoper"):
        mods[m] = importlib.import_module("metomi.isodatetime." + m)
    return mods


def num(s, sort):
    if isinstance(s, (int, float, bool)):
        return s
    s = str(s).strip()
    if s in ("True", "true"):
        return True
    if s in ("False", "false"):
        return False
    neg = False
    if s.startswith("-"):
        neg, s = True, s[1:].strip()
    s = s.strip("() ")
    if "/" in s:
        a, b = s.split("/")
        v = Fraction(int(float(a)), int(float(b)))
        v = float(v)
    elif s.endswith("?"):
        v = float(s[:-1])
    elif "." in s:
        v = float(s)
    else:
        v = int(s)
    if sort == "Real":
        v = float(v)
        if v == int(v) and abs(v) < 2 ** 53:
            v = float(int(v))
    return -v if neg else v


def build(recipe, model, mods):
    if "lit" in recipe:
        return recipe["lit"]
    if "sym" in recipe:
        v = model.get(recipe["sym"])
        if v is None:
            return {"Int": 0, "Real": 0.0, "Bool": False}[recipe["sort"]]
        return num(v, recipe["sort"])
    if "tuple" in recipe:
        return tuple(build(x, model, mods) for x in recipe["tuple"])
    if "list" in recipe:
        return [build(x, model, mods) for x in recipe["list"]]
    if "dict" in recipe:
        return {k: build(x, model, mods) for k, x in recipe["dict"].items()}
    if "obj" in recipe:
        cls = None
        for m in mods.values():
            if hasattr(m, recipe["obj"]):
                cls = getattr(m, recipe["obj"])
                break
        o = cls.__new__(cls)
        for k, x in recipe["slots"].items():
            object.__setattr__(o, k, build(x, model, mods)) if False else \
                setattr(o, k, build(x, model, mods))
        return o
    raise ValueError("cannot build %r" % (recipe,))


class _OldSub(ast.NodeTransformer):
    def __init__(self, pre_ns):
        self.pre_ns = pre_ns
        self.vals = {}

    def visit_Call(self, node):
        if isinstance(node.func, ast.Name) and node.func.id == "old":
            code = compile(ast.Expression(node.args[0]), "<old>", "eval")
            v = eval(code, self.pre_ns)
            name = "__old_%d" % len(self.vals)
            self.vals[name] = v
            return ast.copy_location(ast.Name(id=name, ctx=ast.Load()), node)
        return self.generic_visit(node)


def native_ns(mods, mode):
    import spec.cal as cal
    import spec.native as nat
    cal.set_mode(mode)
    ns = {k: getattr(cal, k) for k in dir(cal) if not k.startswith("__")}
    ns.update({k: getattr(nat, k) for k in dir(nat) if not k.startswith("__")})
    ns["CALENDAR"] = mods["data"].CALENDAR
    return ns


def eval_clause(text, ns, pre_ns):
    tree = ast.parse(text.strip(), mode="eval")
    sub = _OldSub(pre_ns)
    tree = ast.fix_missing_locations(sub.visit(tree))
    ns2 = dict(ns)
    ns2.update(sub.vals)
    return eval(compile(tree, "<clause>", "eval"), ns2)


def resolve(mods, key):
    m, q = key.split(":")
    o = mods[m]
    for part in q.split("."):
        o = getattr(o, part)
    return getattr(o, "__wrapped__", o) if False else o


class Hang(Exception):
    pass


def _alarm(*a):
    raise Hang()


def replay(rep, repo, verbose=True):
    mods = load(repo)
    mode = rep["mode"]
    mods["data"].CALENDAR.set_mode(mode)
    ns = native_ns(mods, mode)
    args = {k: build(r, rep["model"], mods) for k, r in rep["recipe"].items()}
    if "patch_time" in rep:
        import time as _t
        for k, v in rep["patch_time"].items():
            setattr(_t, k, v)
    pre = copy.deepcopy(args)
    pre_ns = dict(ns)
    pre_ns.update(pre)
    out = {"inputs": {k: _show(v) for k, v in args.items()}, "clauses": []}
    for r in rep["contract"]["requires"]:
        try:
            ok = bool(eval_clause(r, pre_ns, pre_ns))
        except Exception as e:
            ok = False
            out["requires_error"] = "%s: %s" % (type(e).__name__, e)
        if not ok:
            out["verdict"] = "inconclusive: precondition false natively: " + r
            return 2, out
    fn = resolve(mods, rep["function"])
    exc, result = None, None
    signal.signal(signal.SIGALRM, _alarm)
    signal.alarm(int(rep.get("timeout_s", 20)))
    try:
        result = fn(**args)
    except Hang:
        out["verdict"] = "hang: no result within %ss" % rep.get("timeout_s", 20)
        signal.alarm(0)
        return (1 if rep.get("hang_is_violation") else 2), out
    except Exception as e:
        exc = e
    signal.alarm(0)
    post_ns = dict(ns)
    post_ns.update(args)
    post_ns["result"] = result
    out["result"] = _show(result) if exc is None else None
    out["raised"] = type(exc).__name__ if exc is not None else None
    bad = False
    c = rep["contract"]
    if exc is not None:
        allowed = [cond for (en, cond) in c["raises"]
                   if en in [k.__name__ for k in type(exc).__mro__]]
        if not allowed:
            out["clauses"].append({"clause": "raises nothing of class %s" %
                                   type(exc).__name__, "holds": False,
                                   "detail": str(exc)[:200]})
            bad = True
        else:
            ok = any(bool(eval_clause(cond, pre_ns, pre_ns)) for cond in allowed)
            out["clauses"].append({"clause": "raise condition of %s" %
                                   type(exc).__name__, "holds": ok})
            bad = bad or not ok
    else:
        for (en, cond) in c["raises"]:
            must = bool(eval_clause(cond, pre_ns, pre_ns))
            out["clauses"].append({"clause": "no %s unless: %s" % (en, cond),
                                   "holds": not must})
            bad = bad or must
        if c.get("returns"):
            try:
                want = eval_clause(c["returns"], post_ns, pre_ns)
                ok = _eq(result, want)
                out["clauses"].append({"clause": "result == " + c["returns"],
                                       "holds": ok, "expected": _show(want),
                                       "observed": _show(result)})
            except Exception as e:
                ok = False
                out["clauses"].append({"clause": c["returns"], "holds": False,
                                       "error": "%s: %s" % (type(e).__name__, e)})
            bad = bad or not ok
        for r in c["ensures"]:
            try:
                ok = bool(eval_clause(r, post_ns, pre_ns))
                out["clauses"].append({"clause": r, "holds": ok})
            except Exception as e:
                ok = False
                out["clauses"].append({"clause": r, "holds": False,
                                       "error": "%s: %s" % (type(e).__name__, e)})
            bad = bad or not ok
    out["verdict"] = "VIOLATED" if bad else "holds"
    return (1 if bad else 0), out


def _eq(a, b):
    if isinstance(a, (tuple, list)) and isinstance(b, (tuple, list)):
        return len(a) == len(b) and all(_eq(x, y) for x, y in zip(a, b))
    return a == b


def _show(v):
    if isinstance(v, (int, float, str, bool)) or v is None:
        return v
    if isinstance(v, (tuple, list)):
        return [_show(x) for x in v]
    slots = {}
    for k in type(v).__mro__:
        for s in getattr(k, "__slots__", ()):
            if hasattr(v, s):
                slots[s] = _show(getattr(v, s))
    if slots:
        return {type(v).__name__: slots}
    return repr(v)


def main():
    path = sys.argv[1]
    repo = "/repo"
    if "--repo" in sys.argv:
        repo = sys.argv[sys.argv.index("--repo") + 1]
    rep = json.load(open(path))
    code, out = replay(rep, repo)
    print(json.dumps(out, indent=1, default=str))
    sys.exit(code)


if __name__ == "__main__":
    main()
