#!/usr/bin/env python3
"""Replay a counterexample on the REAL code (DESIGN.md 2.7).

    /venv/bin/python /verif/replay.py <replay-file.json> [--repo DIR]

The replay file is self-contained: function, calendar mode, concrete inputs
(taken from the solver's model), and the contract clauses as text.  The real
function is called natively and the same clause text is evaluated natively
(spec functions are ordinary Python).  Exit 0: the contract HOLDS on this
input (not reproduced); exit 1: the contract is violated (reproduced);
exit 2: inconclusive (precondition false natively, or the call hung).
Needs no z3.
"""
import ast
import copy
import importlib
import json
import os
import signal
import sys
from fractions import Fraction

VERIF = os.path.dirname(os.path.abspath(__file__))


def load(repo):
    if repo not in sys.path:
        sys.path.insert(0, repo)
    if VERIF not in sys.path:
        sys.path.insert(1, VERIF)
    mods = {}
    for m in ("data", "timezone", "dumpers", "parsers", "parser_spec",
              "exceptions", "datetimeoper"):
        mods[m] = importlib.import_module("metomi.isodatetime." + m)
    return mods


def num(s, sort):
    if isinstance(s, (int, float, bool)):
        return s
    s = str(s).strip()
    if s in ("True", "true"):
        return True
    if s in ("False", "false"):
        return False
    neg = False
    if s.startswith("-"):
        neg, s = True, s[1:].strip()
    s = s.strip("() ")
    if "/" in s:
        a, b = s.split("/")
        v = Fraction(int(float(a)), int(float(b)))
        v = float(v)
    elif s.endswith("?"):
        v = float(s[:-1])
    elif "." in s:
        v = float(s)
    else:
        v = int(s)
    if sort == "Real":
        v = float(v)
        if v == int(v) and abs(v) < 2 ** 53:
            v = float(int(v))
    return -v if neg else v


def build(recipe, model, mods):
    if "lit" in recipe:
        return recipe["lit"]
    if "sym" in recipe:
        v = model.get(recipe["sym"])
        if v is None:
            v = {"Int": 0, "Real": 0.0, "Bool": False}[recipe["sort"]]
        else:
            v = num(v, recipe["sort"])
        if recipe.get("as") == "float":
            v = float(v)
        return v
    if "text" in recipe:
        out = []
        for pc in recipe["text"]:
            if "digits" in pc:
                out.append("%0*d" % (pc["width"], int(build(pc["digits"], model, mods))))
            elif "intstr" in pc:
                out.append(str(int(build(pc["intstr"], model, mods))))
            elif "dec" in pc:
                v = float(build(pc["dec"], model, mods))
                t = ("%.6f" % v).rstrip("0")
                if t.endswith("."):
                    t += "0"
                out.append(t.replace(".", pc["mark"]))
            else:
                out.append(pc["lit"])
        return "".join(out)
    if "tuple" in recipe:
        return tuple(build(x, model, mods) for x in recipe["tuple"])
    if "list" in recipe:
        return [build(x, model, mods) for x in recipe["list"]]
    if "dict" in recipe:
        return {k: build(x, model, mods) for k, x in recipe["dict"].items()}
    if "obj" in recipe and recipe["obj"] in ("TimePointDumper", "TimePointParser",
                                             "DurationParser", "TimeRecurrenceParser"):
        lit = {k: v["lit"] for k, v in recipe["slots"].items() if isinstance(v, dict) and "lit" in v}
        if recipe["obj"] == "TimePointDumper":
            return mods["dumpers"].TimePointDumper(lit.get("num_expanded_year_digits", 2))
        if recipe["obj"] == "TimePointParser":
            az = recipe["slots"].get("assumed_time_zone")
            az = build(az, model, mods) if az else None
            return mods["parsers"].TimePointParser(
                num_expanded_year_digits=lit.get("num_expanded_year_digits", 2),
                allow_truncated=lit.get("allow_truncated", False),
                allow_only_basic=lit.get("allow_only_basic", False),
                assumed_time_zone=az,
                default_to_unknown_time_zone=lit.get("default_to_unknown_time_zone", False))
        return getattr(mods["parsers"], recipe["obj"])()
    if "obj" in recipe:
        cls = None
        for m in mods.values():
            if hasattr(m, recipe["obj"]):
                cls = getattr(m, recipe["obj"])
                break
        o = cls.__new__(cls)
        for k, x in recipe["slots"].items():
            object.__setattr__(o, k, build(x, model, mods)) if False else \
                setattr(o, k, build(x, model, mods))
        return o
    raise ValueError("cannot build %r" % (recipe,))


class _OldSub(ast.NodeTransformer):
    def __init__(self, pre_ns):
        self.pre_ns = pre_ns
        self.vals = {}

    def visit_Call(self, node):
        if isinstance(node.func, ast.Name) and node.func.id == "old":
            code = compile(ast.fix_missing_locations(ast.Expression(node.args[0])), "<old>", "eval")
            v = eval(code, self.pre_ns)
            name = "__old_%d" % len(self.vals)
            self.vals[name] = v
            return ast.copy_location(ast.Name(id=name, ctx=ast.Load()), node)
        return self.generic_visit(node)


TOL = 1e-6


def _tol(a, b):
    return max(TOL, 1e-12 * max(abs(a), abs(b)))


def _fcmp(op, a, b):
    """Comparison used when the contract text is evaluated natively: exact on
    ints, within TOL (1 microsecond) when a float is involved."""
    isnum = lambda x: isinstance(x, (int, float)) and not isinstance(x, bool)
    if isinstance(a, (tuple, list)) and isinstance(b, (tuple, list)) and op in ("Eq", "NotEq"):
        r = len(a) == len(b) and all(_fcmp("Eq", x, y) for x, y in zip(a, b))
        return r if op == "Eq" else not r
    if not (isnum(a) and isnum(b)) or not (isinstance(a, float) or isinstance(b, float)):
        return {"Eq": lambda: a == b, "NotEq": lambda: a != b, "Lt": lambda: a < b,
                "LtE": lambda: a <= b, "Gt": lambda: a > b, "GtE": lambda: a >= b,
                "Is": lambda: a is b, "IsNot": lambda: a is not b,
                "In": lambda: a in b, "NotIn": lambda: a not in b}[op]()
    t = _tol(a, b)
    return {"Eq": abs(a - b) <= t, "NotEq": abs(a - b) > t, "Lt": a < b + t,
            "LtE": a <= b + t, "Gt": a > b - t, "GtE": a >= b - t}[op]


class _CmpSub(ast.NodeTransformer):
    def visit_Compare(self, node):
        self.generic_visit(node)
        if any(isinstance(o, (ast.Is, ast.IsNot, ast.In, ast.NotIn)) for o in node.ops):
            return node
        parts = []
        left = node.left
        for op, right in zip(node.ops, node.comparators):
            parts.append(ast.Call(func=ast.Name(id="_fcmp", ctx=ast.Load()),
                                  args=[ast.Constant(type(op).__name__), left, right],
                                  keywords=[]))
            left = right
        if len(parts) == 1:
            return ast.copy_location(parts[0], node)
        return ast.copy_location(ast.BoolOp(op=ast.And(), values=parts), node)


def native_ns(mods, mode):
    import spec.cal as cal
    import spec.native as nat
    cal.set_mode(mode)
    ns = {k: getattr(cal, k) for k in dir(cal) if not k.startswith("__")}
    ns.update({k: getattr(nat, k) for k in dir(nat) if not k.startswith("__")})
    ns["CALENDAR"] = mods["data"].CALENDAR
    import time as _time
    ns["time"] = _time
    ns["timezone"] = mods["timezone"]
    ns["_fcmp"] = _fcmp
    cal.isint = lambda x: (not isinstance(x, float)) or abs(x - round(x)) <= TOL
    ns["isint"] = lambda x: (not isinstance(x, float)) or abs(x - round(x)) <= TOL
    return ns


def eval_clause(text, ns, pre_ns):
    tree = ast.parse(text.strip(), mode="eval")
    sub = _OldSub(pre_ns)
    tree = _CmpSub().visit(tree)
    tree = ast.fix_missing_locations(sub.visit(tree))
    ns2 = dict(ns)
    ns2.update(sub.vals)
    return eval(compile(tree, "<clause>", "eval"), ns2)


def resolve(mods, key):
    m, q = key.split(":")
    o = mods[m]
    for part in q.split("."):
        o = getattr(o, part)
    return getattr(o, "__wrapped__", o) if False else o


class Hang(Exception):
    pass


def _alarm(*a):
    raise Hang()


def replay(rep, repo, verbose=True):
    mods = load(repo)
    mode = rep["mode"]
    mods["data"].CALENDAR.set_mode(mode)
    ns = native_ns(mods, mode)
    args = {k: build(r, rep["model"], mods) for k, r in rep["recipe"].items()}
    _m = rep["model"]
    ns["fld"] = lambda n: num(_m.get("p:" + n, 0), "Int")
    ns["fldq"] = lambda n: num(_m.get("p:" + n, 0), "Real")
    ns["fldr"] = lambda n: num(_m.get("p:" + n + ".frac", 0), "Real")
    if "patch_time" in rep:
        import time as _t

        class _LT:
            pass
        for k, v in rep["patch_time"].items():
            v = num(v, "Int")
            if k == "tm_isdst":
                lt = _LT()
                lt.tm_isdst = v
                _t.localtime = lambda *a, lt=lt: lt
            else:
                setattr(_t, k, v)
        ns["time"] = _t
    pre = copy.deepcopy(args)
    pre_ns = dict(ns)
    pre_ns.update(pre)
    out = {"inputs": {k: _show(v) for k, v in args.items()}, "clauses": []}
    for r in rep["contract"]["requires"]:
        try:
            ok = bool(eval_clause(r, pre_ns, pre_ns))
        except Exception as e:
            ok = False
            out["requires_error"] = "%s: %s" % (type(e).__name__, e)
        if not ok:
            out["verdict"] = "inconclusive: precondition false natively: " + r
            return 2, out
    if rep["function"].startswith("ghost:"):
        # a ghost program (lemma over the real functions): run it natively on the
        # counter-model; a failing assert is the reproduced violation
        src = open(os.path.join(VERIF, "contracts", "ghost_programs.py")).read()
        g = dict(ns)
        exec(compile(src, "ghost_programs.py", "exec"), g)
        gfn = g[rep["function"].split(":", 1)[1]]
        signal.signal(signal.SIGALRM, _alarm)
        signal.alarm(int(rep.get("timeout_s", 20)))
        try:
            gfn(**args)
            out["verdict"] = "holds"
            code = 0
        except AssertionError:
            import traceback
            tb = traceback.extract_tb(sys.exc_info()[2])
            fr = [f for f in tb if f.filename == "ghost_programs.py"]
            out["clauses"].append({"clause": "assert at ghost_programs.py:%s: %s" % (
                fr[-1].lineno if fr else "?", fr[-1].line if fr else ""), "holds": False})
            out["verdict"] = "VIOLATED"
            code = 1
        except Hang:
            out["verdict"] = "hang"
            code = 2
        except Exception as e:
            out["raised"] = "%s: %s" % (type(e).__name__, e)
            out["verdict"] = "VIOLATED (exception %s inside the lemma's calls)" % type(e).__name__
            code = 1
        signal.alarm(0)
        return code, out
    fn = resolve(mods, rep["function"])
    exc, result = None, None
    signal.signal(signal.SIGALRM, _alarm)
    signal.alarm(int(rep.get("timeout_s", 20)))
    try:
        result = fn(**args)
    except Hang:
        out["verdict"] = "hang: no result within %ss" % rep.get("timeout_s", 20)
        signal.alarm(0)
        return (1 if rep.get("hang_is_violation") else 2), out
    except Exception as e:
        exc = e
    signal.alarm(0)
    post_ns = dict(ns)
    post_ns.update(args)
    post_ns["result"] = result
    out["result"] = _show(result) if exc is None else None
    out["raised"] = type(exc).__name__ if exc is not None else None
    bad = False
    c = rep["contract"]
    if exc is not None:
        allowed = [cond for (en, cond) in c["raises"]
                   if en in [k.__name__ for k in type(exc).__mro__]]
        if not allowed:
            out["clauses"].append({"clause": "raises nothing of class %s" %
                                   type(exc).__name__, "holds": False,
                                   "detail": str(exc)[:200]})
            bad = True
        else:
            ok = any(bool(eval_clause(cond, pre_ns, pre_ns)) for cond in allowed)
            out["clauses"].append({"clause": "raise condition of %s" %
                                   type(exc).__name__, "holds": ok})
            bad = bad or not ok
    else:
        for (en, cond) in c["raises"]:
            must = bool(eval_clause(cond, pre_ns, pre_ns))
            out["clauses"].append({"clause": "no %s unless: %s" % (en, cond),
                                   "holds": not must})
            bad = bad or must
        if c.get("returns"):
            try:
                want = eval_clause(c["returns"], post_ns, pre_ns)
                ok = _eq(result, want)
                out["clauses"].append({"clause": "result == " + c["returns"],
                                       "holds": ok, "expected": _show(want),
                                       "observed": _show(result)})
            except Exception as e:
                ok = False
                out["clauses"].append({"clause": c["returns"], "holds": False,
                                       "error": "%s: %s" % (type(e).__name__, e)})
            bad = bad or not ok
        for r in c["ensures"]:
            try:
                ok = bool(eval_clause(r, post_ns, pre_ns))
                out["clauses"].append({"clause": r, "holds": ok})
            except Exception as e:
                ok = False
                out["clauses"].append({"clause": r, "holds": False,
                                       "error": "%s: %s" % (type(e).__name__, e)})
            bad = bad or not ok
    out["verdict"] = "VIOLATED" if bad else "holds"
    return (1 if bad else 0), out


def _eq(a, b):
    return _fcmp("Eq", a, b)


def _show(v):
    if isinstance(v, (int, float, str, bool)) or v is None:
        return v
    if isinstance(v, (tuple, list)):
        return [_show(x) for x in v]
    slots = {}
    for k in type(v).__mro__:
        for s in getattr(k, "__slots__", ()):
            if hasattr(v, s):
                slots[s] = _show(getattr(v, s))
    if slots:
        return {type(v).__name__: slots}
    return repr(v)


POOLS = [
    ("_year", [-401, -400, -101, -100, -5, -4, -1, 0, 1, 3, 4, 5, 99, 100, 101,
               399, 400, 401, 1899, 1900, 1999, 2000, 2001, 2003, 2004, 2019,
               2020, 2100, 9999, 10000]),
    ("start_year", [-401, -4, -1, 0, 1, 4, 1999, 2000, 2004]),
    ("end_year", [-400, -5, 0, 1, 3, 4, 100, 400, 2000, 2004, 2400]),
    ("year", [-401, -400, -101, -100, -5, -4, -1, 0, 1, 3, 4, 5, 99, 100, 101,
              399, 400, 401, 1899, 1900, 1999, 2000, 2001, 2003, 2004, 2019,
              2020, 2100, 9999, 10000]),
    ("month", [1, 2, 3, 4, 5, 6, 7, 8, 9, 10, 11, 12, 0, 13, -1, 24]),
    ("day_of_month", [-400, -366, -31, -1, 0, 1, 2, 27, 28, 29, 30, 31, 32, 59,
                      60, 61, 365, 366, 367, 400, 800]),
    ("day_of_year", [-366, -365, -1, 0, 1, 2, 59, 60, 61, 364, 365, 366, 367,
                     730, 731, 732]),
    ("week_of_year", [-53, -52, -1, 0, 1, 2, 51, 52, 53, 54, 104, 105, 106]),
    ("day_of_week", [-7, -6, 0, 1, 2, 3, 4, 5, 6, 7, 8, 14, 15]),
    ("hour_of_day", [0, 1, 11, 12, 23, 24, -1, -24, -25, 25, 47, 48, 0.5, 23.75,
                     6.0625]),
    ("minute_of_hour", [0, 1, 29, 30, 59, 60, 61, -1, -60, -61, 119, 120, 1440,
                        -1440, 0.5, 59.75]),
    ("second_of_minute", [0, 1, 30, 59, 60, 61, -1, -60, 3599, 3600, 86399, 86400,
                          -86400, 0.5, 59.999]),
    ("_time_zone._hours", [0, 1, -1, 5, -5, 12, -12, 14, 23, -23, 24, 25, 99, -99]),
    ("_time_zone._minutes", [0, 30, -30, 45, -45, 59, -59, 1, -1]),
    ("_years", [0, 1, -1, 4, -4, 100, -100, 400]),
    ("_months", [0, 1, -1, 2, 11, 12, 13, -12, -13, 25, -25]),
    ("_weeks", [0, 1, -1, 2, 52, 53, -53, 1000]),
    ("_days", [0, 1, -1, 7, 28, 29, 30, 31, -31, 365, 366, -365, -366, 800, -800,
               146097]),
    ("_hours", [0, 1, -1, 23, 24, 25, -24, -25, 48, 0.5, -0.5, 1000]),
    ("_minutes", [0, 1, -1, 59, 60, 61, -60, 1440, -1441, 0.5]),
    ("_seconds", [0, 1, -1, 59, 60, 61, -60, 3600, 86400, -86401, 0.5, 0.001]),
    ("num_months", [0, 1, -1, 2, 11, 12, 13, -12, -13, 25, -25, 48]),
    ("other", [0, 1, -1, 2, 3, -3, 10]),
]
GENERIC = [0, 1, -1, 2, -2, 3, 7, 12, 24, 59, 60, 100, 365, 366]


def pool_for(sym, sort):
    name = sym[2:] if sym.startswith("p:") else sym
    best = None
    for pat, vals in POOLS:
        if name.endswith(pat) or (("." + pat) in name) or name == pat:
            if best is None or len(pat) > len(best[0]):
                best = (pat, vals)
    vals = list(best[1]) if best else list(GENERIC)
    if sort == "Int":
        vals = [v for v in vals if v == int(v)]
    if sort == "Bool":
        vals = [False, True]
    return vals


def syms_of(recipe, acc):
    if isinstance(recipe, dict):
        if "sym" in recipe:
            acc[recipe["sym"]] = recipe["sort"]
        for v in recipe.values():
            syms_of(v, acc)
    elif isinstance(recipe, list):
        for v in recipe:
            syms_of(v, acc)
    return acc


def search(rep, repo, tries, seed, budget_s=60):
    """Native search for an input violating the contract (bounded)."""
    import random
    import time as _time
    rnd = random.Random(seed)
    syms = syms_of(rep["recipe"], {})
    pools = {k: pool_for(k, s) for k, s in syms.items()}
    t0 = _time.time()
    evals = 0
    base = dict(rep.get("model") or {})
    for i in range(tries):
        if _time.time() - t0 > budget_s:
            break
        model = {}
        for k in syms:
            r = rnd.random()
            if i == 0 and k in base:
                model[k] = base[k]
            elif r < 0.15 and k in base:
                model[k] = base[k]
            elif r < 0.25 and k in base:
                try:
                    model[k] = num(base[k], syms[k]) + rnd.choice([-1, 1])
                except Exception:
                    model[k] = rnd.choice(pools[k])
            else:
                model[k] = rnd.choice(pools[k])
        r2 = dict(rep)
        r2["model"] = model
        code, out = replay(r2, repo)
        if code != 2:
            evals += 1
        if code == 1:
            return model, out, evals
    return None, None, evals


def main():
    path = sys.argv[1]
    repo = "/repo"
    if "--repo" in sys.argv:
        repo = sys.argv[sys.argv.index("--repo") + 1]
    rep = json.load(open(path))
    if "--search" in sys.argv:
        n = int(sys.argv[sys.argv.index("--search") + 1])
        seed = int(sys.argv[sys.argv.index("--seed") + 1]) if "--seed" in sys.argv else 0
        budget = int(sys.argv[sys.argv.index("--budget") + 1]) if "--budget" in sys.argv else 60
        model, out, evals = search(rep, repo, n, seed, budget)
        if model is None:
            print(json.dumps({"verdict": "no failing input found", "evaluations": evals}))
            sys.exit(0)
        rep["model"] = {k: str(v) for k, v in model.items()}
        rep["found_by"] = "native search (%d evaluations)" % evals
        json.dump(rep, open(path, "w"), indent=1, default=str)
        out["evaluations"] = evals
        print(json.dumps(out, indent=1, default=str))
        sys.exit(1)
    code, out = replay(rep, repo)
    print(json.dumps(out, indent=1, default=str))
    sys.exit(code)


if __name__ == "__main__":
    main()
