#!/bin/bash
# dev helper: make a scratch copy of /repo with a seeded patch applied; prints its path.
# usage: tools_mut.sh <seeded-id>   (copy lives under /tmp/mut/<id>; remove after use)
id=$1; d=/tmp/mut/$id; rm -rf $d; mkdir -p /tmp/mut
git -C /repo worktree add --detach $d HEAD >/dev/null 2>&1 || exit 3
git -C $d apply /verif/seeded/$id/patch.diff || exit 3
echo $d
