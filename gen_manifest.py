#!/usr/bin/env python3
"""Regenerates MANIFEST.json from props/*.py (claimed) and NOT_APPLICABLE below."""
import importlib, json, os, sys
sys.path.insert(0, os.path.dirname(os.path.abspath(__file__)))
ALL = ["C%02d" % i for i in range(1, 21)]
NOT_APPLICABLE = {}
TECH = ("contract-based deductive verification: own AST->SMT verification-condition "
        "generator over the real source, sidecar contracts, z3/cvc5 back ends")
DECIDED_BY = {
 "C01": "loop invariants + variants on _tick_over / _tick_over_day_of_month; postconditions of TimePoint.__add__/__sub__(Duration) against the spec function instant()",
 "C02": "postcondition of TimePoint._cmp / __hash__ (result <=> order of instant()); order laws as ghost programs over that contract; bounded same-instant grid only as a safety net for changed code that leaves the verifier's reach",
 "C03": "postconditions of the 15 calendar helpers against closed-form spec functions, per calendar mode; lemmas over the spec",
 "C04": "postcondition of TimePoint.__sub__(TimePoint); the identities as ghost programs over the C01/C04 contracts",
 "C05": "loop invariant of add_months (uninterpreted running-minimum function); mixed-duration and ordinal/week postconditions stated over universally quantified ghost dates, discharged with key-order lemmas",
 "C06": "postconditions of to_time_zone / to_utc / to_local_time_zone; real dumper + parser composed on symbolic points for literal zones (text tier); bounded grid for the other literals",
 "C07": "the real TimePointParser.parse executed on symbolic piecewise texts; regex lexing lemma with hypotheses discharged in z3's regular-language theory; bounded grid for the forms not proved",
 "C08": "ghost programs composing the real str / dump / parse on symbolic points; decimal forms bounded",
 "C09": "raises-iff-invalid postconditions on the constructors, the same through every text notation; static explicit-raise-set obligation; bounded corpus for arbitrary text",
 "C10": "the real Duration.__str__ and DurationParser.parse executed on symbolic texts; round-trip ghost program; decimal values in the str direction bounded",
 "C11": "postconditions on the Duration operators; algebraic laws as ghost programs",
 "C12": "generator contract of TimeRecurrence.__iter__ (ghost yield counter, universally quantified index); constructor per notation; memoisation-key obligations; nominal intervals bounded",
 "C13": "postconditions of get_is_valid / __getitem__ / get_next / get_prev / get_first_after over the iteration contract; nominal intervals bounded",
 "C14": "postconditions of TimeRecurrence.__add__ / __eq__ / __hash__, ghost programs; real str + real parse composed on symbolic recurrences; nominal intervals and remaining texts bounded",
 "C15": "static footprint (reads-set) and memoisation-key obligations over the real AST, per-mode semantic proofs of the helpers, exhaustive finite enumeration of mode selection",
 "C16": "static frame / ownership obligations over every function of data.py and dumpers.py plus executor frame obligations (fresh(result), unchanged(x))",
 "C17": "the real strftime executed on symbolic points; strptime inverse as a ghost composition; other formats bounded",
 "C18": "postcondition of get_local_time_zone over a symbolic time module; epoch conversions; exhaustive enumeration of whole-minute offsets for the three text forms",
 "C19": "composition contracts of DateTimeOperator.process_time_point_str / diff_time_point_strs over uninterpreted building blocks; date_diff postcondition; static handler obligation on main(); main(argv) I/O: bounded grid",
 "C20": "loop invariants + variants of add_truncated with universally quantified ghost dates for minimality; bounded brute-force oracle grid and termination runs for what is not proved",
}
checks, na = [], []
for pid in ALL:
    if os.path.exists("props/%s.py" % pid):
        m = importlib.import_module("props." + pid)
        checks.append({
            "property_id": pid,
            "quick_cmd": "python3-vt check.py %s --tier quick" % pid,
            "thorough_cmd": "python3-vt check.py %s --tier thorough" % pid,
            "evidence_file": "evidence/%s.json" % pid,
            "replay_cmd_template": "/venv/bin/python /verif/replay.py {path}",
            "engine": "pyvc",
            "level_claimed": {"category": m.LEVEL, "text": m.LEVEL_TEXT,
                              "design_ref": "DESIGN.md Part A, A.4 row %s (as built); Part B section 5, %s (plan)" % (pid, pid)},
            "level_note": m.LEVEL_NOTE,
            "technique": TECH + "; decided by: " + DECIDED_BY[pid],
        })
    else:
        na.append({"property_id": pid, "reason": NOT_APPLICABLE.get(
            pid, "not yet brought under contract in this build (work in progress; see DESIGN.md section 9)")})
man = {
    "version": 1,
    "setup_cmd": "python3-vt setup_check.py",
    "hooks": {"guard": "ISODATETIME_VERIF", "enable": "no hook is needed: the checks read /repo's source and import it unmodified (guard reserved, unused)",
              "baseline_off_cmd": "cd /repo && /venv/bin/python -m pytest -ra -q -p no:cacheprovider --timeout=900 --continue-on-collection-errors",
              "source_commits": [], "add_only": True},
    "engines": [{"name": "pyvc", "path": "pyvc/", "serves_properties": [c["property_id"] for c in checks],
                 "kind_free_text": "deductive program verifier built here: VC generator over the real Python AST + contracts, z3/cvc5"}],
    "checks": checks,
    "not_applicable": na,
    "notes": "Exit codes: 0 held / 1 violation (VIOLATION line, replay file) / 2 undecided / 3 checker problem. PYVC_REPO overrides /repo.",
}
json.dump(man, open("MANIFEST.json", "w"), indent=1)
print(len(checks), "checks;", len(na), "not claimed")
