#!/usr/bin/env python3
"""Regenerates MANIFEST.json from props/*.py (claimed) and NOT_APPLICABLE below."""
import importlib, json, os, sys
sys.path.insert(0, os.path.dirname(os.path.abspath(__file__)))
ALL = ["C%02d" % i for i in range(1, 21)]
NOT_APPLICABLE = {}
TECH = ("contract-based deductive verification: own AST->SMT verification-condition "
        "generator over the real source, sidecar contracts, z3/cvc5 back ends")
checks, na = [], []
for pid in ALL:
    if os.path.exists("props/%s.py" % pid):
        m = importlib.import_module("props." + pid)
        checks.append({
            "property_id": pid,
            "quick_cmd": "python3-vt check.py %s --tier quick" % pid,
            "thorough_cmd": "python3-vt check.py %s --tier thorough" % pid,
            "evidence_file": "evidence/%s.json" % pid,
            "replay_cmd_template": "/venv/bin/python /verif/replay.py {path}",
            "engine": "pyvc",
            "level_claimed": {"category": m.LEVEL, "text": m.LEVEL_TEXT,
                              "design_ref": "DESIGN.md Part A, A.4 row %s (as built); Part B section 5, %s (plan)" % (pid, pid)},
            "level_note": m.LEVEL_NOTE,
            "technique": TECH + getattr(m, "TECH_EXTRA", ""),
        })
    else:
        na.append({"property_id": pid, "reason": NOT_APPLICABLE.get(
            pid, "not yet brought under contract in this build (work in progress; see DESIGN.md section 9)")})
man = {
    "version": 1,
    "setup_cmd": "python3-vt setup_check.py",
    "hooks": {"guard": "ISODATETIME_VERIF", "enable": "no hook is needed: the checks read /repo's source and import it unmodified (guard reserved, unused)",
              "baseline_off_cmd": "cd /repo && /venv/bin/python -m pytest -ra -q -p no:cacheprovider --timeout=900 --continue-on-collection-errors",
              "source_commits": [], "add_only": True},
    "engines": [{"name": "pyvc", "path": "pyvc/", "serves_properties": [c["property_id"] for c in checks],
                 "kind_free_text": "deductive program verifier built here: VC generator over the real Python AST + contracts, z3/cvc5"}],
    "checks": checks,
    "not_applicable": na,
    "notes": "Exit codes: 0 held / 1 violation (VIOLATION line, replay file) / 2 undecided / 3 checker problem. PYVC_REPO overrides /repo.",
}
json.dump(man, open("MANIFEST.json", "w"), indent=1)
print(len(checks), "checks;", len(na), "not claimed")
