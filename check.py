#!/usr/bin/env python3
"""check.py <property-id> [--tier quick|thorough] [--replay FILE]

Decides one property of /verif/properties.jsonl for the CURRENT working tree
of /repo (or $PYVC_REPO) by contract-based deductive verification: the real
source is re-read with `ast`, verification conditions are generated against
the sidecar contracts and discharged by z3 / cvc5.

Exit 0: every obligation proved (and every bounded stand-in passed);
exit 1: an obligation was refuted -> "VIOLATION property=<id> replay=<path>";
exit 2: nothing refuted but something undecided (unknown / out-of-reach);
exit 3: checker crash or contract-binding failure.  2 and 3 never print
VIOLATION.  Evidence is rewritten on every run.
"""
import importlib
import json
import os
import re
import subprocess
import sys
import time

VERIF = os.path.dirname(os.path.abspath(__file__))
sys.path.insert(0, VERIF)
REPO = os.environ.get("PYVC_REPO", "/repo")
REPLAY_PY = os.environ.get("PYVC_REPLAY_PYTHON", "/venv/bin/python")
if not os.path.exists(REPLAY_PY):
    REPLAY_PY = sys.executable


def main():
    args = sys.argv[1:]
    if not args:
        print(__doc__)
        return 3
    pid = args[0]
    tier = os.environ.get("VERIF_TIER", "quick")
    if "--tier" in args:
        tier = args[args.index("--tier") + 1]
    seed = int(os.environ.get("VERIF_SEED", "0") or 0)
    if "--replay" in args:
        path = args[args.index("--replay") + 1]
        return subprocess.call([REPLAY_PY, os.path.join(VERIF, "replay.py"),
                                path, "--repo", REPO])
    t0 = time.time()
    try:
        return run_check(pid, tier, seed, t0)
    except Exception:
        import traceback
        traceback.print_exc()
        print("CHECKER-CRASH property=%s" % pid)
        return 3


def run_check(pid, tier, seed, t0):
    import contracts
    from pyvc import run as prun
    prop = importlib.import_module("props." + pid)
    reg = contracts.load_all()
    modes = getattr(prop, "MODES", ["gregorian", "360day", "365day", "366day"])
    if tier == "quick" and getattr(prop, "QUICK_MODES", None):
        modes = prop.QUICK_MODES
    tasks = []
    for key in prop.FUNCS:
        only = None
        if isinstance(key, tuple):
            key, only = key
        qf = getattr(prop, "QUICK_FILTER", {}).get(key)
        for case in reg[key].cases:
            if only is not None and not re.search(only, case.name):
                continue
            if tier == "quick" and qf is not None and not qf(case.name):
                continue
            for m in (getattr(reg[key], "modes", None) or modes):
                if getattr(case, "modes", None) and m not in case.modes:
                    continue        # the case's domain is empty under this calendar mode
                tasks.append({"kind": "verify", "key": key, "case": case.name,
                              "mode": m})
                for rg in reg[key].regions:
                    # a region is verified in full by the check of the property that owns
                    # the finding (and everywhere in the thorough tier)
                    if rg.get("owner") not in (None, pid) and tier != "thorough":
                        continue
                    if re.fullmatch(rg.get("cases", ".*"), case.name):
                        tasks.append({"kind": "verify", "key": key, "case": case.name,
                                      "mode": m, "region": rg["name"]})
    for ln in getattr(prop, "LEMMAS", []):
        lem = contracts.LEMMAS[ln]
        for m in (lem.modes or modes):
            tasks.append({"kind": "lemma", "lemma": ln, "mode": m})
    canaries = []
    for ln in getattr(prop, "CANARIES", []):
        lem = contracts.LEMMAS[ln]
        for m in (lem.modes or modes[:1]):
            canaries.append({"kind": "lemma", "lemma": ln, "mode": m, "canary": True})
    findings = load_findings(pid)
    for t in tasks:
        for f in findings:
            if t.get("key") == f.get("function") and f.get("exclude") and \
                    re.fullmatch(f.get("case", ".*"), t.get("case", "")) and \
                    t["mode"] in f.get("modes", [t["mode"]]):
                t.setdefault("extra_requires", []).append("not (%s)" % f["exclude"])
    results = prun.run_tasks(tasks + canaries)
    # ------------------------------------------------------------ classify
    obligations, discharged = 0, 0
    backends = {}
    solver_s = 0.0
    refuted, undecided, crashed = [], [], []
    funcs = {}
    samples = []
    canary_ok = 0
    for r in results:
        t = r["task"]
        if t.get("canary"):
            if any(x["verdict"] == "refuted" for x in r["results"]):
                canary_ok += 1
            else:
                crashed.append("canary %s was not refuted: the pipeline is vacuous"
                               % t["lemma"])
            continue
        if r["status"] == "out-of-reach":
            undecided.append("%s[%s] %s: out-of-reach: %s" % (
                t.get("key", t.get("lemma")), t.get("case", ""), t["mode"], r["error"]))
            continue
        if r["status"] != "ok":
            crashed.append("%s[%s] %s: %s: %s" % (
                t.get("key", t.get("lemma")), t.get("case", ""), t["mode"],
                r["status"], r["error"]))
            continue
        if "func" in r:
            funcs[r["func"]["key"]] = r["func"]
        nreal = [x for x in r["results"] if x["kind"] != "vacuity"]
        if t["kind"] == "verify" and not nreal:
            crashed.append("%s[%s]: zero obligations generated" % (t["key"], t["case"]))
        for x in r["results"]:
            obligations += 1
            solver_s += x["time"]
            if x["verdict"] == "proved":
                discharged += 1
                backends[x["backend"]] = backends.get(x["backend"], 0) + 1
                if len(samples) < 8 and x["kind"] not in ("vacuity", "safety"):
                    samples.append({"obligation": x["name"], "mode": t["mode"],
                                    "backend": x["backend"],
                                    "solver_s": round(x["time"], 3)})
            elif x["verdict"] == "refuted":
                refuted.append((r, x))
            elif x["verdict"] == "vacuous":
                crashed.append("%s: precondition unsatisfiable (vacuous contract)"
                               % x["name"])
            else:
                undecided.append("%s (%s): %s" % (x["name"], t["mode"], x["detail"]))
    # ------------------------------------------------------------ CPython cross-check
    # engine soundness evidence on every run: sampled exit paths of the functions of this
    # cone, model -> native inputs -> real function, compared with the symbolic result
    xc = {"compared": 0, "disagreements": 0, "skipped": {}}
    try:
        import random as _random
        from pyvc import crosscheck as _X
        _rnd = _random.Random(seed)
        cand = []
        for t in tasks:
            if t["kind"] == "verify" and not t["key"].startswith("ghost:") and \
                    not t.get("region") and _X.eligible(reg[t["key"]]):
                cand.append((t["key"], t["case"], t["mode"], _rnd.randint(0, 10 ** 6)))
        _rnd.shuffle(cand)
        cand = cand[:(24 if tier == "quick" else 240)]
        if cand:
            import multiprocessing as _mp
            with _mp.get_context("fork").Pool(min(16, len(cand))) as pool:
                for (t_, n_, bad_, skip_) in pool.imap_unordered(_xc_job, cand, chunksize=2):
                    xc["compared"] += n_
                    xc["disagreements"] += len(bad_)
                    if skip_:
                        xc["skipped"][t_[0]] = skip_
                    for b_ in bad_[:3]:
                        crashed.append("engine/CPython disagreement: " + b_[:400])
    except Exception as e:           # the cross-check itself must never decide a property
        xc["error"] = "%s: %s" % (type(e).__name__, str(e)[:200])
    # ------------------------------------------------------------ custom obligations
    # (static footprint / frame obligations over the real AST: props.<id>.custom)
    custom_fail = []
    custom_obs = list(prop.custom(tier, seed, REPO)) if hasattr(prop, "custom") else []
    if True:
        # every property's contracts treat the lru_cache'd calendar helpers as the
        # functions they wrap: the memoisation obligations of module data belong to
        # every cone (C15 proves all of them, for all modules)
        from pyvc.source import SourceDB as _SDB
        from pyvc.footprint import Analysis as _An
        _a = _An(_SDB(REPO))
        have = {c["name"] for c in custom_obs}
        custom_obs += [{"name": n, "ok": ok, "detail": d, "backend": "ast-footprint",
                        "reproduced": False}
                       for (n, ok, d) in _a.persistent_store_obligations() + _a.memo_obligations()
                       if n.startswith("memo[data:") and n not in have]
        for c in custom_obs:
            obligations += 1
            if c["ok"]:
                discharged += 1
                backends[c.get("backend", "static")] = backends.get(
                    c.get("backend", "static"), 0) + 1
                if len(samples) < 12:
                    samples.append({"obligation": c["name"], "backend": c.get("backend"),
                                    "detail": c["detail"][:160]})
            else:
                custom_fail.append(c)
    # ------------------------------------------------------------ bounded stand-ins
    bounded = []
    bfail = []
    if hasattr(prop, "bounded"):
        try:
            bres = prop.bounded(tier, seed, REPO)
        except Exception as e:
            # an exception that escapes from the LIBRARY through a harness line that
            # did not expect one is a finding about the library, not a checker crash
            import traceback
            tb = traceback.extract_tb(e.__traceback__)
            inner = tb[-1].filename if tb else ""
            if os.path.realpath(inner).startswith(os.path.realpath(REPO) + os.sep) and \
                    not isinstance(e, (ImportError, AttributeError, NameError)):
                hline = [f for f in tb if "/props/" in f.filename]
                bres = [{"name": "harness.unexpected-library-exception", "kind": "grid",
                         "bound": "stand-in aborted", "evaluations": 1, "exhaustive": False,
                         "failures": [{
                             "id": "exception|%s|%s" % (type(e).__name__, str(e)[:80]),
                             "input": {"harness_line": "%s:%s %s" % (
                                 hline[-1].filename, hline[-1].lineno, hline[-1].line)
                                 if hline else None},
                             "observed": "".join(traceback.format_exception(
                                 type(e), e, e.__traceback__))[-1500:],
                             "expected": "no exception at this call"}]}]
            else:
                raise
        for b in bres:
            bounded.append({k: v for k, v in b.items() if k != "failures"})
            for f in b.get("failures", []):
                bfail.append((b, f))
    # ------------------------------------------------------------ violations
    rdir = os.path.join(os.environ.get("PYVC_REPLAY_DIR", os.path.join(VERIF, "replays")), pid)
    os.makedirs(rdir, exist_ok=True)
    for old in os.listdir(rdir):          # replay files of earlier runs
        try:
            os.unlink(os.path.join(rdir, old))
        except OSError:
            pass
    lines = []
    nviol = 0
    n_unreplayed = 0
    REPLAY_CAP = int(os.environ.get("PYVC_REPLAY_CAP", "12"))
    known_hit = set()
    n_kf_obl = 0
    seen_names = set()
    for (r, x) in refuted:
        t = r["task"]
        base = re.sub(r"#[0-9a-f]+$", "", x["name"])
        dedupe = (base, t["mode"])
        rep = {
            "property": pid, "obligation": x["name"], "mode": t["mode"],
            "function": t.get("key"), "case": t.get("case"),
            "kind": x["kind"], "backend": x["backend"],
            "model": {k: v for k, v in (x["model"] or {}).items()},
            "recipe": r.get("recipe", {}), "contract": r.get("contract"),
            "solver_output": "sat (model above) in %.2fs by %s" % (x["time"], x["backend"]),
        }
        pt = {k[len("p:time."):]: v for k, v in rep["model"].items()
              if k.startswith("p:time.")}
        if pt:
            rep["patch_time"] = pt
        fname = re.sub(r"[^A-Za-z0-9_.\[\]-]", "_", "%s__%s" % (x["name"], t["mode"]))[:150]
        path = os.path.join(rdir, fname + ".json")
        reproduced, rout = None, None
        kf0 = match_finding(findings, pid, t, x, rep)
        if kf0 is not None:
            # obligations inside the region of a recorded finding are the finding, counted
            # apart from the obligations this run had to discharge
            n_kf_obl += 1
        if kf0 is not None and id(kf0) in known_hit:
            continue        # further obligations of a finding already reported in this run
        if dedupe in seen_names and kf0 is None:
            continue        # same obligation on another path: already reported
        if nviol >= REPLAY_CAP and kf0 is None:
            # a badly broken tree refutes thousands of obligations: the first ones are
            # replayed and reported one by one, the rest are counted
            n_unreplayed += 1
            continue
        if t["kind"] == "verify" and rep["contract"] is not None:
            json.dump(rep, open(path, "w"), indent=1, default=str)
            reproduced, rout = do_replay(path)
            if not reproduced and dedupe not in seen_names:
                # the model of an inductive-step VC need not be a reachable
                # entry state: bounded native search on the same contract
                found, rout2 = do_replay(path, search=4000, seed=seed)
                if found:
                    reproduced, rout = True, rout2
                    rep = json.load(open(path))
        rep["replay_result"] = rout
        rep["reproduced_natively"] = reproduced
        json.dump(rep, open(path, "w"), indent=1, default=str)
        kf = match_finding(findings, pid, t, x, rep)
        if kf is not None:
            if id(kf) not in known_hit:
                known_hit.add(id(kf))
                lines.append("KNOWN-FINDING: property=%s %s" % (kf["property"], kf["what"]))
            continue
        if dedupe in seen_names:
            continue
        seen_names.add(dedupe)
        nviol += 1
        suffix = "" if reproduced else " no-failing-input-found"
        lines.append("VIOLATION property=%s replay=%s obligation=%s mode=%s%s" % (
            pid, path, x["name"], t["mode"], suffix))
    if n_unreplayed:
        lines.append("NOTE: %d further refuted obligations of property %s not replayed one by "
                     "one (cap %d); they are listed in the evidence file" % (
                         n_unreplayed, pid, REPLAY_CAP))
    for c in custom_fail:
        fname = re.sub(r"[^A-Za-z0-9_.\[\]-]", "_", c["name"])[:150]
        path = os.path.join(rdir, fname + ".json")
        rep = {"property": pid, "obligation": c["name"], "kind": "static-obligation",
               "solver_output": c["detail"], "replay": c.get("replay"),
               "reproduced_natively": bool(c.get("reproduced"))}
        json.dump(rep, open(path, "w"), indent=1, default=str)
        kf = None
        for f in findings:
            if f.get("kind") == "static" and re.search(f["obligation_regex"], c["name"]):
                kf = f
        if kf is not None:
            if id(kf) not in known_hit:
                known_hit.add(id(kf))
                lines.append("KNOWN-FINDING: property=%s %s" % (kf["property"], kf["what"]))
            continue
        nviol += 1
        lines.append("VIOLATION property=%s replay=%s obligation=%s%s" % (
            pid, path, c["name"], "" if c.get("reproduced") else " no-failing-input-found"))
    for (b, f) in bfail:
        fname = re.sub(r"[^A-Za-z0-9_.-]", "_", "bounded__%s__%s" % (
            b["name"], f.get("id", len(lines))))[:150]
        path = os.path.join(rdir, fname + ".json")
        rep = {"property": pid, "kind": "bounded", "check": b["name"],
               "input": f.get("input"), "observed": f.get("observed"),
               "expected": f.get("expected"), "replay_call": f.get("replay_call")}
        json.dump(rep, open(path, "w"), indent=1, default=str)
        kf = match_bounded_finding(findings, b, f)
        if kf is not None:
            if id(kf) not in known_hit:
                known_hit.add(id(kf))
                lines.append("KNOWN-FINDING: property=%s %s" % (pid, kf["what"]))
            continue
        nviol += 1
        lines.append("VIOLATION property=%s replay=%s bounded-check=%s" % (
            pid, path, b["name"]))
    # known findings that are listed but were not observed this run: verify the
    # witness natively so a stale entry is visible (it suppresses nothing)
    for f in findings:
        if f.get("property") != pid:
            continue
        if id(f) not in known_hit and f.get("witness_cmd"):
            rc = subprocess.call(f["witness_cmd"], shell=True, cwd=VERIF,
                                 stdout=subprocess.DEVNULL, stderr=subprocess.DEVNULL,
                                 env=dict(os.environ, PYVC_REPO=REPO))
            if rc == 1:
                lines.append("KNOWN-FINDING: property=%s %s" % (pid, f["what"]))
                known_hit.add(id(f))
    # ------------------------------------------------------------ guards
    expected = json.load(open(os.path.join(VERIF, "contracts", "EXPECTED_COUNTS.json")))
    minimum = expected.get(pid, {}).get(tier, expected.get(pid, {}).get("quick", 1))
    if obligations < minimum and not crashed:
        crashed.append("only %d obligations generated, expected at least %d"
                       % (obligations, minimum))
    wall = time.time() - t0
    level = prop.LEVEL
    obligations -= n_kf_obl
    allproved = (discharged == obligations and not undecided and not crashed
                 and nviol == 0)
    cov = {
        "obligations": obligations,
        "discharged": discharged,
        "checker_cmd": "python3-vt check.py %s --tier %s" % (pid, tier),
        "trusted_base": TRUSTED_BASE + list(getattr(prop, "TRUSTED", [])),
        "backends": backends,
        "solver_wall_s": round(solver_s, 2),
        "modes": modes,
        "functions_under_contract": sorted(funcs.values(), key=lambda f: f["key"]),
        "tasks": len(tasks),
        "lemmas": list(getattr(prop, "LEMMAS", [])),
        "canaries_refuted": canary_ok,
        "engine_crosscheck_cpython": xc,
        "bounded": bounded,
        "undecided": undecided[:50],
        "refuted": ([x["name"] for (_, x) in refuted] +
                    [c["name"] for c in custom_fail])[:50],
        "known_findings_reported": len(known_hit),
        "known_finding_obligations": n_kf_obl,
        "samples": samples or [{"note": "no obligation discharged"}],
        "explanation": getattr(prop, "EXPLANATION", ""),
        "evaluations": sum(b.get("evaluations", 0) for b in bounded) + obligations,
        "distinct_nontrivial": max(2, discharged),
        "rule": "one evaluation per proof obligation (distinct by name x mode) plus "
                "each input of the bounded stand-ins",
    }
    if any(b.get("exhaustive") for b in bounded):
        cov["exhaustive_bounded"] = [b["name"] for b in bounded if b.get("exhaustive")]
    ev = {
        "property_id": pid, "tier": tier, "seed": seed, "level": level,
        "coverage": cov,
        "assumptions": ASSUMPTIONS + list(getattr(prop, "ASSUMPTIONS", [])),
        "wall_s": round(wall, 2), "violations": nviol,
    }
    evdir = os.environ.get("PYVC_EVIDENCE_DIR", os.path.join(VERIF, "evidence"))
    os.makedirs(evdir, exist_ok=True)
    json.dump(ev, open(os.path.join(evdir, pid + ".json"), "w"), indent=1)
    if os.environ.get("PYVC_TIMING"):
        slow = sorted(results, key=lambda r: -r.get("wall_s", 0))[:8]
        for r in slow:
            t = r["task"]
            print("TIMING %.1fs %s[%s] %s" % (r.get("wall_s", 0), t.get("key", t.get("lemma")),
                                              t.get("case", ""), t["mode"]))
    for ln in lines:
        print(ln)
    print("property=%s tier=%s obligations=%d discharged=%d refuted=%d undecided=%d "
          "bounded=%d wall=%.1fs" % (pid, tier, obligations, discharged, len(refuted),
                                     len(undecided), len(bounded), wall))
    if nviol:
        return 1
    if crashed:
        for c in crashed:
            print("CHECKER-PROBLEM: " + c[:3000])
        return 3
    if undecided:
        for u in undecided[:20]:
            print("UNDECIDED: " + u[:500])
        return 2
    return 0


def _xc_job(t):
    key, cname, mode, seed = t
    from pyvc.run import get_engine
    from pyvc import crosscheck as X
    E = get_engine(mode)
    c = E.contracts[key]
    case = [k for k in c.cases if k.name == cname][0]
    try:
        n, bad, skip = X.crosscheck(E, key, case, mode, per_case=2, seed=seed)
    except Exception as ex:
        return (t, 0, [], "not compared (%s: %s)" % (type(ex).__name__, str(ex)[:120]))
    return (t, n, bad, skip)


def do_replay(path, search=None, seed=0):
    try:
        cmd = [REPLAY_PY, os.path.join(VERIF, "replay.py"), path, "--repo", REPO]
        if search:
            cmd += ["--search", str(search), "--seed", str(seed), "--budget", "40"]
        p = subprocess.run(cmd, capture_output=True, text=True,
                           timeout=120)
        try:
            out = json.loads(p.stdout)
        except Exception:
            out = {"raw": p.stdout[-2000:], "stderr": p.stderr[-2000:]}
        return (p.returncode == 1), out
    except subprocess.TimeoutExpired:
        return False, {"verdict": "replay timed out"}


def load_findings(pid):
    path = os.path.join(VERIF, "known_findings.json")
    if not os.path.exists(path):
        return []
    data = json.load(open(path))
    # a finding is recorded under ONE property but its function may lie in the
    # verification cone of others: the region exclusion applies wherever that
    # function is verified
    return list(data.get("findings", []))


def match_finding(findings, pid, t, x, rep):
    for f in findings:
        if f.get("kind", "obligation") != "obligation":
            continue
        fns = f.get("functions") or ([f["function"]] if f.get("function") else [])
        if fns and t.get("key") not in fns:
            continue
        if not re.search(f["obligation_regex"], x["name"]):
            continue
        if f.get("modes") and t["mode"] not in f["modes"]:
            continue
        return f
    return None


def match_bounded_finding(findings, b, f):
    for k in findings:
        if k.get("kind") != "bounded":
            continue
        if k.get("check") != b["name"]:
            continue
        if re.search(k["input_regex"], json.dumps(f.get("input"), sort_keys=True, default=str)):
            return k
    return None


TRUSTED_BASE = [
    "text tier (only where a check executes string code symbolically: C06-C08, C10, C17): the split lemma (steps machine-checked in lean/Split.lean) and the blindness lemma (prose) of pyvc/textlex.py, whose hypotheses are discharged by z3's regular-language theory at every use; the reduction of Python's backtracking matcher to 'first alternative in priority order whose language meets the form' is argued in that module; CPython axioms: %0Nd of an int in 0..10^N-1 prints its N-digit spelling, str(n) of n >= 0 is a non-empty ASCII digit run and int(str(n)) == n, float of a decimal text is the real it denotes",
    "CPython semantics as axiomatised by the PyVC engine (pyvc/*.py): int arithmetic exact, // and % floor semantics, truthiness, tuple comparison, slicing, attribute/slot model",
    "Python floats modelled as mathematical reals (SMT Real); numeric type int-vs-float of a field is not tracked, fields are modelled by value",
    "z3 5.1 / cvc5 1.0 / z3 4.8 soundness",
    "the PyVC engine itself (mitigated by canary lemmas that must be refuted, seeded-mutant runs recorded in DESIGN.md, and native replay of counterexamples)",
    "spec functions in /verif/spec/cal.py as the meaning of 'proleptic calendar' (validated against datetime for years 1..9999 in the thorough tier of C03); anchor: 2000-01-03 is a Monday in every mode",
    "functools.lru_cache treated as the identity decorator (justified by C15's footprint obligations)",
    "text of exception messages, docstrings, annotations and __repr__ are dropped by the translation",
]
ASSUMPTIONS = [
    "machine arithmetic: Python int is unbounded, SMT Int is its exact semantics; float rounding is NOT modelled (reals)",
    "callers are verified against callee CONTRACTS (modular); a callee whose own obligation fails is reported once, at the callee",
    "a local defined on only one arm of an if and read after the join (UnboundLocalError) is not modelled",
]

if __name__ == "__main__":
    sys.exit(main())
